#!/bin/bash
# usage: tryseed.sh <seed name> <pkg patterns> <func list>   — applies the seed's source patch to /repo, runs govc fn, restores the patched files only
cd /verif
files=$(grep '^+++ b/' seeded/$1/patch.diff | sed 's|^+++ b/||')
git -C /repo apply /verif/seeded/$1/patch.diff || exit 2
(cd engine && ./govc fn -pkg "$2" -func "$3" 2>&1 | tail -${4:-8})
for f in $files; do git -C /repo checkout -- $f 2>/dev/null || rm -f /repo/$f; done
