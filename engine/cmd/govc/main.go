package main

import (
	"encoding/json"
	"flag"
	"fmt"
	"math/big"
	"os"
	"path/filepath"
	"sort"
	"strconv"
	"strings"
	"time"

	"golang.org/x/tools/go/ssa"
)

var bigOne = big.NewInt(1)
var bigZero = big.NewInt(0)

type PropConfig struct {
	ID        string   `json:"id"`
	Packages  []string `json:"packages"`
	Functions []string `json:"functions"`
	Lemmas    []string `json:"lemmas"`
	MinObl    int      `json:"min_obligations"`
	Undecided []string `json:"undecided_clauses"`
	Decides   []string `json:"decides"`
	Selftest  []string `json:"selftest"`
}

type KnownFinding struct {
	Property   string `json:"property"`
	Obligation string `json:"obligation"`
	Witness    string `json:"witness"`
	Status     string `json:"status"` // finding | fixed
	Commit     string `json:"commit,omitempty"`
	What       string `json:"what"`
}

func main() {
	// the repository needs go >= 1.26: make the pre-installed go1.26.8 the `go` that go/packages runs
	os.Setenv("PATH", "/opt/veriftools/go1.26.8/bin:"+os.Getenv("PATH"))
	os.Setenv("GOFLAGS", "-mod=mod")
	os.Setenv("GOPROXY", "off")
	os.Setenv("GOSUMDB", "off")
	os.Setenv("GOTOOLCHAIN", "local")
	if len(os.Args) < 2 {
		fmt.Fprintln(os.Stderr, "usage: govc check|fn|selftest ...")
		os.Exit(2)
	}
	switch os.Args[1] {
	case "check":
		os.Exit(cmdCheck(os.Args[2:]))
	case "fn":
		os.Exit(cmdFn(os.Args[2:]))
	case "selftest":
		os.Exit(cmdSelftest(os.Args[2:]))
	case "replay":
		os.Exit(cmdReplay(os.Args[2:]))
	case "replayable":
		os.Exit(cmdReplayable(os.Args[2:]))
	case "dump":
		os.Exit(cmdDump(os.Args[2:]))
	}
	fmt.Fprintln(os.Stderr, "unknown command")
	os.Exit(2)
}

func findFunc(g *Gen, short string) *ssa.Function {
	for name, fn := range g.funcs {
		if shortName(name) == short || name == short {
			return fn
		}
	}
	return nil
}

func cmdDump(args []string) int {
	fs := flag.NewFlagSet("dump", flag.ExitOnError)
	repo := fs.String("repo", "/repo", "")
	pkg := fs.String("pkg", "", "package pattern")
	fname := fs.String("func", "", "function short name (substring)")
	fs.Parse(args)
	g, err := loadProgram(*repo, strings.Split(*pkg, ","), nil)
	if err != nil {
		fmt.Fprintln(os.Stderr, err)
		return 2
	}
	var names []string
	for name := range g.funcs {
		if strings.Contains(shortName(name), *fname) {
			names = append(names, name)
		}
	}
	sort.Strings(names)
	for _, n := range names {
		g.funcs[n].WriteTo(os.Stdout)
	}
	return 0
}

// cmdFn: developer mode — verify named functions and print each obligation.
func cmdFn(args []string) int {
	fs := flag.NewFlagSet("fn", flag.ExitOnError)
	repo := fs.String("repo", "/repo", "")
	verif := fs.String("verif", "/verif", "")
	pkg := fs.String("pkg", "", "package patterns, comma separated")
	fnames := fs.String("func", "", "function short names, comma separated (empty: all with contracts in those packages)")
	timeout := fs.Int("timeout", 10, "")
	keep := fs.Bool("keep", false, "keep smt files")
	verbose := fs.Bool("v", false, "")
	mfile := fs.String("mfile", "", "mutate: file (relative to repo)")
	mfind := fs.String("mfind", "", "mutate: text to find")
	mrepl := fs.String("mrepl", "", "mutate: replacement")
	doReplay := fs.Bool("replay", false, "try to replay failed obligations on the real code")
	fs.Parse(args)
	var overlay map[string][]byte
	if *mfile != "" {
		path := filepath.Join(*repo, *mfile)
		src, err := os.ReadFile(path)
		if err != nil {
			fmt.Fprintln(os.Stderr, err)
			return 2
		}
		if n := strings.Count(string(src), *mfind); n != 1 {
			fmt.Fprintf(os.Stderr, "mutation pattern occurs %d times\n", n)
			return 2
		}
		overlay = map[string][]byte{path: []byte(strings.Replace(string(src), *mfind, *mrepl, 1))}
	}
	g, err := loadProgram(*repo, strings.Split(*pkg, ","), overlay)
	if err != nil {
		fmt.Fprintln(os.Stderr, err)
		return 2
	}
	if err := g.loadAssumed(filepath.Join(*verif, "contracts", "assumed")); err != nil {
		fmt.Fprintln(os.Stderr, err)
		return 2
	}
	var targets []string
	if *fnames != "" {
		targets = splitFuncList(*fnames)
	} else {
		for name, fc := range g.cs.Funcs {
			if !fc.Trusted {
				targets = append(targets, shortName(name))
			}
		}
		sort.Strings(targets)
	}
	work := filepath.Join(*verif, ".work", "dev")
	os.RemoveAll(work)
	var all []*Obligation
	for _, t := range targets {
		fn := findFunc(g, t)
		if fn == nil {
			fmt.Printf("!! function not found: %s\n", t)
			continue
		}
		fc := g.cs.Funcs[fn.String()]
		if fc == nil {
			fmt.Printf("!! no contract for %s\n", t)
			continue
		}
		obs, info := g.verifyFunc(fn, fc)
		if info.Error != "" {
			fmt.Printf("!! %s: %s\n", t, info.Error)
		}
		for _, n := range info.Notes {
			fmt.Printf("   note %s: %s\n", t, n)
		}
		if len(info.HavocCalls) > 0 && *verbose {
			fmt.Printf("   havoc calls in %s: %v\n", t, info.HavocCalls)
		}
		all = append(all, obs...)
	}
	for _, l := range g.cs.Lemmas {
		if !l.Axiom {
			all = append(all, g.lemmaObligation(l))
		}
	}
	t0 := time.Now()
	dischargeAll(all, work, *timeout, false, 14)
	bad := 0
	for _, ob := range all {
		want := "unsat"
		if ob.Cover {
			want = "sat"
		}
		mark := "ok  "
		if ob.Result != want {
			mark = "FAIL"
			bad++
		}
		if mark == "FAIL" || *verbose {
			fmt.Printf("%s %-70s %-8s %-10s %.2fs %s\n", mark, ob.Name, ob.Result, ob.Solver, ob.TimeS, ob.Pos)
			if mark == "FAIL" {
				fmt.Printf("      %s\n", ob.Desc)
				if ob.Result == "error" {
					fmt.Printf("      %s\n", firstLines(ob.Output, 6))
				}
				if *doReplay && !ob.Cover {
					rp, ok := replayObligation(g, *repo, *verif, "dev", ob, work)
					fmt.Printf("      replay: reproduced=%v %s\n", ok, rp)
				}
			}
		}
	}
	fmt.Printf("%d obligations, %d failed, %.1fs\n", len(all), bad, time.Since(t0).Seconds())
	if !*keep && bad == 0 {
		os.RemoveAll(work)
	}
	if bad > 0 {
		return 1
	}
	return 0
}

func splitFuncList(s string) []string {
	var out []string
	for _, p := range strings.Split(s, ",") {
		p = strings.TrimSpace(p)
		if p != "" {
			out = append(out, p)
		}
	}
	return out
}

func firstLines(s string, n int) string {
	l := strings.Split(strings.TrimSpace(s), "\n")
	if len(l) > n {
		l = l[:n]
	}
	return strings.Join(l, "\n      ")
}

type runResult struct {
	obs   []*Obligation
	infos []FuncInfo
	err   error
	g     *Gen
}

// runProp generates and discharges every obligation of a property on the given source overlay.
func runProp(cfg *PropConfig, repo, verif string, overlay map[string][]byte, work string, timeout int, agree bool) runResult {
	g, err := loadProgram(repo, cfg.Packages, overlay)
	if err != nil {
		return runResult{err: err}
	}
	if err := g.loadAssumed(filepath.Join(verif, "contracts", "assumed")); err != nil {
		return runResult{err: err}
	}
	g.noAssume = map[string]bool{}
	for _, k := range loadKnown(verif) {
		if k.Status == "finding" && k.Obligation != "" {
			g.noAssume[k.Obligation] = true
		}
	}
	var all []*Obligation
	var infos []FuncInfo
	for _, t := range cfg.Functions {
		fn := findFunc(g, t)
		if fn == nil {
			all = append(all, &Obligation{Name: t + "#bind:function", Fn: t, Kind: "bind", Result: "error", Output: "function under contract not found in the current source: " + t})
			continue
		}
		fc := g.cs.Funcs[fn.String()]
		if fc == nil || fc.Trusted {
			all = append(all, &Obligation{Name: t + "#bind:contract", Fn: t, Kind: "bind", Result: "error", Output: "no contract bound to " + t})
			continue
		}
		obs, info := g.verifyFunc(fn, fc)
		all = append(all, obs...)
		infos = append(infos, info)
	}
	for _, ln := range cfg.Lemmas {
		var found *LemmaDef
		for _, l := range g.cs.Lemmas {
			if shortName(l.Pkg)+".lemma."+l.Name == ln {
				found = l
			}
		}
		if found == nil {
			all = append(all, &Obligation{Name: ln + "#bind:lemma", Kind: "bind", Result: "error", Output: "lemma not found: " + ln})
			continue
		}
		if found.Axiom {
			all = append(all, &Obligation{Name: ln + "#bind:lemma", Kind: "bind", Result: "error", Output: "axiom listed as lemma: " + ln})
			continue
		}
		all = append(all, g.lemmaObligation(found))
	}
	dischargeAll(all, work, timeout, agree, 14)
	return runResult{obs: all, infos: infos, g: g}
}

func loadProp(verif, id string) (*PropConfig, error) {
	b, err := os.ReadFile(filepath.Join(verif, "props", id+".json"))
	if err != nil {
		return nil, err
	}
	var cfg PropConfig
	if err := json.Unmarshal(b, &cfg); err != nil {
		return nil, fmt.Errorf("props/%s.json: %v", id, err)
	}
	return &cfg, nil
}

func loadKnown(verif string) []KnownFinding {
	var kf struct {
		Findings []KnownFinding `json:"findings"`
	}
	b, err := os.ReadFile(filepath.Join(verif, "known_findings.json"))
	if err != nil {
		return nil
	}
	json.Unmarshal(b, &kf)
	return kf.Findings
}

func cmdCheck(args []string) int {
	fs := flag.NewFlagSet("check", flag.ExitOnError)
	repo := fs.String("repo", "/repo", "")
	verif := fs.String("verif", "/verif", "")
	prop := fs.String("prop", "", "")
	tier := fs.String("tier", "quick", "")
	fs.Parse(args)
	t0 := time.Now()
	seed := 0
	if s := os.Getenv("VERIF_SEED"); s != "" {
		seed, _ = strconv.Atoi(s)
	}
	cfg, err := loadProp(*verif, *prop)
	if err != nil {
		fmt.Fprintln(os.Stderr, err)
		return 2
	}
	timeout := 10
	agree := false
	if *tier == "thorough" {
		timeout = 60
		agree = true
	}
	work := filepath.Join(*verif, ".work", *prop+"-"+*tier)
	os.RemoveAll(work)
	rr := runProp(cfg, *repo, *verif, nil, work, timeout, agree)
	evPath := filepath.Join(*verif, "evidence", *prop+".json")
	os.MkdirAll(filepath.Dir(evPath), 0o755)
	if rr.err != nil {
		// cannot even load: the proof does not cover the code
		rp := writeReplay(*verif, *prop, &Obligation{Name: "load", Kind: "load", Result: "error", Output: rr.err.Error()}, nil)
		fmt.Printf("VIOLATION property=%s replay=%s no-failing-input-found\n", *prop, rp)
		writeEvidence(evPath, cfg, *tier, seed, nil, nil, nil, nil, time.Since(t0).Seconds(), 1, []string{"load error: " + rr.err.Error()}, nil)
		return 1
	}
	known := loadKnown(*verif)
	violations := 0
	replayTried, replayDone, replayTotal := map[string]int{}, map[string]bool{}, 0
	replayRunDeadline = time.Now().Add(5 * time.Minute)
	var knownHit []string
	var vioNames []string
	discharged, total, covers, coversOK := 0, 0, 0, 0
	var selfRes []map[string]any
	for _, ob := range rr.obs {
		if ob.Cover {
			covers++
			if ob.Result == "sat" {
				coversOK++
				continue
			}
			// vacuity: precondition or invariant unsatisfiable (or undecided)
			if ob.Result == "unknown" || ob.Result == "timeout" {
				// undecided covers are reported but are not violations of the property
				coversOK++
				continue
			}
			violations++
			rp := writeReplay(*verif, *prop, ob, nil)
			fmt.Printf("VIOLATION property=%s replay=%s no-failing-input-found\n", *prop, rp)
			vioNames = append(vioNames, ob.Name+" (vacuous: "+ob.Result+")")
			continue
		}
		total++
		if ob.Result == "unsat" {
			discharged++
			continue
		}
		// failed obligation: known finding?
		isKnown := false
		for _, k := range known {
			if k.Property == *prop && k.Status == "finding" && k.Obligation == ob.Name {
				isKnown = true
				fmt.Printf("KNOWN-FINDING: property=%s %s %s\n", *prop, ob.Name, k.What)
				knownHit = append(knownHit, ob.Name)
			}
		}
		if isKnown {
			// a recorded violation: listed, and counted apart from the obligations claimed proved
			total--
			continue
		}
		violations++
		// replay budget: at most 3 failed obligations per function, 8 per run, none once the function reproduced
		g4r := rr.g
		if replayTried[ob.Fn] >= 3 || replayDone[ob.Fn] || replayTotal >= 8 {
			g4r = nil
		} else {
			replayTried[ob.Fn]++
			replayTotal++
		}
		rp, reproduced := replayObligation(g4r, *repo, *verif, *prop, ob, work)
		if reproduced {
			replayDone[ob.Fn] = true
		}
		suffix := ""
		if !reproduced {
			suffix = " no-failing-input-found"
		}
		fmt.Printf("VIOLATION property=%s replay=%s%s\n", *prop, rp, suffix)
		vioNames = append(vioNames, ob.Name+" ("+ob.Result+")")
	}
	if total < cfg.MinObl {
		violations++
		ob := &Obligation{Name: "obligation-count", Kind: "vacuity", Result: "error", Output: fmt.Sprintf("only %d obligations generated; props/%s.json requires at least %d (a contract block failed to bind)", total, *prop, cfg.MinObl)}
		rp := writeReplay(*verif, *prop, ob, nil)
		fmt.Printf("VIOLATION property=%s replay=%s no-failing-input-found\n", *prop, rp)
		vioNames = append(vioNames, ob.Name)
	}
	if *tier == "thorough" && violations == 0 {
		st, bad := runSelftests(cfg, *repo, *verif, filepath.Join(*verif, ".work", *prop+"-selftest"))
		selfRes = st
		if bad > 0 {
			violations++
			ob := &Obligation{Name: "selftest", Kind: "selftest", Result: "error", Output: fmt.Sprintf("%d must-fail patches were not detected (verifier too weak); see evidence", bad)}
			rp := writeReplay(*verif, *prop, ob, nil)
			fmt.Printf("VIOLATION property=%s replay=%s no-failing-input-found\n", *prop, rp)
		}
	}
	// recorded findings that no contract decides (demonstrated by a failing test kept under /verif/audits): listed on
	// every run, so that the record of what is known to fail is complete; they suppress nothing
	for _, k := range known {
		if k.Property == *prop && k.Status == "finding" && k.Obligation == "" {
			fmt.Printf("KNOWN-FINDING: property=%s (no contract decides it) %s\n", *prop, k.What)
			knownHit = append(knownHit, "(no contract decides it) "+k.What)
		}
	}
	writeEvidence(evPath, cfg, *tier, seed, rr.obs, rr.infos, knownHit, selfRes, time.Since(t0).Seconds(), violations, vioNames, rr.g)
	fmt.Printf("%s %s: %d/%d obligations discharged, %d covers (%d sat), %d known findings, %d violations, %.1fs\n", *prop, *tier, discharged, total, covers, coversOK, len(knownHit), violations, time.Since(t0).Seconds())
	if violations > 0 {
		return 1
	}
	os.RemoveAll(work)
	return 0
}

func writeReplay(verif, prop string, ob *Obligation, extra map[string]any) string {
	dir := filepath.Join(verif, "replays", prop)
	os.MkdirAll(dir, 0o755)
	p := filepath.Join(dir, sanitize(ob.Name)+".json")
	m := map[string]any{"property": prop, "obligation": ob.Name, "kind": ob.Kind, "description": ob.Desc, "position": ob.Pos, "solver_result": ob.Result, "solver": ob.Solver, "solver_output": ob.Output, "goal": ob.Goal}
	for k, v := range extra {
		m[k] = v
	}
	b, _ := json.MarshalIndent(m, "", " ")
	os.WriteFile(p, b, 0o644)
	if ob.Script != "" {
		os.WriteFile(strings.TrimSuffix(p, ".json")+".smt2", []byte(ob.Script), 0o644)
	}
	return p
}

func writeEvidence(path string, cfg *PropConfig, tier string, seed int, obs []*Obligation, infos []FuncInfo, knownHit []string, selftest []map[string]any, wall float64, violations int, vioNames []string, g *Gen) {
	total, discharged := 0, 0
	byBackend := map[string]int{}
	solverTime := 0.0
	var samples []map[string]any
	var boundedObs []map[string]any
	covers, coversOK := 0, 0
	trusted := map[string]bool{}
	isKnownHit := map[string]bool{}
	for _, k := range knownHit {
		isKnownHit[k] = true
	}
	var knownObs []map[string]any
	for _, ob := range obs {
		solverTime += ob.TimeS
		if ob.Cover {
			covers++
			if ob.Result == "sat" {
				coversOK++
			}
			continue
		}
		if ob.Bounded != "" {
			boundedObs = append(boundedObs, map[string]any{"obligation": ob.Name, "bound": ob.Bounded, "result": ob.Result})
			continue
		}
		// an obligation recorded as a known finding is a recorded VIOLATION, not part of what is claimed proved: it is
		// listed (known_findings, known_finding_obligations) and counted apart from obligations / discharged
		if isKnownHit[ob.Name] {
			knownObs = append(knownObs, map[string]any{"obligation": ob.Name, "what": ob.Desc, "result": ob.Result, "at": ob.Pos})
			continue
		}
		total++
		if ob.Result == "unsat" {
			discharged++
			byBackend[ob.Solver]++
		}
		if len(samples) < 400 {
			samples = append(samples, map[string]any{"obligation": ob.Name, "what": ob.Desc, "smt_bytes": ob.Size, "backend": ob.Solver, "result": ob.Result, "time_s": round3(ob.TimeS), "at": ob.Pos})
		}
	}
	for _, in := range infos {
		for _, u := range in.Used {
			trusted[u] = true
		}
	}
	tb := []string{"govc VC generator (go/ssa -> SMT-LIB), this repository's /verif/engine", "golang.org/x/tools/go/ssa translation of Go source", "SMT solvers z3 5.1.0 / cvc5 1.0 / z3 4.8.12"}
	tb = append(tb, sortedKeys(trusted)...)
	assumptions := append([]string{}, tb[3:]...)
	for _, u := range cfg.Undecided {
		assumptions = append(assumptions, "UNDECIDED by this technique: "+u)
	}
	assumptions = append(assumptions, "sequential execution of each function (no goroutine interleaving); lock discipline of the repository assumed", "int-mode arithmetic is exact given the discharged safety.ovf obligations; bv-mode arithmetic is exact")
	ev := map[string]any{
		"property_id": cfg.ID,
		"tier":        tier,
		"seed":        seed,
		"level":       "proof",
		"wall_s":      round3(wall),
		"violations":  violations,
		"assumptions": assumptions,
		"coverage": map[string]any{
			"obligations":              total,
			"discharged":               discharged,
			"checker_cmd":              "engine/govc check -prop " + cfg.ID + " -tier " + tier,
			"trusted_base":             tb,
			"samples":                  samples,
			"functions_under_contract": infos,
			"by_backend":               byBackend,
			"solver_time_s":            round3(solverTime),
			"bounded":                  boundedObs,
			"covers":                   covers,
			"covers_sat":               coversOK,
			"decides":                  cfg.Decides,
			"undecided_clauses":        cfg.Undecided,
			"known_findings":           knownHit,
			"known_finding_obligations": knownObs,
			"violated_obligations":     vioNames,
			"selftest":                 selftest,
			"counterexample_replay":    replayEvidence(g, infos),
		},
	}
	b, _ := json.MarshalIndent(ev, "", " ")
	os.WriteFile(path, b, 0o644)
}

func round3(f float64) float64 { return float64(int(f*1000+0.5)) / 1000 }

// replayStats is filled by replayObligation during a run.
var replayStats = struct {
	Attempted  int
	Reproduced []string
}{}

// replayEvidence: which functions under contract are in the class whose failed obligations are replayed on the
// real code, and what this run replayed.
func replayEvidence(g *Gen, infos []FuncInfo) map[string]any {
	out := map[string]any{
		"method":     "on a failed obligation: candidate input from the failing query (quantifiers instantiated over small indices / dropped), run on the real function by an in-package test injected with go test -overlay, contract evaluated on the observed run by the solver; reproduced only if the precondition is proved for the input and a postcondition is proved false for the input/output pair (or a side-effect-free function panics)",
		"attempted":  replayStats.Attempted,
		"reproduced": replayStats.Reproduced,
	}
	if g == nil {
		return out
	}
	var yes []string
	for _, in := range infos {
		for n := range g.funcs {
			if shortName(n) == in.Name {
				if p, _ := g.planReplay(n); p != nil {
					yes = append(yes, in.Name)
				}
				break
			}
		}
	}
	sort.Strings(yes)
	out["replayable_functions"] = yes
	out["replayable_of_under_contract"] = fmt.Sprintf("%d of %d", len(yes), len(infos))
	return out
}
