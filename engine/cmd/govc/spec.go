package main

// Translation of contract expressions to SMT terms.

import (
	"fmt"
	"go/constant"
	"go/token"
	"go/types"
	"math/big"
	"strconv"
	"strings"
)

type Env struct {
	c      *FnCtx
	names  map[string]Val
	lookup func(string) (Val, bool)
	heap   Heap
	old    Heap
	pkg    *types.Package
	depth  int
	what   string
	recFuel map[string]int // remaining unfoldings of recursive specs while translating their own bodies
	skolem bool // translate top-level universal quantifiers of a goal by fresh constants
	headEnv *Env // preservation check of a loop invariant: the environment of the loop HEAD of this iteration (athead)
}

func (e *Env) child() *Env {
	n := *e
	n.names = map[string]Val{}
	for k, v := range e.names {
		n.names[k] = v
	}
	return &n
}

type specErr struct{ msg string }

func (e *Env) fail(f string, a ...any) {
	panic(specErr{fmt.Sprintf(f, a...) + " [in " + e.what + "]"})
}

// resolveType parses a type expression in the scope of package pkg.
func resolveType(pkg *types.Package, s string) (types.Type, error) {
	s = strings.TrimSpace(s)
	switch {
	case strings.HasPrefix(s, "func("):
		// function types are opaque references
		return types.NewSignatureType(nil, nil, nil, nil, nil, false), nil
	case strings.HasPrefix(s, "*"):
		t, err := resolveType(pkg, s[1:])
		if err != nil {
			return nil, err
		}
		return types.NewPointer(t), nil
	case strings.HasPrefix(s, "[]"):
		t, err := resolveType(pkg, s[2:])
		if err != nil {
			return nil, err
		}
		return types.NewSlice(t), nil
	case strings.HasPrefix(s, "["):
		i := strings.Index(s, "]")
		n, err := strconv.Atoi(s[1:i])
		if err != nil {
			return nil, fmt.Errorf("array length in %q", s)
		}
		t, err := resolveType(pkg, s[i+1:])
		if err != nil {
			return nil, err
		}
		return types.NewArray(t, int64(n)), nil
	case strings.HasPrefix(s, "map["):
		depth := 0
		for i := 3; i < len(s); i++ {
			if s[i] == '[' {
				depth++
			} else if s[i] == ']' {
				depth--
				if depth == 0 {
					k, err := resolveType(pkg, s[4:i])
					if err != nil {
						return nil, err
					}
					v, err := resolveType(pkg, s[i+1:])
					if err != nil {
						return nil, err
					}
					return types.NewMap(k, v), nil
				}
			}
		}
	}
	if obj := types.Universe.Lookup(s); obj != nil {
		if tn, ok := obj.(*types.TypeName); ok {
			return tn.Type(), nil
		}
	}
	// generic instantiation  Name[T1,T2]
	if strings.HasSuffix(s, "]") {
		if i := strings.Index(s, "["); i > 0 {
			base, err := resolveType(pkg, s[:i])
			if err != nil {
				return nil, err
			}
			var targs []types.Type
			for _, a := range splitTop(s[i+1 : len(s)-1]) {
				t, err := resolveType(pkg, strings.TrimSpace(a))
				if err != nil {
					return nil, err
				}
				targs = append(targs, t)
			}
			inst, err := types.Instantiate(nil, base, targs, false)
			if err != nil {
				return nil, fmt.Errorf("instantiate %s: %v", s, err)
			}
			return inst, nil
		}
	}
	if i := strings.LastIndex(s, "."); i >= 0 {
		pn, tn := s[:i], s[i+1:]
		if p := findImport(pkg, pn); p != nil {
			if obj, ok := p.Scope().Lookup(tn).(*types.TypeName); ok {
				return obj.Type(), nil
			}
		}
		return nil, fmt.Errorf("unknown type %s", s)
	}
	if pkg != nil {
		if obj, ok := pkg.Scope().Lookup(s).(*types.TypeName); ok {
			return obj.Type(), nil
		}
	}
	return nil, fmt.Errorf("unknown type %s", s)
}

func findImport(pkg *types.Package, name string) *types.Package {
	if pkg == nil {
		return nil
	}
	if pkg.Name() == name {
		return pkg
	}
	seen := map[*types.Package]bool{}
	var walk func(p *types.Package, d int) *types.Package
	walk = func(p *types.Package, d int) *types.Package {
		if seen[p] || d > 3 {
			return nil
		}
		seen[p] = true
		for _, im := range p.Imports() {
			if im.Name() == name || im.Path() == name {
				return im
			}
		}
		for _, im := range p.Imports() {
			if strings.HasPrefix(im.Path(), "github.com/semihalev/sdns") {
				if r := walk(im, d+1); r != nil {
					return r
				}
			}
		}
		return nil
	}
	return walk(pkg, 0)
}

func (e *Env) typeOf(s string) types.Type {
	t, err := resolveType(e.pkg, s)
	if err != nil {
		e.fail("%v", err)
	}
	return t
}

func isUntyped(v Val) bool { return v.Num != nil }

func (e *Env) materialize(v Val, t types.Type) Val {
	if v.Num == nil {
		return v
	}
	if ii, ok := intInfoOf(t); ok {
		return Val{T: e.c.mode.lit(v.Num, ii), Ty: t}
	}
	e.fail("cannot use integer literal as %s", t)
	return v
}

func (e *Env) mat(v Val) Val {
	if v.Num != nil {
		return e.materialize(v, types.Typ[types.Int])
	}
	return v
}

// unify coerces an untyped operand to the type of the other.
func (e *Env) unify(x, y Val) (Val, Val) {
	switch {
	case x.Num != nil && y.Num != nil:
		return e.mat(x), e.mat(y)
	case x.Num != nil:
		return e.materialize(x, y.Ty), y
	case y.Num != nil:
		return x, e.materialize(y, x.Ty)
	}
	return x, y
}

// locVal marks a Val as an unloaded location.
type locMark struct{}

func (e *Env) isLoc(v Val) bool { return v.Opaque && v.Num == locSentinel }

var locSentinel = big.NewInt(-424242)

func mkLoc(p Val) Val {
	p.Opaque = true
	p.Num = locSentinel
	return p
}

func (e *Env) force(v Val) Val {
	if !e.isLoc(v) {
		return v
	}
	v.Opaque = false
	v.Num = nil
	return e.c.load(v, e.heap, false)
}

func (e *Env) tr(x Expr) Val { return e.force(e.trRaw(x)) }

func (e *Env) boolT(x Expr) string {
	v := e.tr(x)
	if v.Ty == nil || e.c.sortOf(v.Ty) != "Bool" {
		e.fail("expected boolean: %s", x)
	}
	return v.T
}

var boolTy = types.Typ[types.Bool]
var intTy = types.Typ[types.Int]

func (e *Env) trRaw(x Expr) Val {
	c := e.c
	sk := e.skolem
	e.skolem = false
	if sk {
		switch y := x.(type) {
		case *EBinary:
			if y.Op == "&&" {
				e.skolem = true
				a := e.boolT(y.X)
				e.skolem = true
				b := e.boolT(y.Y)
				e.skolem = false
				return Val{T: and(a, b), Ty: boolTy}
			}
			if y.Op == "==>" {
				a := e.boolT(y.X)
				e.skolem = true
				b := e.boolT(y.Y)
				e.skolem = false
				return Val{T: implies(a, b), Ty: boolTy}
			}
		case *EQuant:
			if y.Forall {
				return e.skolemize(y)
			}
		case *ECall:
			if id, ok := y.Fun.(*EIdent); ok {
				if sd := e.findSpec(id.Name); sd != nil && !sd.Rec && !sd.Uninterp {
					var args []Val
					for _, a := range y.Args {
						args = append(args, e.tr(a))
					}
					e.skolem = true
					r := e.applySpec(sd, args)
					e.skolem = false
					return r
				}
			}
		}
	}
	switch x := x.(type) {
	case *ENum:
		n, ok := new(big.Int).SetString(x.Text, 0)
		if !ok {
			e.fail("bad number %s", x.Text)
		}
		return Val{Num: n}
	case *EChar:
		return Val{Num: big.NewInt(int64(x.Val))}
	case *EStr:
		return Val{T: c.strLit(x.Val), Ty: types.Typ[types.String]}
	case *EIdent:
		switch x.Name {
		case "true":
			return Val{T: "true", Ty: boolTy}
		case "false":
			return Val{T: "false", Ty: boolTy}
		case "nil":
			return Val{T: "0", Ty: types.Typ[types.UntypedNil]}
		}
		if v, ok := e.names[x.Name]; ok {
			return v
		}
		if e.lookup != nil {
			if v, ok := e.lookup(x.Name); ok {
				return v
			}
		}
		if v, ok := c.ghost[x.Name]; ok {
			return v
		}
		if e.pkg != nil {
			if obj := e.pkg.Scope().Lookup(x.Name); obj != nil {
				return e.objVal(obj)
			}
		}
		if sd := e.findSpec(x.Name); sd != nil && len(sd.Params) == 0 {
			return e.applySpec(sd, nil)
		}
		e.fail("unknown identifier %s", x.Name)
	case *EUnary:
		switch x.Op {
		case "!":
			return Val{T: not(e.boolT(x.X)), Ty: boolTy}
		case "-":
			v := e.tr(x.X)
			if v.Num != nil {
				return Val{Num: new(big.Int).Neg(v.Num)}
			}
			if c.mode == ModeBV {
				return Val{T: "(bvneg " + v.T + ")", Ty: v.Ty}
			}
			return Val{T: "(- " + v.T + ")", Ty: v.Ty}
		case "^":
			v := e.mat(e.tr(x.X))
			ii, _ := intInfoOf(v.Ty)
			if c.mode == ModeBV {
				return Val{T: "(bvnot " + v.T + ")", Ty: v.Ty}
			}
			if ii.signed {
				return Val{T: "(- (- " + v.T + ") 1)", Ty: v.Ty}
			}
			return Val{T: "(- " + smtInt(ii.max()) + " " + v.T + ")", Ty: v.Ty}
		case "*":
			v := e.tr(x.X)
			if _, ok := v.Ty.Underlying().(*types.Pointer); !ok {
				e.fail("deref of non-pointer %s", x.X)
			}
			return mkLoc(v)
		}
	case *EBinary:
		return e.binary(x)
	case *ESel:
		return e.selector(x)
	case *EIndex:
		return e.index(x)
	case *ESlice:
		return e.slice(x)
	case *ECall:
		return e.call(x)
	case *EQuant:
		return e.quant(x)
	case *EComp:
		t := e.typeOf(x.Type)
		st, ok := t.Underlying().(*types.Struct)
		if !ok {
			e.fail("composite literal of non-struct %s", x.Type)
		}
		c.sortOf(t)
		var fs []string
		for i := 0; i < st.NumFields(); i++ {
			fv := c.zero(st.Field(i).Type())
			for k, n := range x.Fields {
				if n == st.Field(i).Name() {
					fv = e.materialize(e.tr(x.Vals[k]), st.Field(i).Type()).T
				}
			}
			fs = append(fs, fv)
		}
		if len(fs) == 0 {
			fs = []string{"true"}
		}
		return Val{T: "(" + c.structCtor(t) + " " + strings.Join(fs, " ") + ")", Ty: t}
	}
	e.fail("cannot translate %s", x)
	return Val{}
}

func (e *Env) objVal(obj types.Object) Val {
	c := e.c
	switch o := obj.(type) {
	case *types.Const:
		t := o.Type()
		switch o.Val().Kind() {
		case constant.Bool:
			if constant.BoolVal(o.Val()) {
				return Val{T: "true", Ty: boolTy}
			}
			return Val{T: "false", Ty: boolTy}
		case constant.Int:
			n, _ := new(big.Int).SetString(o.Val().ExactString(), 10)
			if b, ok := t.Underlying().(*types.Basic); ok && b.Info()&types.IsUntyped != 0 {
				return Val{Num: n}
			}
			if ii, ok := intInfoOf(t); ok {
				return Val{T: c.mode.lit(n, ii), Ty: t}
			}
		case constant.String:
			return Val{T: c.strLit(constant.StringVal(o.Val())), Ty: types.Typ[types.String]}
		case constant.Float:
			if n, ok := constant.Int64Val(constant.ToInt(o.Val())); ok {
				return Val{Num: big.NewInt(n)}
			}
		}
		e.fail("unsupported constant %s", o.Name())
	case *types.Func:
		// a package-level function used as a value
		full := o.FullName()
		name := sym("func " + shortName(full))
		c.decl("(declare-const " + name + " Int)")
		c.decl("(assert (not (= " + name + " 0)))")
		return Val{T: name, Ty: o.Type()}
	case *types.Var:
		// package-level variable: a global cell
		name := sym("global " + shortName(o.Pkg().Path()+"."+o.Name()))
		c.decl("(declare-const " + name + " Int)")
		c.decl("(assert (not (= " + name + " 0)))")
		return mkLoc(Val{T: name, Ty: types.NewPointer(o.Type())})
	}
	e.fail("unsupported object %s", obj.Name())
	return Val{}
}

func (e *Env) binary(x *EBinary) Val {
	c := e.c
	switch x.Op {
	case "&&":
		return Val{T: and(e.boolT(x.X), e.boolT(x.Y)), Ty: boolTy}
	case "||":
		return Val{T: or(e.boolT(x.X), e.boolT(x.Y)), Ty: boolTy}
	case "==>":
		return Val{T: implies(e.boolT(x.X), e.boolT(x.Y)), Ty: boolTy}
	case "<==>":
		return Val{T: eq(e.boolT(x.X), e.boolT(x.Y)), Ty: boolTy}
	}
	a, b := e.tr(x.X), e.tr(x.Y)
	ops := map[string]token.Token{"==": token.EQL, "!=": token.NEQ, "<": token.LSS, "<=": token.LEQ, ">": token.GTR, ">=": token.GEQ,
		"+": token.ADD, "-": token.SUB, "*": token.MUL, "/": token.QUO, "%": token.REM, "&": token.AND, "|": token.OR, "^": token.XOR,
		"<<": token.SHL, ">>": token.SHR, "&^": token.AND_NOT}
	op := ops[x.Op]
	switch op {
	case token.EQL, token.NEQ, token.LSS, token.LEQ, token.GTR, token.GEQ:
		// nil comparisons
		if isNilVal(a) || isNilVal(b) {
			o := a
			if isNilVal(a) {
				o = b
			}
			var t string
			if _, isSl := o.Ty.Underlying().(*types.Slice); isSl {
				t = eq("(s_reg "+o.T+")", "0")
			} else if len(o.Path) > 0 {
				t = "false"
			} else {
				t = eq(o.T, "0")
			}
			if op == token.NEQ {
				t = not(t)
			}
			return Val{T: t, Ty: boolTy}
		}
		a, b = e.unify(a, b)
		if c.mode == ModeInt {
			if _, ok := intInfoOf(a.Ty); ok {
				m := map[token.Token]string{token.EQL: "=", token.LSS: "<", token.LEQ: "<=", token.GTR: ">", token.GEQ: ">="}
				if op == token.NEQ {
					return Val{T: not(eq(a.T, b.T)), Ty: boolTy}
				}
				if op == token.EQL {
					return Val{T: eq(a.T, b.T), Ty: boolTy}
				}
				return Val{T: "(" + m[op] + " " + a.T + " " + b.T + ")", Ty: boolTy}
			}
		} else if ia, ok := intInfoOf(a.Ty); ok {
			if ib, ok := intInfoOf(b.Ty); ok && ia.bits != ib.bits {
				e.fail("comparison of different widths: %s", x)
			}
		}
		return Val{T: c.cmpOp(op, a.T, b.T, a.Ty), Ty: boolTy}
	}
	if a.Num != nil && b.Num != nil {
		r := new(big.Int)
		switch op {
		case token.ADD:
			r.Add(a.Num, b.Num)
		case token.SUB:
			r.Sub(a.Num, b.Num)
		case token.MUL:
			r.Mul(a.Num, b.Num)
		case token.QUO:
			r.Quo(a.Num, b.Num)
		case token.REM:
			r.Rem(a.Num, b.Num)
		case token.SHL:
			r.Lsh(a.Num, uint(b.Num.Int64()))
		case token.SHR:
			r.Rsh(a.Num, uint(b.Num.Int64()))
		case token.AND:
			r.And(a.Num, b.Num)
		case token.OR:
			r.Or(a.Num, b.Num)
		case token.XOR:
			r.Xor(a.Num, b.Num)
		case token.AND_NOT:
			r.AndNot(a.Num, b.Num)
		}
		return Val{Num: r}
	}
	yTy := b.Ty
	if op == token.SHL || op == token.SHR {
		if b.Num != nil {
			if a.Num != nil {
				a = e.mat(a)
			}
			ii, _ := intInfoOf(a.Ty)
			if c.mode == ModeBV {
				b = Val{T: smtBV(b.Num, ii.bits), Ty: types.Typ[types.Uint64]}
				if ii.bits != 64 {
					switch ii.bits {
					case 8:
						b.Ty = types.Typ[types.Uint8]
					case 16:
						b.Ty = types.Typ[types.Uint16]
					case 32:
						b.Ty = types.Typ[types.Uint32]
					}
				}
			} else {
				b = Val{T: smtInt(b.Num), Ty: types.Typ[types.Uint]}
			}
			yTy = b.Ty
		}
		if a.Num != nil {
			a = e.mat(a)
		}
	} else {
		a, b = e.unify(a, b)
		yTy = b.Ty
		if c.mode == ModeBV {
			if ia, ok := intInfoOf(a.Ty); ok {
				if ib, ok := intInfoOf(b.Ty); ok && ia.bits != ib.bits {
					e.fail("arithmetic on different widths: %s", x)
				}
			}
		}
	}
	return Val{T: c.arith(op, a.T, b.T, a.Ty, yTy, false), Ty: a.Ty}
}

func isNilVal(v Val) bool {
	if v.Ty == nil {
		return false
	}
	b, ok := v.Ty.(*types.Basic)
	return ok && b.Kind() == types.UntypedNil
}

func (e *Env) selector(x *ESel) Val {
	c := e.c
	// package-qualified name?
	if id, ok := x.X.(*EIdent); ok {
		if _, bound := e.names[id.Name]; !bound {
			isLocal := false
			if e.lookup != nil {
				_, isLocal = e.lookup(id.Name)
			}
			if !isLocal {
				if p := findImport(e.pkg, id.Name); p != nil && (e.pkg == nil || e.pkg.Scope().Lookup(id.Name) == nil) {
					if obj := p.Scope().Lookup(x.Name); obj != nil {
						return e.objVal(obj)
					}
					e.fail("unknown %s.%s", id.Name, x.Name)
				}
			}
		}
	}
	v := e.trRaw(x.X)
	var structTy types.Type
	if e.isLoc(v) {
		lt := v.Ty.Underlying().(*types.Pointer).Elem()
		if _, isPtr := lt.Underlying().(*types.Pointer); isPtr {
			v = e.force(v)
		} else {
			structTy = lt
		}
	}
	if structTy == nil {
		if pt, ok := v.Ty.Underlying().(*types.Pointer); ok {
			structTy = pt.Elem()
			v = mkLoc(v)
		}
	}
	if structTy != nil {
		// v is a location of struct type
		obj, path, _ := types.LookupFieldOrMethod(structTy, true, e.pkg, x.Name)
		fv, ok := obj.(*types.Var)
		if !ok || !fv.IsField() {
			obj, path, _ = lookupFieldAnyPkg(structTy, x.Name)
			fv, ok = obj.(*types.Var)
			if !ok {
				e.fail("no field %s in %s", x.Name, structTy)
			}
		}
		cur := v
		curT := structTy
		for i, fi := range path {
			st, ok := curT.Underlying().(*types.Struct)
			if !ok {
				e.fail("selector through non-struct %s", curT)
			}
			ft := st.Field(fi).Type()
			p := cur
			p.Opaque, p.Num = false, nil
			np := Val{T: p.T, Ty: types.NewPointer(ft), BaseTy: p.BaseTy}
			if len(p.Path) == 0 {
				np.BaseTy = curT
			}
			np.Path = append(append([]step{}, p.Path...), step{field: fi})
			cur = mkLoc(np)
			curT = ft
			if i < len(path)-1 {
				if pt, isPtr := ft.Underlying().(*types.Pointer); isPtr {
					pv := e.force(cur)
					cur = mkLoc(pv)
					curT = pt.Elem()
				}
			}
		}
		return cur
	}
	// struct value
	if st, ok := v.Ty.Underlying().(*types.Struct); ok {
		_, path, _ := lookupFieldAnyPkg(v.Ty, x.Name)
		if path == nil {
			e.fail("no field %s in %s", x.Name, v.Ty)
		}
		cur := v
		_ = st
		for _, fi := range path {
			s2, ok := cur.Ty.Underlying().(*types.Struct)
			if !ok {
				e.fail("selector through non-struct value %s", cur.Ty)
			}
			c.sortOf(cur.Ty)
			cur = Val{T: "(" + c.fieldAcc(cur.Ty, fi) + " " + cur.T + ")", Ty: s2.Field(fi).Type()}
		}
		return cur
	}
	e.fail("selector %s on %s", x.Name, v.Ty)
	return Val{}
}

func lookupFieldAnyPkg(t types.Type, name string) (types.Object, []int, bool) {
	// search fields ignoring package visibility
	var rec func(t types.Type, depth int) (types.Object, []int)
	rec = func(t types.Type, depth int) (types.Object, []int) {
		if pt, ok := t.Underlying().(*types.Pointer); ok {
			t = pt.Elem()
		}
		st, ok := t.Underlying().(*types.Struct)
		if !ok || depth > 3 {
			return nil, nil
		}
		for i := 0; i < st.NumFields(); i++ {
			if st.Field(i).Name() == name {
				return st.Field(i), []int{i}
			}
		}
		for i := 0; i < st.NumFields(); i++ {
			if st.Field(i).Embedded() {
				if o, p := rec(st.Field(i).Type(), depth+1); o != nil {
					return o, append([]int{i}, p...)
				}
			}
		}
		return nil, nil
	}
	o, p := rec(t, 0)
	return o, p, false
}

func (e *Env) index(x *EIndex) Val {
	c := e.c
	v := e.trRaw(x.X)
	if e.isLoc(v) {
		lt := v.Ty.Underlying().(*types.Pointer).Elem()
		if at, ok := lt.Underlying().(*types.Array); ok {
			i := e.materialize(e.tr(x.I), intTy)
			idx := c.toIdx(i.T, i.Ty)
			p := v
			p.Opaque, p.Num = false, nil
			np := Val{T: p.T, Ty: types.NewPointer(at.Elem()), BaseTy: p.BaseTy}
			if len(p.Path) == 0 {
				np.BaseTy = lt
			}
			np.Path = append(append([]step{}, p.Path...), step{isIdx: true, idx: idx})
			return mkLoc(np)
		}
		v = e.force(v)
	}
	i := e.tr(x.I)
	switch u := v.Ty.Underlying().(type) {
	case *types.Slice:
		i = e.materialize(i, intTy)
		idx := c.toIdx(i.T, i.Ty)
		pos := c.spos(v.T, idx)
		et := u.Elem()
		if isStruct(et) {
			return mkLoc(Val{T: "(elt (s_reg " + v.T + ") " + pos + ")", Ty: types.NewPointer(et)})
		}
		return mkLoc(Val{T: "(s_reg " + v.T + ")", Ty: types.NewPointer(et), BaseTy: types.NewArray(et, 1<<40), Path: []step{{isIdx: true, idx: pos}}})
	case *types.Array:
		i = e.materialize(i, intTy)
		return Val{T: sel(v.T, c.toIdx(i.T, i.Ty)), Ty: u.Elem()}
	case *types.Basic:
		if u.Info()&types.IsString != 0 {
			i = e.materialize(i, intTy)
			c.declStrings()
			return Val{T: "(sbyte " + v.T + " " + c.toIdx(i.T, i.Ty) + ")", Ty: types.Typ[types.Uint8]}
		}
	case *types.Map:
		i = e.materialize(i, u.Key())
		key := c.mapKey(i, u.Key())
		has := and(not(eq(v.T, "0")), sel(sel(c.heapTerm(e.heap, c.mapHasHeap(v.Ty)), v.T), key))
		val := sel(sel(c.heapTerm(e.heap, c.mapValHeap(v.Ty)), v.T), key)
		return Val{T: ite(has, val, c.zero(u.Elem())), Ty: u.Elem()}
	case *types.Pointer:
		if at, ok := u.Elem().Underlying().(*types.Array); ok {
			i = e.materialize(i, intTy)
			return mkLoc(Val{T: v.T, Ty: types.NewPointer(at.Elem()), BaseTy: u.Elem(), Path: []step{{isIdx: true, idx: c.toIdx(i.T, i.Ty)}}})
		}
	}
	e.fail("cannot index %s (type %s)", x.X, v.Ty)
	return Val{}
}

func (e *Env) slice(x *ESlice) Val {
	c := e.c
	v := e.tr(x.X)
	z := c.mode.idxLit(0)
	lo := z
	if x.Lo != nil {
		l := e.materialize(e.tr(x.Lo), intTy)
		lo = c.toIdx(l.T, l.Ty)
	}
	hi := "(s_len " + v.T + ")"
	if x.Hi != nil {
		h := e.materialize(e.tr(x.Hi), intTy)
		hi = c.toIdx(h.T, h.Ty)
	}
	switch u := v.Ty.Underlying().(type) {
	case *types.Slice:
		return Val{T: "(mk_slice (s_reg " + v.T + ") " + c.idxAdd("(s_off "+v.T+")", lo) + " " + c.idxSub(hi, lo) + " " + c.idxSub("(s_cap "+v.T+")", lo) + ")", Ty: v.Ty}
	case *types.Basic:
		if u.Info()&types.IsString != 0 {
			return Val{T: c.ssub(v.T, lo, hi), Ty: v.Ty}
		}
	}
	e.fail("cannot slice %s", v.Ty)
	return Val{}
}

func (e *Env) findSpec(name string) *SpecDef {
	defs := e.c.g.cs.Specs[name]
	if len(defs) == 0 {
		return nil
	}
	if e.pkg != nil {
		for _, d := range defs {
			if d.Pkg == e.pkg.Path() {
				return d
			}
		}
	}
	return defs[0]
}

func (e *Env) specPkg(sd *SpecDef) *types.Package {
	if sd.Pkg == "" {
		return e.pkg
	}
	if p, ok := e.c.g.typesPkgs[sd.Pkg]; ok {
		return p
	}
	return e.pkg
}

func (e *Env) applySpec(sd *SpecDef, args []Val) Val {
	c := e.c
	if e.depth > 40 {
		e.fail("spec expansion too deep (recursive spec %s must be declared recspec)", sd.Name)
	}
	spkg := e.specPkg(sd)
	if len(args) != len(sd.Params) {
		e.fail("spec %s expects %d arguments", sd.Name, len(sd.Params))
	}
	var ptys []types.Type
	for i, p := range sd.Params {
		t, err := resolveType(spkg, p.Type)
		if err != nil {
			e.fail("spec %s: %v", sd.Name, err)
		}
		ptys = append(ptys, t)
		args[i] = e.materialize(args[i], t)
		if args[i].Ty != nil && c.sortOf(args[i].Ty) != c.sortOf(t) {
			e.fail("spec %s argument %d: have %s want %s", sd.Name, i, args[i].Ty, t)
		}
		args[i].Ty = t
	}
	rt, err := resolveType(spkg, sd.RetType)
	if err != nil {
		e.fail("spec %s: %v", sd.Name, err)
	}
	if sd.Rec && c.evalMode {
		// concrete evaluation (counterexample replay): the recursive definition itself, unfolded by E-matching on
		// ground terms as far as the concrete arguments need
		f := sym("spec " + sd.Name)
		var ss, as []string
		for i := range sd.Params {
			ss = append(ss, c.sortOf(ptys[i]))
			as = append(as, args[i].T)
		}
		c.decl("(declare-fun " + f + " (" + strings.Join(ss, " ") + ") " + c.sortOf(rt) + ")")
		if !c.declSet["recdef:"+f] {
			c.declSet["recdef:"+f] = true
			ne := &Env{c: c, names: map[string]Val{}, heap: e.heap, old: e.old, pkg: spkg, depth: e.depth + 1, what: "recspec " + sd.Name}
			var bs, vs []string
			for i, p := range sd.Params {
				bn := sym(fmt.Sprintf("rs_%s", p.Name))
				bs = append(bs, "("+bn+" "+c.sortOf(ptys[i])+")")
				vs = append(vs, bn)
				ne.names[p.Name] = Val{T: bn, Ty: ptys[i]}
			}
			body := ne.materialize(ne.tr(sd.Body), rt)
			appl := app(f, vs...)
			c.decl("(assert (forall (" + strings.Join(bs, " ") + ") (! (= " + appl + " " + body.T + ") :pattern (" + appl + "))))")
		}
		return Val{T: app(f, as...), Ty: rt}
	}
	if sd.Uninterp || sd.Rec {
		// Recursive specs are unfolded at most twice ("fuel"): f (the user's symbol) is defined through f!1, f!1
		// through f!0, and f!0 has no definition; all three denote the same function (synonym axioms). This keeps
		// E-matching from unfolding a recursive definition without bound.
		level := 2
		if sd.Rec {
			if l, ok := e.recFuel[sd.Name]; ok {
				level = l
			}
		}
		symAt := func(l int) string {
			if l >= 2 || !sd.Rec {
				return sym("spec " + sd.Name)
			}
			return sym(fmt.Sprintf("spec %s!%d", sd.Name, l))
		}
		f := symAt(level)
		var ss, as []string
		for i := range sd.Params {
			ss = append(ss, c.sortOf(ptys[i]))
			as = append(as, args[i].T)
		}
		for l := 0; l <= 2; l++ {
			if sd.Rec || l == 2 {
				c.decl("(declare-fun " + symAt(l) + " (" + strings.Join(ss, " ") + ") " + c.sortOf(rt) + ")")
				// results of bounded integer type stay in that type's range
				if ii, ok := intInfoOf(rt); ok && c.mode == ModeInt && !(ii.bits == 64 && ii.signed) && len(ss) > 0 {
					var bs, vs []string
					for i := range ss {
						bs = append(bs, fmt.Sprintf("(ua%d %s)", i, ss[i]))
						vs = append(vs, fmt.Sprintf("ua%d", i))
					}
					ap := app(symAt(l), vs...)
					c.decl("(assert (forall (" + strings.Join(bs, " ") + ") (! " + c.rangeFact(ap, rt) + " :pattern (" + ap + "))))")
				}
			}
		}
		if sd.Rec && level > 0 && !c.declSet["recdef:"+f] {
			c.declSet["recdef:"+f] = true
			fuel := map[string]int{}
			for k, v := range e.recFuel {
				fuel[k] = v
			}
			fuel[sd.Name] = level - 1
			ne := &Env{c: c, names: map[string]Val{}, heap: e.heap, old: e.old, pkg: spkg, depth: e.depth + 1, what: "recspec " + sd.Name, recFuel: fuel}
			var bs, vs []string
			for i, p := range sd.Params {
				bn := sym(fmt.Sprintf("rs%d_%s", level, p.Name))
				bs = append(bs, "("+bn+" "+c.sortOf(ptys[i])+")")
				vs = append(vs, bn)
				ne.names[p.Name] = Val{T: bn, Ty: ptys[i]}
			}
			body := ne.materialize(ne.tr(sd.Body), rt)
			appl := app(f, vs...)
			c.decl("(assert (forall (" + strings.Join(bs, " ") + ") (! (= " + appl + " " + body.T + ") :pattern (" + appl + "))))")
			// synonym with the next lower level
			c.decl("(assert (forall (" + strings.Join(bs, " ") + ") (! (= " + appl + " " + app(symAt(level-1), vs...) + ") :pattern (" + appl + "))))")
		}
		return Val{T: app(f, as...), Ty: rt}
	}
	ne := &Env{c: c, names: map[string]Val{}, heap: e.heap, old: e.old, pkg: spkg, depth: e.depth + 1, what: "spec " + sd.Name, skolem: e.skolem, recFuel: e.recFuel}
	e.skolem = false
	for i, p := range sd.Params {
		ne.names[p.Name] = args[i]
	}
	r := ne.materialize(ne.tr(sd.Body), rt)
	r.Ty = rt
	return r
}

func (e *Env) call(x *ECall) Val {
	c := e.c
	if ty, ok := x.Fun.(*EType); ok {
		_ = ty
		e.fail("composite conversions are not supported: %s", x)
	}
	// method-style spec call  a.f(b)  where f is a spec: sugar for f(a, b)
	if s, ok := x.Fun.(*ESel); ok {
		if sd := e.findSpec(s.Name); sd != nil {
			if id, isId := s.X.(*EIdent); !isId || findImport(e.pkg, id.Name) == nil || e.names[id.Name].Ty != nil {
				args := []Val{e.tr(s.X)}
				for _, a := range x.Args {
					args = append(args, e.tr(a))
				}
				return e.applySpec(sd, args)
			}
		}
		// pkg.Type(x) conversion or pkg.spec
		if id, isId := s.X.(*EIdent); isId {
			if p := findImport(e.pkg, id.Name); p != nil {
				if tn, ok := p.Scope().Lookup(s.Name).(*types.TypeName); ok && len(x.Args) == 1 {
					return e.convert(e.tr(x.Args[0]), tn.Type())
				}
			}
		}
		e.fail("unknown function %s", x.Fun)
	}
	id, ok := x.Fun.(*EIdent)
	if !ok {
		e.fail("unsupported call %s", x)
	}
	switch id.Name {
	case "old":
		if e.old == nil {
			e.fail("old() not available here")
		}
		ne := *e
		ne.heap = e.old
		return ne.tr(x.Args[0])
	case "len", "cap":
		v := e.trRaw(x.Args[0])
		if e.isLoc(v) {
			lt := v.Ty.Underlying().(*types.Pointer).Elem()
			if at, ok := lt.Underlying().(*types.Array); ok {
				return Val{T: c.mode.idxLit(at.Len()), Ty: intTy}
			}
			v = e.force(v)
		}
		return c.lenCap(id.Name, v, v.Ty, e.heap)
	case "ite":
		cnd := e.boolT(x.Args[0])
		a, b := e.unify(e.tr(x.Args[1]), e.tr(x.Args[2]))
		r := ite(cnd, a.T, b.T)
		if strings.HasPrefix(r, "(ite ") {
			c.termSorts[r] = c.sortOf(a.Ty)
		}
		return Val{T: r, Ty: a.Ty}
	case "min", "max":
		a, b := e.unify(e.tr(x.Args[0]), e.tr(x.Args[1]))
		op := token.LSS
		if id.Name == "max" {
			op = token.GTR
		}
		return Val{T: ite(c.cmpOp(op, a.T, b.T, a.Ty), a.T, b.T), Ty: a.Ty}
	case "has":
		// has(m, k): map membership
		m := e.tr(x.Args[0])
		mt, ok := m.Ty.Underlying().(*types.Map)
		if !ok {
			e.fail("has() needs a map")
		}
		k := e.materialize(e.tr(x.Args[1]), mt.Key())
		return Val{T: and(not(eq(m.T, "0")), sel(sel(c.heapTerm(e.heap, c.mapHasHeap(m.Ty)), m.T), c.mapKey(k, mt.Key()))), Ty: boolTy}
	case "dyntype":
		// dyntype(x, T): dynamic type test on an interface value
		v := e.tr(x.Args[0])
		c.declIface()
		t := e.typeOf(typeArgText(x.Args[1]))
		return Val{T: eq("(dyn_tag "+v.T+")", c.typeTag(t)), Ty: boolTy}
	case "as":
		// as(x, *T): payload pointer of interface value x viewed as *T
		v := e.tr(x.Args[0])
		c.declIface()
		t := e.typeOf(typeArgText(x.Args[1]))
		switch t.Underlying().(type) {
		case *types.Pointer, *types.Map, *types.Chan, *types.Signature:
			return Val{T: "(dyn_ptr " + v.T + ")", Ty: t}
		case *types.Interface:
			return Val{T: v.T, Ty: t}
		}
		// a boxed non-pointer value: the same per-type injection makeIface / typeAssert use
		u := sym("unbox " + typeName(t))
		f := sym("box " + typeName(t))
		c.decl("(declare-fun " + f + " (" + c.sortOf(t) + ") Int)")
		c.decl("(declare-fun " + u + " (Int) " + c.sortOf(t) + ")")
		c.decl("(assert (forall ((v " + c.sortOf(t) + ")) (! (= (" + u + " (" + f + " v)) v) :pattern ((" + f + " v)))))")
		return Val{T: "(" + u + " (dyn_ptr " + v.T + "))", Ty: t}
	case "athead":
		// athead(E) inside a loop invariant: the value E had at the loop head at the START of the iteration whose
		// back edge is being checked (E itself where the invariant is established or assumed). Makes transition
		// invariants expressible: `!athead(ok) ==> !ok` says that ok, once false, stays false.
		if e.headEnv != nil {
			return e.headEnv.tr(x.Args[0])
		}
		return e.tr(x.Args[0])
	case "exhausted":
		// exhausted(N): loop N (source order) was left through its own head - its condition became false / its range
		// ran out - and not through a break, goto or return out of its body, the last time control left it
		n, ok := x.Args[0].(*ENum)
		if !ok {
			e.fail("exhausted() needs a loop ordinal")
		}
		if gv, ok := c.ghost["loopdone "+n.Text]; ok {
			return gv
		}
		return Val{T: "false", Ty: boolTy}
	case "calls":
		st, ok := x.Args[0].(*EStr)
		if !ok {
			e.fail("calls() needs a string literal")
		}
		k := "calls " + normAnchor(st.Val)
		if gv, ok := c.ghost[k]; ok {
			return gv
		}
		return Val{T: c.mode.idxLit(0), Ty: intTy}
	case "deferred":
		// deferred("callee"): the number of defer statements naming that callee executed so far on this path
		st, ok := x.Args[0].(*EStr)
		if !ok {
			e.fail("deferred() needs a string literal")
		}
		if gv, ok := c.ghost["deferred "+normAnchor(st.Val)]; ok {
			return gv
		}
		return Val{T: c.mode.idxLit(0), Ty: intTy}
	case "lastret":
		st, ok := x.Args[0].(*EStr)
		if !ok {
			e.fail("lastret() needs a string literal")
		}
		key := lastretKey(st.Val)
		if len(x.Args) == 2 {
			// lastret("callee", i): the i-th result
			iv := e.tr(x.Args[1])
			if iv.Num == nil {
				e.fail("lastret(callee, i) needs a constant result index")
			}
			if iv.Num.Sign() > 0 {
				key = fmt.Sprintf("%s#%d", key, iv.Num.Int64())
			}
		}
		if gv, ok := c.ghost[key]; ok {
			return gv
		}
		if ty, seen := c.lastretTy[key]; seen {
			// the callee is called somewhere in this function but not on the way to this point: an arbitrary value
			return Val{T: c.fresh("ghost_unset", c.sortOf(ty)), Ty: ty}
		}
		if c.discover {
			e.fail("lastret-unset")
		}
		e.fail("lastret(%q): the function never calls that callee", st.Val)
	case "emod":
		// emod(x, k): mathematical (always non-negative) remainder; cheaper for the solver than Go's signed %
		a := e.mat(e.tr(x.Args[0]))
		k := e.tr(x.Args[1])
		if k.Num == nil || k.Num.Sign() <= 0 || c.mode != ModeInt {
			e.fail("emod(x, k) needs int mode and a positive constant k")
		}
		return Val{T: "(mod " + a.T + " " + smtInt(k.Num) + ")", Ty: a.Ty}
	case "sameslice":
		a, b := e.tr(x.Args[0]), e.tr(x.Args[1])
		return Val{T: eq(a.T, b.T), Ty: boolTy}
	case "region":
		a := e.tr(x.Args[0])
		return Val{T: "(s_reg " + a.T + ")", Ty: types.NewPointer(intTy)}
	case "offset":
		a := e.tr(x.Args[0])
		return Val{T: "(s_off " + a.T + ")", Ty: intTy}
	case "at":
		// at(s, p): element at ABSOLUTE position p of s's backing region (s[i] == at(s, offset(s)+i)).
		// Useful as a quantifier trigger that matches element reads made through any sub-slice of the region.
		a := e.tr(x.Args[0])
		if b, isB := a.Ty.Underlying().(*types.Basic); isB && b.Info()&types.IsString != 0 {
			c.declStrings()
			pv := e.materialize(e.tr(x.Args[1]), intTy)
			return Val{T: sel(sel("SB", "(s_reg "+a.T+")"), c.toIdx(pv.T, pv.Ty)), Ty: types.Typ[types.Uint8]}
		}
		st, ok := a.Ty.Underlying().(*types.Slice)
		if !ok || isStruct(st.Elem()) {
			e.fail("at() needs a string or a slice of non-struct elements")
		}
		pv := e.materialize(e.tr(x.Args[1]), intTy)
		return Val{T: sel(c.regionArr(e.heap, c.elemsHeap(st.Elem()), "(s_reg "+a.T+")"), c.toIdx(pv.T, pv.Ty)), Ty: st.Elem()}
	case "bit":
		// bit(x, k): boolean test of bit k (bv mode)
		a := e.mat(e.tr(x.Args[0]))
		k := e.tr(x.Args[1])
		if k.Num == nil || c.mode != ModeBV {
			e.fail("bit(x,k) needs bv mode and constant k")
		}
		return Val{T: fmt.Sprintf("(= ((_ extract %d %d) %s) #b1)", k.Num.Int64(), k.Num.Int64(), a.T), Ty: boolTy}
	}
	// conversion to basic or package type
	if obj := types.Universe.Lookup(id.Name); obj != nil {
		if tn, ok := obj.(*types.TypeName); ok && len(x.Args) == 1 {
			return e.convert(e.tr(x.Args[0]), tn.Type())
		}
	}
	if e.pkg != nil {
		if tn, ok := e.pkg.Scope().Lookup(id.Name).(*types.TypeName); ok && len(x.Args) == 1 {
			return e.convert(e.tr(x.Args[0]), tn.Type())
		}
	}
	if sd := e.findSpec(id.Name); sd != nil {
		var args []Val
		for _, a := range x.Args {
			args = append(args, e.tr(a))
		}
		return e.applySpec(sd, args)
	}
	e.fail("unknown function %s", id.Name)
	return Val{}
}

func typeArgText(x Expr) string {
	switch t := x.(type) {
	case *EUnary:
		if t.Op == "*" {
			return "*" + typeArgText(t.X)
		}
	case *EIdent:
		return t.Name
	case *ESel:
		return typeArgText(t.X) + "." + t.Name
	case *EType:
		return t.Text
	}
	return x.String()
}

func (e *Env) convert(v Val, t types.Type) Val {
	c := e.c
	if v.Num != nil {
		if ii, ok := intInfoOf(t); ok {
			m := new(big.Int).Set(v.Num)
			if c.mode == ModeInt && (m.Cmp(ii.min()) < 0 || m.Cmp(ii.max()) > 0) {
				e.fail("constant %s overflows %s", v.Num, t)
			}
			return Val{T: c.mode.lit(m, ii), Ty: t}
		}
		e.fail("cannot convert literal to %s", t)
	}
	if _, ok := intInfoOf(t); ok {
		if _, ok := intInfoOf(v.Ty); ok {
			return Val{T: c.convInt(v.T, v.Ty, t, false), Ty: t}
		}
	}
	if fb, ok := v.Ty.Underlying().(*types.Basic); ok {
		if tb, ok := t.Underlying().(*types.Basic); ok && (fb.Info()&types.IsFloat != 0 || tb.Info()&types.IsFloat != 0) {
			return Val{T: c.floatConv(v.T, v.Ty, t), Ty: t}
		}
	}
	if c.sortOf(v.Ty) == c.sortOf(t) {
		v.Ty = t
		return v
	}
	e.fail("unsupported conversion %s -> %s", v.Ty, t)
	return Val{}
}

func (e *Env) quant(x *EQuant) Val {
	c := e.c
	ne := e.child()
	var bs []string
	for _, v := range x.Vars {
		t := e.typeOf(v.Type)
		c.nfresh++
		bn := sym(fmt.Sprintf("q_%s!%d", v.Name, c.nfresh))
		bs = append(bs, "("+bn+" "+c.sortOf(t)+")")
		ne.names[v.Name] = Val{T: bn, Ty: t}
	}
	body := ne.boolT(x.Body)
	// integer-typed bound variables range over their Go type
	var ranges []string
	if c.mode == ModeInt {
		for _, v := range x.Vars {
			t := e.typeOf(v.Type)
			if ii, ok := intInfoOf(t); ok && !(ii.bits == 64 && ii.signed) {
				ranges = append(ranges, c.rangeFact(ne.names[v.Name].T, t))
			}
		}
	}
	if len(ranges) > 0 {
		if x.Forall {
			body = implies(and(ranges...), body)
		} else {
			body = and(append(ranges, body)...)
		}
	}
	pat := ""
	var bound []string
	for _, v := range x.Vars {
		bound = append(bound, ne.names[v.Name].T)
	}
	for _, tr := range x.Trigs {
		var ts []string
		for _, t := range tr {
			tt := ne.mat(ne.tr(t)).T
			// ite is not allowed in patterns: name closed ite subterms by fresh constants
			for {
				sub := findClosedIte(tt, bound)
				if sub == "" {
					break
				}
				k := c.fresh("itek", c.iteSort(sub, ne))
				c.define(eq(k, sub))
				tt = strings.ReplaceAll(tt, sub, k)
				body = strings.ReplaceAll(body, sub, k)
			}
			ts = append(ts, tt)
		}
		pat += " :pattern (" + strings.Join(ts, " ") + ")"
	}
	q := "exists"
	if x.Forall {
		q = "forall"
	}
	c.nfresh++
	qid := fmt.Sprintf(" :qid |%s %s#%d|", sanitize(e.what), x.Vars[0].Name, c.nfresh)
	body = "(! " + body + pat + qid + ")"
	return Val{T: "(" + q + " (" + strings.Join(bs, " ") + ") " + body + ")", Ty: boolTy}
}

// skolemize translates a universally quantified goal with fresh constants for the bound
// variables; the user's trigger terms become ground seed terms of the query.
func (e *Env) skolemize(x *EQuant) Val {
	c := e.c
	ne := e.child()
	for _, v := range x.Vars {
		t := e.typeOf(v.Type)
		n := c.fresh("sk_"+v.Name, c.sortOf(t))
		ne.names[v.Name] = Val{T: n, Ty: t}
		if ii, ok := intInfoOf(t); ok && c.mode == ModeInt && !(ii.bits == 64 && ii.signed) {
			c.skolemFacts = append(c.skolemFacts, c.rangeFact(n, t))
		}
	}
	for _, tr := range x.Trigs {
		for _, t := range tr {
			v := ne.mat(ne.tr(t))
			c.addSeed(v)
		}
	}
	ne.skolem = true
	body := ne.boolT(x.Body)
	return Val{T: body, Ty: boolTy}
}

// findClosedIte returns an (ite ...) subterm of t that mentions no bound variable.
func findClosedIte(t string, bound []string) string {
	from := 0
	for {
		i := strings.Index(t[from:], "(ite ")
		if i < 0 {
			return ""
		}
		i += from
		d := 0
		inq := false
		j := i
		for ; j < len(t); j++ {
			ch := t[j]
			if ch == '|' {
				inq = !inq
			}
			if inq {
				continue
			}
			if ch == '(' {
				d++
			} else if ch == ')' {
				d--
				if d == 0 {
					break
				}
			}
		}
		sub := t[i : j+1]
		closed := true
		for _, b := range bound {
			if strings.Contains(sub, b) {
				closed = false
			}
		}
		if closed {
			return sub
		}
		from = i + 5
	}
}

func (c *FnCtx) iteSort(sub string, e *Env) string {
	if srt, ok := c.termSorts[sub]; ok {
		return srt
	}
	c.unsup("trigger contains an ite term of unknown sort: %s", sub)
	return ""
}

func splitSexprs(s string) []string {
	var out []string
	d := 0
	inq := false
	start := -1
	for i := 0; i < len(s); i++ {
		ch := s[i]
		if ch == '|' {
			inq = !inq
		}
		if inq {
			if start < 0 {
				start = i
			}
			continue
		}
		switch ch {
		case '(':
			if d == 0 && start < 0 {
				start = i
			}
			d++
		case ')':
			d--
			if d == 0 {
				out = append(out, s[start:i+1])
				start = -1
			}
		case ' ', '\n':
			if d == 0 && start >= 0 {
				out = append(out, s[start:i])
				start = -1
			}
		default:
			if start < 0 {
				start = i
			}
		}
	}
	if start >= 0 {
		out = append(out, s[start:])
	}
	return out
}
