package main

import (
	"regexp"
	"go/token"
	"slices"
	"strconv"
	"fmt"
	"go/types"
	"os"
	"path/filepath"
	"sort"
	"strings"
	"sync"

	"golang.org/x/tools/go/packages"
	"golang.org/x/tools/go/ssa"
	"golang.org/x/tools/go/ssa/ssautil"
)

var specSymRe = regexp.MustCompile(`\|spec [^|]+\|`)

type globalAxiom struct{ name, text string }

type Gen struct {
	// noAssume: obligations recorded as known findings (known_findings.json, status "finding"). They are checked like
	// any other, but NOT assumed afterwards: a recorded violation must not become a false premise that makes
	// everything downstream of it on the path vacuously true (and hides a different violation).
	noAssume  map[string]bool
	sentinels map[*ssa.Global]int
	prog      *ssa.Program
	pkgs      []*packages.Package
	ssaPkgs   map[string]*ssa.Package
	typesPkgs map[string]*types.Package
	funcs     map[string]*ssa.Function
	cs        *ContractSet
	pure      map[*ssa.Function]int // 0 unknown, 1 pure, 2 impure, 3 in progress
	pureMu    sync.Mutex
	tagMu     sync.Mutex
	tagIDs    map[string]int
	noInline  map[*ssa.Function]bool
	repo      string
	overlay   map[string][]byte
}

type FuncInfo struct {
	Name       string   `json:"name"`
	Arith      string   `json:"arith"`
	Tier       string   `json:"tier"`
	File       string   `json:"file"`
	Blocks     int      `json:"ssa_blocks"`
	Loops      int      `json:"loops"`
	Notes      []string `json:"notes,omitempty"`
	Used       []string `json:"assumptions_used,omitempty"`
	Callees    []string `json:"callee_contracts_used,omitempty"`
	PureCalls  []string `json:"inferred_pure_callees,omitempty"`
	Inlined    []string `json:"inlined_callee_bodies,omitempty"`
	HavocCalls []string `json:"havoced_calls,omitempty"`
	Bounded    string   `json:"bounded,omitempty"`
	Error      string   `json:"error,omitempty"`
}

func loadProgram(repo string, patterns []string, overlay map[string][]byte) (*Gen, error) {
	cfg := &packages.Config{
		Mode:       packages.LoadAllSyntax,
		Dir:        repo,
		BuildFlags: []string{"-tags=verif"},
		Overlay:    overlay,
		Env:        append(os.Environ(), "PATH=/opt/veriftools/go1.26.8/bin:"+os.Getenv("PATH"), "GOFLAGS=-mod=mod", "GOPROXY=off", "GOSUMDB=off", "GOTOOLCHAIN=local"),
	}
	pkgs, err := packages.Load(cfg, patterns...)
	if err != nil {
		return nil, err
	}
	var errs []string
	packages.Visit(pkgs, nil, func(p *packages.Package) {
		for _, e := range p.Errors {
			errs = append(errs, e.Error())
		}
	})
	if len(errs) > 0 {
		return nil, fmt.Errorf("package load errors: %s", strings.Join(errs, "; "))
	}
	prog, _ := ssautil.AllPackages(pkgs, ssa.GlobalDebug|ssa.InstantiateGenerics)
	prog.Build()
	g := &Gen{prog: prog, pkgs: pkgs, ssaPkgs: map[string]*ssa.Package{}, typesPkgs: map[string]*types.Package{},
		funcs: map[string]*ssa.Function{}, cs: newContractSet(), pure: map[*ssa.Function]int{}, tagIDs: map[string]int{}, repo: repo, noInline: map[*ssa.Function]bool{}, overlay: overlay}
	for _, sp := range prog.AllPackages() {
		g.ssaPkgs[sp.Pkg.Path()] = sp
		g.typesPkgs[sp.Pkg.Path()] = sp.Pkg
	}
	for fn := range ssautil.AllFunctions(prog) {
		g.funcs[fn.String()] = fn
	}
	// contracts: zz_verif_contracts.go in every loaded repo package
	seen := map[string]bool{}
	packages.Visit(pkgs, nil, func(p *packages.Package) {
		if !strings.HasPrefix(p.PkgPath, "github.com/semihalev/sdns") {
			return
		}
		for _, f := range p.GoFiles {
			if filepath.Base(f) == "zz_verif_contracts.go" && !seen[f] {
				seen[f] = true
				if ov, ok := overlay[f]; ok {
					tmp, _ := os.CreateTemp("", "ctr*.go")
					tmp.Write(ov)
					tmp.Close()
					if e := g.cs.parseFile(tmp.Name(), p.PkgPath); e != nil {
						err = e
					}
					os.Remove(tmp.Name())
					continue
				}
				if e := g.cs.parseFile(f, p.PkgPath); e != nil {
					err = e
				}
			}
		}
	})
	if err != nil {
		return nil, err
	}
	return g, nil
}

func (g *Gen) loadAssumed(dir string) error {
	files, _ := filepath.Glob(filepath.Join(dir, "*.vc"))
	sort.Strings(files)
	g.cs.assumedMode = true
	defer func() { g.cs.assumedMode = false }()
	for _, f := range files {
		if err := g.cs.parseFile(f, ""); err != nil {
			return err
		}
	}
	return nil
}

func (g *Gen) contractFor(name string, fn *ssa.Function) *FuncContract {
	if fc, ok := g.cs.Funcs[name]; ok {
		return fc
	}
	return nil
}

// isPure: the function has no side effect on caller-visible state (syntactic, recomputed every run).
func (g *Gen) isPure(fn *ssa.Function) bool {
	g.pureMu.Lock()
	defer g.pureMu.Unlock()
	return g.pureRec(fn, 0)
}

func (g *Gen) pureRec(fn *ssa.Function, depth int) bool {
	switch g.pure[fn] {
	case 1:
		return true
	case 2, 3:
		return false
	}
	if fn.Blocks == nil || depth > 12 {
		g.pure[fn] = 2
		return false
	}
	g.pure[fn] = 3
	ok := true
	localRoot := func(v ssa.Value) bool {
		for {
			switch x := v.(type) {
			case *ssa.Alloc:
				return true
			case *ssa.FieldAddr:
				v = x.X
			case *ssa.IndexAddr:
				if _, isPtr := x.X.Type().Underlying().(*types.Pointer); !isPtr {
					return false
				}
				v = x.X
			default:
				return false
			}
		}
	}
	for _, b := range fn.Blocks {
		for _, in := range b.Instrs {
			switch x := in.(type) {
			case *ssa.Store:
				if !localRoot(x.Addr) {
					ok = false
				}
			case *ssa.MapUpdate, *ssa.Send, *ssa.Go, *ssa.Defer, *ssa.Select, *ssa.MakeClosure:
				ok = false
			case *ssa.Call:
				if bi, isB := x.Call.Value.(*ssa.Builtin); isB {
					switch bi.Name() {
					case "len", "cap", "min", "max":
					default:
						ok = false
					}
					continue
				}
				callee := x.Call.StaticCallee()
				if callee == nil {
					if x.Call.IsInvoke() {
						nm := "(" + shortTypeFull(x.Call.Value.Type()) + ")." + x.Call.Method.Name()
						if fc := g.cs.Funcs[nm]; fc != nil && fc.HasMod && fc.ModNone {
							continue
						}
					}
					ok = false
					continue
				}
				if _, noop := isNoopCallee(callee.String()); noop {
					continue
				}
				if op, isAtomic := atomicKind(callee.String()); isAtomic && op == "Load" {
					continue
				}
				if fc := g.cs.Funcs[callee.String()]; fc != nil && fc.HasMod && fc.ModNone {
					continue
				}
				if !g.pureRec(callee, depth+1) {
					ok = false
				}
			case *ssa.UnOp:
				if x.Op.String() == "<-" {
					ok = false
				}
			}
			if !ok {
				break
			}
		}
		if !ok {
			break
		}
	}
	if ok {
		g.pure[fn] = 1
	} else {
		g.pure[fn] = 2
	}
	return ok
}

func (g *Gen) newCtx(fn *ssa.Function, fc *FuncContract, mode Mode) *FnCtx {
	c := &FnCtx{g: g, fn: fn, fc: fc, mode: mode}
	c.declSet = map[string]bool{}
	c.heap = Heap{}
	c.entry = Heap{}
	c.strLits = map[string]string{}
	c.writes = map[*ssa.BasicBlock]map[string]bool{}
	c.cellWrites = map[*ssa.BasicBlock]map[ssa.Value]bool{}
	c.used = map[string]bool{}
	c.usedContracts = map[string]bool{}
	c.usedPure = map[string]bool{}
	c.usedInlined = map[string]bool{}
	c.havocCalls = map[string]int{}
	c.watch = map[string]bool{}
	c.termSorts = map[string]string{}
	c.heapTy = map[string]types.Type{}
	c.resetPass()
	if fn != nil && fn.Pkg != nil {
		c.pkg = fn.Pkg.Pkg
	} else if fn != nil && fn.Parent() != nil && fn.Parent().Pkg != nil {
		c.pkg = fn.Parent().Pkg.Pkg
	}
	return c
}

func (c *FnCtx) resetPass() {
	c.vals = map[ssa.Value]Val{}
	c.tuples = map[ssa.Value][]Val{}
	c.items = nil
	c.obs = nil
	c.ord = map[string]int{}
	c.allocs = nil
	c.localCells = nil
	c.globalAxioms = nil
	c.interiorCell = nil
	c.condCells = nil
	c.allocOf = map[string]ssa.Value{}
	c.refVals = nil
	c.retCount = 0
	c.calleeOrd = map[string]int{}
	c.storeOrd = map[string]int{}
	c.ghost = map[string]Val{}
	c.anchorsHit = map[string]bool{}
	c.deferred = nil
	c.closures = map[ssa.Value]*ssa.MakeClosure{}
	c.loopDec = map[*ssa.BasicBlock]Val{}
	c.notes = nil
	c.reach = "true"
	c.known = map[string]map[string]string{}
	c.known2 = map[string]map[string]string{}
}

func modeOf(fc *FuncContract) Mode {
	if fc != nil && fc.Arith == "bv" {
		return ModeBV
	}
	return ModeInt
}

// verifyFunc generates the obligations for one function under contract.
func (g *Gen) verifyFunc(fn *ssa.Function, fc *FuncContract) (obs []*Obligation, info FuncInfo) {
	info = FuncInfo{Name: shortName(fn.String()), Arith: modeOf(fc).String(), Tier: "A", Blocks: len(fn.Blocks), Bounded: fc.Bounded}
	if fc.Abstract {
		info.Tier = "B-abstract"
	}
	if p := fn.Prog.Fset.Position(fn.Pos()); p.IsValid() {
		info.File = fmt.Sprintf("%s:%d", strings.TrimPrefix(p.Filename, g.repo+"/"), p.Line)
	}
	c := g.newCtx(fn, fc, modeOf(fc))
	c.abstract = fc.Abstract
	defer func() {
		if r := recover(); r != nil {
			if u, ok := r.(unsupported); ok {
				info.Error = u.msg
				ob := &Obligation{Name: shortName(fn.String()) + "#generate", Fn: fn.String(), Kind: "generate", Result: "error", Output: "VC generation refused: " + u.msg}
				obs = []*Obligation{ob}
				return
			}
			panic(r)
		}
	}()
	for _, n := range fn.Blocks {
		if n == fn.Recover {
			continue
		}
		for _, in := range n.Instrs {
			if _, ok := in.(*ssa.Return); ok {
				c.retCountTotal++
			}
		}
	}
	c.assignOrdinals()
	// watched effect counters
	for _, cl := range allClauses(fc) {
		collectWatches(cl.E, c.watch)
	}
	for pass := 0; pass < 2; pass++ {
		c.discover = pass == 0
		c.resetPass()
		if !c.discover {
			// start from every heap array discovered in pass 1
			for name := range c.heap {
				c.heap[name] = name
			}
			c.entry = c.heap.clone()
		}
		c.setupEntry()
		c.run()
	}
	if fc.ReadsGlobalsSet {
		// frame condition on reads: the function's outcome depends on its arguments and what they reach, not on
		// package-level tables. Decided syntactically over the SSA body: every operand that is a package-level variable
		// must be in the allowed list. One obligation, discharged or failed here (no solver involved).
		allowed := map[string]bool{}
		for _, a := range fc.ReadsGlobals {
			allowed[a] = true
		}
		var bad []string
		seen := map[string]bool{}
		for _, b := range fn.Blocks {
			for _, in := range b.Instrs {
				for _, op := range in.Operands(nil) {
					if op == nil || *op == nil {
						continue
					}
					if gl, ok := (*op).(*ssa.Global); ok {
						n := gl.Name()
						if gl.Pkg != nil && gl.Pkg.Pkg != fn.Pkg.Pkg {
							n = gl.Pkg.Pkg.Path() + "." + n
						}
						if !allowed[n] && !allowed[gl.Name()] && !seen[n] {
							seen[n] = true
							bad = append(bad, n)
						}
					}
				}
			}
		}
		ob := &Obligation{Name: shortName(fn.String()) + "#frame.readsglobals", Fn: fn.String(), Kind: "frame.readsglobals", Result: "unsat",
			Desc: "the function mentions no package-level variable outside the allowed list", Solver: "syntactic"}
		if len(bad) > 0 {
			sort.Strings(bad)
			ob.Result = "error"
			ob.Output = "package-level variables read or written outside the allowed list: " + strings.Join(bad, ", ")
		}
		c.obs = append(c.obs, ob)
	}
	for k, cl := range fc.Ensures {
		if !cl.Defines {
			continue
		}
		ob := &Obligation{Name: fmt.Sprintf("%s#frame.defines:%d", shortName(fn.String()), k+1), Fn: fn.String(), Kind: "frame.defines", Result: "unsat",
			Desc: "defines " + cl.Text + ": the body is a deterministic, effect-free scalar function of exactly the inputs the clause lists", Solver: "syntactic"}
		if bad := definesViolations(fn, cl.Text); len(bad) > 0 {
			ob.Result = "error"
			ob.Output = "the body is not a function of the listed inputs alone: " + strings.Join(bad, "; ")
		}
		c.obs = append(c.obs, ob)
	}
	for _, a := range fc.Asserts {
		if !c.anchorsHit[a.Anchor] {
			ob := &Obligation{Name: shortName(fn.String()) + "#bind:" + normAnchor(a.Anchor), Fn: fn.String(), Kind: "bind", Result: "error",
				Output: "contract anchor not found in the current code: " + a.Anchor}
			c.obs = append(c.obs, ob)
		}
	}
	for _, a := range fc.Assumes {
		if !c.anchorsHit["assume:"+a.Anchor] {
			c.obs = append(c.obs, &Obligation{Name: shortName(fn.String()) + "#bind:" + normAnchor(a.Anchor), Fn: fn.String(), Kind: "bind", Result: "error",
				Output: "contract anchor not found in the current code: " + a.Anchor})
		}
	}
	for ord := range fc.Loops {
		found := false
		for _, li := range c.loops {
			if li.ord == ord {
				found = true
			}
		}
		if !found {
			c.obs = append(c.obs, &Obligation{Name: shortName(fn.String()) + fmt.Sprintf("#bind:loop%d", ord), Fn: fn.String(), Kind: "bind", Result: "error",
				Output: fmt.Sprintf("contract names loop %d but the function has %d loops", ord, len(c.loops))})
		}
	}
	seenNames := map[string]int{}
	for _, ob := range c.obs {
		seenNames[ob.Name]++
		if n := seenNames[ob.Name]; n > 1 {
			ob.Name = fmt.Sprintf("%s~%d", ob.Name, n)
		}
	}
	c.assemble()
	info.Loops = len(c.loops)
	info.Notes = c.notes
	info.Used = sortedKeys(c.used)
	info.Callees = sortedKeys(c.usedContracts)
	info.PureCalls = sortedKeys(c.usedPure)
	info.Inlined = sortedKeys(c.usedInlined)
	for k, n := range c.havocCalls {
		info.HavocCalls = append(info.HavocCalls, fmt.Sprintf("%s x%d", k, n))
	}
	sort.Strings(info.HavocCalls)
	return c.obs, info
}

func sortedKeys(m map[string]bool) []string {
	var out []string
	for k := range m {
		out = append(out, k)
	}
	sort.Strings(out)
	return out
}

func allClauses(fc *FuncContract) []Clause {
	var out []Clause
	out = append(out, fc.Requires...)
	out = append(out, fc.Ensures...)
	for _, a := range fc.Asserts {
		out = append(out, a.Clause)
	}
	for _, l := range fc.Loops {
		out = append(out, l.Invariants...)
	}
	return out
}

// collectWatches finds calls(<callee>) terms so the generator maintains those counters.
func collectWatches(e Expr, w map[string]bool) {
	switch x := e.(type) {
	case *ECall:
		if id, ok := x.Fun.(*EIdent); ok && id.Name == "calls" && len(x.Args) == 1 {
			if s, ok := x.Args[0].(*EStr); ok {
				w["calls "+normAnchor(s.Val)] = true
			}
		}
		if id, ok := x.Fun.(*EIdent); ok && id.Name == "deferred" && len(x.Args) == 1 {
			if s, ok := x.Args[0].(*EStr); ok {
				w["deferred "+normAnchor(s.Val)] = true
			}
		}
		if id, ok := x.Fun.(*EIdent); ok && id.Name == "exhausted" && len(x.Args) == 1 {
			if n, ok := x.Args[0].(*ENum); ok {
				w["loopdone "+n.Text] = true
			}
		}
		if id, ok := x.Fun.(*EIdent); ok && id.Name == "lastret" && len(x.Args) >= 1 {
			if s, ok := x.Args[0].(*EStr); ok {
				w[lastretKey(s.Val)] = true
			}
		}
		for _, a := range x.Args {
			collectWatches(a, w)
		}
	case *EBinary:
		collectWatches(x.X, w)
		collectWatches(x.Y, w)
	case *EUnary:
		collectWatches(x.X, w)
	case *EQuant:
		collectWatches(x.Body, w)
	case *ESel:
		collectWatches(x.X, w)
	case *EIndex:
		collectWatches(x.X, w)
		collectWatches(x.I, w)
	}
}

// setupEntry declares parameters and assumes the precondition.
func (c *FnCtx) setupEntry() {
	fn := c.fn
	c.curBlock = fn.Blocks[0]
	c.curIdx = 0
	for _, p := range fn.Params {
		n := sym("p_" + p.Name())
		c.decl("(declare-const " + n + " " + c.sortOf(p.Type()) + ")")
		c.setVal(p, Val{T: n, Ty: p.Type()})
		c.assume(c.typeFact(n, p.Type()))
	}
	for _, fv := range fn.FreeVars {
		n := sym("fv_" + fv.Name())
		c.decl("(declare-const " + n + " Int)")
		c.decl("(assert (not (= " + n + " 0)))")
		c.setVal(fv, Val{T: n, Ty: fv.Type()})
	}
	for k := range c.watch {
		if strings.HasPrefix(k, "calls ") || strings.HasPrefix(k, "deferred ") {
			c.ghost[k] = Val{T: c.mode.idxLit(0), Ty: intTy}
		}
		if strings.HasPrefix(k, "loopdone ") {
			c.ghost[k] = Val{T: "false", Ty: boolTy}
		}
	}
	for _, l := range c.g.cs.Lemmas {
		if l.Global && l.Axiom {
			// global axioms are added to a function's queries only if the function mentions one of their
			// specification symbols (decided in assemble): irrelevant quantified axioms slow the solvers down
			lc := *l
			c.globalAxioms = append(c.globalAxioms, globalAxiom{name: l.Name, text: c.lemmaTerm(&lc)})
		}
	}
	if c.fc == nil {
		return
	}
	for _, u := range c.fc.Uses {
		c.useLemma(u)
	}
	env := c.preEnv()
	var pres []string
	for _, cl := range c.fc.Requires {
		t := c.trClause(env, cl)
		c.assume(t)
		pres = append(pres, t)
	}
	c.cover("cover:entry", and(pres...))
}

func (c *FnCtx) useLemma(name string) {
	for _, l := range c.g.cs.Lemmas {
		if l.Name == name {
			lc := *l
			t := c.lemmaTerm(&lc)
			c.define(t)
			if l.Axiom {
				c.used["axiom: "+l.Name] = true
			} else {
				c.usedLemmas = append(c.usedLemmas, l.Name)
			}
			return
		}
	}
	c.unsup("unknown lemma %s", name)
}

func (c *FnCtx) lemmaTerm(l *LemmaDef) string {
	pkg := c.g.typesPkgs[l.Pkg]
	if pkg == nil {
		pkg = c.pkg
	}
	env := &Env{c: c, names: map[string]Val{}, heap: c.heap, old: c.entry, pkg: pkg, what: "lemma " + l.Name}
	if len(l.Vars) == 0 {
		return c.trClause(env, l.Clause)
	}
	q := &EQuant{Forall: true, Body: l.Clause.E, Trigs: l.Trigs}
	for _, v := range l.Vars {
		q.Vars = append(q.Vars, QVar{v.Name, v.Type})
	}
	return c.trClause(env, Clause{Text: l.Clause.Text, E: q, File: l.File, Line: l.Line})
}

// assemble builds the SMT script of every obligation.
func (c *FnCtx) assemble() {
	pre := prelude(c.mode)
	declText := strings.Join(c.decls, "\n") + "\n"
	// relevance filter for global axioms
	var all strings.Builder
	for _, it := range c.items {
		all.WriteString(it.text)
		for _, p := range it.pre {
			all.WriteString(p)
		}
	}
	body := all.String()
	for _, ga := range c.globalAxioms {
		syms := specSymRe.FindAllString(ga.text, -1)
		relevant := len(syms) == 0
		for _, sy := range syms {
			if strings.Contains(body, sy) {
				relevant = true
				break
			}
		}
		if relevant {
			declText += "(assert " + ga.text + ")\n"
			c.used["axiom: "+ga.name] = true
		}
	}
	var sb strings.Builder
	for _, it := range c.items {
		if it.kind == "assert" {
			sb.WriteString("(assert " + it.text + ")\n")
			continue
		}
		ob := it.ob
		extra := ""
		for _, p := range it.pre {
			extra += "(assert " + p + ")\n"
		}
		ob.Script = pre + declText + sb.String() + extra + "(assert " + it.text + ")\n(check-sat)\n"
		ob.Size = len(ob.Script)
	}
}

// lemmaObligation builds the standalone proof obligation of a lemma.
func (g *Gen) lemmaObligation(l *LemmaDef) (ob *Obligation) {
	mode := ModeInt
	if l.Arith == "bv" {
		mode = ModeBV
	}
	c := g.newCtx(nil, nil, mode)
	c.pkg = g.typesPkgs[l.Pkg]
	ob = &Obligation{Name: shortName(l.Pkg) + ".lemma." + l.Name, Fn: "lemma " + l.Name, Kind: "lemma", Desc: l.Clause.Text, Pos: fmt.Sprintf("%s:%d", l.File, l.Line)}
	defer func() {
		if r := recover(); r != nil {
			if u, ok := r.(unsupported); ok {
				ob.Result = "error"
				ob.Output = u.msg
				return
			}
			panic(r)
		}
	}()
	for _, u := range l.Uses {
		c.useLemma(u)
	}
	t := c.lemmaTerm(l)
	var sb strings.Builder
	for _, it := range c.items {
		if it.kind == "assert" {
			sb.WriteString("(assert " + it.text + ")\n")
		}
	}
	ob.Script = prelude(mode) + strings.Join(c.decls, "\n") + "\n" + sb.String() + "(assert (not " + t + "))\n(check-sat)\n"
	ob.Size = len(ob.Script)
	ob.Goal = t
	return ob
}

// assignOrdinals numbers calls (per callee), stores (per field) and returns in SOURCE order, so that
// anchors such as "call X#2" and "return#3" mean the 2nd/3rd occurrence as written in the function.
func (c *FnCtx) assignOrdinals() {
	c.callOrdOf = map[ssa.Instruction]int{}
	c.retOrdOf = map[ssa.Instruction]int{}
	c.storeOrdOf = map[ssa.Instruction]int{}
	type ent struct {
		in  ssa.Instruction
		key string
	}
	var calls, rets, stores, misc []ent
	c.miscOrdOf = map[ssa.Instruction]int{}
	for _, b := range c.fn.Blocks {
		if b == c.fn.Recover {
			continue // only reachable through recovered panics: not modelled
		}
		for _, in := range b.Instrs {
			switch x := in.(type) {
			case *ssa.MapUpdate:
				misc = append(misc, ent{in, "mapupdate"})
			case *ssa.Call:
				if bi, isB := x.Call.Value.(*ssa.Builtin); isB {
					switch bi.Name() {
					case "append", "copy":
						misc = append(misc, ent{in, bi.Name()})
					case "delete":
						misc = append(misc, ent{in, "mapdelete"})
					}
					continue
				}
				if n, _ := c.calleeName(&x.Call); n != "" {
					calls = append(calls, ent{in, shortName(n)})
				}
			case *ssa.Defer:
				if n, _ := c.calleeName(&x.Call); n != "" {
					calls = append(calls, ent{in, shortName(n)})
				}
			case *ssa.Go:
				if n, _ := c.calleeName(&x.Call); n != "" {
					calls = append(calls, ent{in, shortName(n)})
				}
			case *ssa.Return:
				rets = append(rets, ent{in, ""})
			case *ssa.Store:
				if fa, ok := x.Addr.(*ssa.FieldAddr); ok {
					if pt, ok := fa.X.Type().Underlying().(*types.Pointer); ok {
						if st, ok := pt.Elem().Underlying().(*types.Struct); ok {
							stores = append(stores, ent{in, typeName(pt.Elem()) + "." + st.Field(fa.Field).Name()})
						}
					}
				}
			}
		}
	}
	number := func(es []ent, out map[ssa.Instruction]int) {
		sort.SliceStable(es, func(i, j int) bool {
			pi, pj := es[i].in.Pos(), es[j].in.Pos()
			// instructions without a position (the implicit return at the end of a function) come last
			if pi == 0 {
				pi = 1 << 30
			}
			if pj == 0 {
				pj = 1 << 30
			}
			if pi != pj {
				return pi < pj
			}
			return es[i].in.Block().Index < es[j].in.Block().Index
		})
		cnt := map[string]int{}
		for _, e := range es {
			cnt[e.key]++
			out[e.in] = cnt[e.key]
		}
	}
	number(calls, c.callOrdOf)
	number(rets, c.retOrdOf)
	number(stores, c.storeOrdOf)
	number(misc, c.miscOrdOf)
	c.miscOrdCC = map[*ssa.CallCommon]int{}
	for in, n := range c.miscOrdOf {
		if call, ok := in.(*ssa.Call); ok {
			c.miscOrdCC[&call.Call] = n
		}
	}
}

// sentinelError reports whether gl is an error-typed package variable whose only store in its package is
// the result of errors.New / fmt.Errorf in the package initialiser.
func (g *Gen) sentinelError(gl *ssa.Global) bool {
	g.tagMu.Lock()
	defer g.tagMu.Unlock()
	if g.sentinels == nil {
		g.sentinels = map[*ssa.Global]int{}
	}
	if v, ok := g.sentinels[gl]; ok {
		return v == 1
	}
	g.sentinels[gl] = 2
	pt, ok := gl.Type().(*types.Pointer)
	if !ok || !types.IsInterface(pt.Elem()) || gl.Pkg == nil {
		return false
	}
	stores, good := 0, 0
	var scan func(fn *ssa.Function)
	seen := map[*ssa.Function]bool{}
	scan = func(fn *ssa.Function) {
		if fn == nil || seen[fn] {
			return
		}
		seen[fn] = true
		for _, b := range fn.Blocks {
			for _, in := range b.Instrs {
				if st, ok := in.(*ssa.Store); ok && st.Addr == gl {
					stores++
					v := st.Val
					if mi, ok := v.(*ssa.MakeInterface); ok {
						v = mi.X
					}
					if _, isAlloc := v.(*ssa.Alloc); isAlloc && fn.Name() == "init" {
						good++ // &T{...}
					}
					if call, ok := v.(*ssa.Call); ok {
						if cal := call.Call.StaticCallee(); cal != nil {
							switch cal.String() {
							case "errors.New", "fmt.Errorf":
								if fn.Name() == "init" {
									good++
								}
							}
						}
					}
				}
			}
		}
		for _, af := range fn.AnonFuncs {
			scan(af)
		}
	}
	for _, m := range gl.Pkg.Members {
		switch x := m.(type) {
		case *ssa.Function:
			scan(x)
		case *ssa.Type:
			for _, t := range []types.Type{x.Type(), types.NewPointer(x.Type())} {
				ms := g.prog.MethodSets.MethodSet(t)
				for i := 0; i < ms.Len(); i++ {
					scan(g.prog.MethodValue(ms.At(i)))
				}
			}
		}
	}
	if stores == 1 && good == 1 {
		g.sentinels[gl] = 1
		return true
	}
	return false
}

// lastretKey maps the string argument of lastret() to its ghost key: "callee" (latest call of that callee on the
// path) or "callee#k" (the k-th call site in source order).
func lastretKey(arg string) string {
	if i := strings.LastIndex(arg, "#"); i > 0 {
		if k, err := strconv.Atoi(arg[i+1:]); err == nil {
			return fmt.Sprintf("lastret %s@%d", normAnchor(arg[:i]), k)
		}
	}
	return "lastret " + normAnchor(arg)
}

// definesViolations decides the obligation behind a `defines result == f(a, p.x, ...)` clause over the SSA body: the
// value returned is determined by the scalar parameters and the parameter fields that the clause mentions. Allowed
// instructions: arithmetic that cannot panic (no division; shift counts constant or unsigned), conversions, loads of a
// field of a parameter, branches, phis, returns. No call, store, allocation, global, closure variable, map, slice,
// channel or pointer arithmetic. Every scalar parameter used and every field loaded must occur in the clause text.
func definesViolations(fn *ssa.Function, text string) []string {
	var bad []string
	add := func(f string, a ...any) { bad = append(bad, fmt.Sprintf(f, a...)) }
	mentions := func(s string) bool {
		re := regexp.MustCompile(`(^|[^A-Za-z0-9_.])` + regexp.QuoteMeta(s) + `($|[^A-Za-z0-9_])`)
		return re.MatchString(text)
	}
	if len(fn.FreeVars) > 0 {
		add("closure variables")
	}
	fieldOfParam := map[ssa.Value]string{}
	for _, b := range fn.Blocks {
		for _, in := range b.Instrs {
			switch x := in.(type) {
			case *ssa.DebugRef, *ssa.Return, *ssa.If, *ssa.Jump, *ssa.Phi, *ssa.Convert, *ssa.ChangeType:
			case *ssa.BinOp:
				switch x.Op {
				case token.QUO, token.REM:
					add("division (may panic)")
				case token.SHL, token.SHR:
					if _, isConst := x.Y.(*ssa.Const); !isConst {
						if bt, ok := x.Y.Type().Underlying().(*types.Basic); !ok || bt.Info()&types.IsUnsigned == 0 {
							add("shift by a signed variable (may panic)")
						}
					}
				}
			case *ssa.FieldAddr:
				p, ok := x.X.(*ssa.Parameter)
				if !ok {
					add("field address of a non-parameter")
					break
				}
				st, _ := p.Type().Underlying().(*types.Pointer)
				if st == nil {
					add("field address through a non-pointer")
					break
				}
				str, _ := st.Elem().Underlying().(*types.Struct)
				if str == nil {
					add("field address of a non-struct")
					break
				}
				name := p.Name() + "." + str.Field(x.Field).Name()
				fieldOfParam[x] = name
				if !mentions(name) {
					add("reads %s, which the clause does not list", name)
				}
			case *ssa.UnOp:
				if x.Op == token.MUL {
					if _, ok := fieldOfParam[x.X]; !ok {
						add("load from memory other than a field of a parameter")
					}
				} else if x.Op == token.ARROW {
					add("channel receive")
				}
			default:
				add("instruction %T", in)
			}
			for _, op := range in.Operands(nil) {
				if op == nil || *op == nil {
					continue
				}
				switch v := (*op).(type) {
				case *ssa.Global:
					add("package-level variable %s", v.Name())
				case *ssa.Parameter:
					if fa, isFA := in.(*ssa.FieldAddr); isFA && fa.X == v {
						continue
					}
					if _, isDbg := in.(*ssa.DebugRef); isDbg {
						continue
					}
					if _, scalar := v.Type().Underlying().(*types.Basic); !scalar {
						add("non-scalar parameter %s used as a value", v.Name())
					} else if !mentions(v.Name()) {
						add("uses parameter %s, which the clause does not list", v.Name())
					}
				}
			}
		}
	}
	sort.Strings(bad)
	return slices.Compact(bad)
}
