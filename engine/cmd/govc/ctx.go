package main

import (
	"fmt"
	"go/types"
	"math/big"
	"sort"
	"strings"

	"golang.org/x/tools/go/ssa"
)

// Val is a translated value: an SMT term with its Go type.
type Val struct {
	T      string
	Ty     types.Type
	Path   []step     // interior-pointer path below the base cell (pointer Vals only)
	BaseTy types.Type // type of the cell T points at when Path is non-empty
	Num    *big.Int   // untyped integer constant (contract literals)
	Opaque bool       // value the model does not interpret (float, func, ...)
}

type step struct {
	field int
	idx   string // SMT index term when isIdx
	isIdx bool
}

type Heap map[string]string

func (h Heap) clone() Heap {
	n := make(Heap, len(h))
	for k, v := range h {
		n[k] = v
	}
	return n
}

type item struct {
	kind string // "assert" (assumption/definition) or "check"
	text string
	ob   *Obligation
	pre  []string // extra assertions local to this check (seed terms, skolem facts)
}

type Obligation struct {
	Name    string
	Fn      string
	Kind    string
	Desc    string
	Script  string
	Cover   bool // expects sat
	Result  string
	Solver  string
	TimeS   float64
	Bounded string
	Model   string
	Output  string
	Size    int
	Pos     string
	Goal    string
	Timeout int
}

type inlineRet struct {
	reach   string
	results []Val
	heap    Heap
	ghost   map[string]Val
}

type unsupported struct{ msg string }

func (c *FnCtx) unsup(f string, a ...any) {
	panic(unsupported{fmt.Sprintf(f, a...)})
}

// FnCtx holds the state of VC generation for one function.
type FnCtx struct {
	headHeap map[*ssa.BasicBlock]Heap // heap at each loop head (after havoc), for athead() in invariants
	evalMode bool // concrete evaluation of a contract (replay): recursive specs are not fuel-limited
	g        *Gen
	fn       *ssa.Function
	pkg      *types.Package
	mode     Mode
	fc       *FuncContract
	vals     map[ssa.Value]Val
	heap     Heap
	entry    Heap
	declSet  map[string]bool
	decls    []string
	items    []item
	obs      []*Obligation
	nfresh   int
	ord      map[string]int
	reach    string // reach condition of the current block
	discover bool
	writes   map[*ssa.BasicBlock]map[string]bool
	curBlock *ssa.BasicBlock
	curIdx   int
	loops    map[*ssa.BasicBlock]*loopInfo
	loopOrd  map[*ssa.BasicBlock]int
	allocs   []string // refs allocated so far (for freshness)
	refVals  []Val    // ref-valued terms seen so far
	used     map[string]bool // assumed contracts / trusted items used
	retCount int
	callOrd  map[string]int
	storeOrd map[string]int
	ghost    map[string]Val
	abstract bool
	havocN   int
	notes    []string
	strLits  map[string]string
	anchorsHit map[string]bool
	effects  map[string]string // effect counter name -> current term
	calleeOrd map[string]int
	deferred []*ssa.Defer
	panicOK  bool
	tuples   map[ssa.Value][]Val
	closures map[ssa.Value]*ssa.MakeClosure
	loopDec  map[*ssa.BasicBlock]Val
	usedContracts map[string]bool
	usedPure map[string]bool
	usedInlined map[string]bool
	havocCalls map[string]int
	watch    map[string]bool
	globalAxioms []globalAxiom
	interiorCell map[*ssa.Alloc]interiorVal
	miscOrdOf map[ssa.Instruction]int   // source-order ordinals of append/copy/delete/map updates
	miscOrdCC map[*ssa.CallCommon]int
	lastretTy map[string]types.Type // result types of watched callees, learnt in the discovery pass
	retCountTotal int
	sawConcurrency bool
	goSeen   bool
	usedLemmas []string
	sortWitness [][2]string
	entryReach string
	localCells []string // alloc terms of local variables that never escape
	condCells  []condCell // local variables that escape only at known instructions
	reachMemo  map[*ssa.BasicBlock]map[*ssa.BasicBlock]bool
	allocOf    map[string]ssa.Value // alloc term -> Alloc instruction (this pass)
	cellWrites map[*ssa.BasicBlock]map[ssa.Value]bool // discovery: local cells written per block
	outerBlock *ssa.BasicBlock // caller block while executing inlined callee bodies
	inlineStack []*ssa.Function
	inlineRets []inlineRet
	callOrdOf, retOrdOf, storeOrdOf map[ssa.Instruction]int
	seeds []string
	termSorts map[string]string
	known map[string]map[string]string // heap version -> alloc address -> stored value (syntactic store forwarding)
	heapTy map[string]types.Type // value type of each heap array (element type for Elems)
	known2 map[string]map[string]string // Elems heap version -> alloc region -> inner array term
	skolemFacts []string
}

func (c *FnCtx) fresh(prefix, sort string) string {
	c.nfresh++
	n := sym(fmt.Sprintf("%s!%d", prefix, c.nfresh))
	c.decl("(declare-const " + n + " " + sort + ")")
	return n
}

func (c *FnCtx) decl(d string) {
	if c.declSet[d] {
		return
	}
	c.declSet[d] = true
	c.decls = append(c.decls, d)
}

func (c *FnCtx) assume(cond string) {
	if cond == "true" || c.discover {
		return
	}
	c.items = append(c.items, item{kind: "assert", text: fold(implies(c.reach, cond))})
}

// define adds an unguarded fact (definition of a fresh symbol).
func (c *FnCtx) define(cond string) {
	if cond == "true" || c.discover {
		return
	}
	c.items = append(c.items, item{kind: "assert", text: fold(cond)})
}

func (c *FnCtx) posString() string {
	if c.curBlock != nil && c.curIdx < len(c.curBlock.Instrs) {
		p := c.fn.Prog.Fset.Position(c.curBlock.Instrs[c.curIdx].Pos())
		if p.IsValid() {
			return fmt.Sprintf("%s:%d", p.Filename, p.Line)
		}
	}
	return ""
}

// check records an obligation: under the current reach condition, cond holds.
func (c *FnCtx) check(kind, desc, cond string) {
	c.checkG(kind, desc, c.reach, cond)
}

// addSeed records a ground term that must be present in the solver's term set.
func (c *FnCtx) addSeed(v Val) {
	if v.Ty == nil {
		return
	}
	srt := c.sortOf(v.Ty)
	f := sym("seed " + srt)
	c.decl("(declare-fun " + f + " (" + srt + ") Bool)")
	c.seeds = append(c.seeds, "("+f+" "+v.T+")")
}

// checkClause checks a contract clause as a goal (top-level universals skolemised) and then
// assumes it in its quantified form.
func (c *FnCtx) checkClause(kind, desc, guard string, env *Env, cl Clause) {
	if c.discover {
		c.trClause(env, cl)
		return
	}
	c.seeds, c.skolemFacts = nil, nil
	env.skolem = true
	goal := c.trClause(env, cl)
	env.skolem = false
	seeds, facts := c.seeds, c.skolemFacts
	c.seeds, c.skolemFacts = nil, nil
	full := c.trClause(env, cl)
	c.checkFull(kind, desc, guard, goal, full, append(seeds, facts...))
}

func (c *FnCtx) checkG(kind, desc, guard, cond string) {
	c.checkFull(kind, desc, guard, cond, cond, nil)
}

func (c *FnCtx) checkFull(kind, desc, guard, cond, assumeAfter string, pre []string) {
	if c.discover {
		return
	}
	if cond == "true" {
		// trivially true obligations are still counted (discharged syntactically)
	}
	name := c.fn.String() + "#" + kind
	if strings.HasPrefix(kind, "safety.") && c.fc != nil {
		k := strings.TrimPrefix(kind, "safety.")
		if i := strings.Index(k, ":"); i >= 0 {
			k = k[:i]
		}
		if c.fc.NoSafety[k] || c.fc.NoSafety["all"] {
			return
		}
	}
	ob := &Obligation{Name: shortName(name), Fn: c.fn.String(), Kind: kind, Desc: desc, Pos: c.posString(), Goal: cond}
	if c.fc != nil && c.fc.Bounded != "" {
		ob.Bounded = c.fc.Bounded
	}
	if c.fc != nil {
		ob.Timeout = c.fc.Timeout
	}
	cond, assumeAfter = fold(cond), fold(assumeAfter)
	c.items = append(c.items, item{kind: "check", text: and(guard, not(cond)), ob: ob, pre: pre})
	c.obs = append(c.obs, ob)
	// after checking, later code may rely on it - unless the obligation is a recorded known finding
	if c.g != nil && c.g.noAssume[ob.Name] {
		return
	}
	c.items = append(c.items, item{kind: "assert", text: implies(guard, assumeAfter)})
}

// cover records a satisfiability (non-vacuity) query.
func (c *FnCtx) cover(kind, cond string) {
	if c.discover {
		return
	}
	ob := &Obligation{Name: shortName(c.fn.String() + "#" + kind), Fn: c.fn.String(), Kind: kind, Cover: true, Pos: c.posString()}
	c.items = append(c.items, item{kind: "check", text: cond, ob: ob})
	c.obs = append(c.obs, ob)
}

func shortName(s string) string {
	return strings.ReplaceAll(s, "github.com/semihalev/sdns/", "")
}

func (c *FnCtx) ordinal(kind string) int {
	c.ord[kind]++
	return c.ord[kind]
}

// ---------------------------------------------------------------- sorts

func (c *FnCtx) sortOf(t types.Type) string {
	switch u := t.Underlying().(type) {
	case *types.Basic:
		if u.Kind() == types.Bool || u.Kind() == types.UntypedBool {
			return "Bool"
		}
		if ii, ok := intInfoOf(t); ok {
			return c.mode.intSort(ii.bits)
		}
		if u.Kind() == types.String || u.Kind() == types.UntypedString {
			return "Slice"
		}
		if u.Kind() == types.UnsafePointer {
			// an opaque reference value; conversions to and from it stay unsupported (evalInstr refuses them)
			return "Int"
		}
		c.decl("(declare-sort Opaque 0)")
		return "Opaque"
	case *types.Pointer, *types.Map, *types.Chan, *types.Signature, *types.Interface:
		return "Int"
	case *types.Slice:
		return "Slice"
	case *types.Array:
		return "(Array " + c.mode.idxSort() + " " + c.sortOf(u.Elem()) + ")"
	case *types.Struct:
		return c.structSort(t, u)
	case *types.Tuple:
		c.unsup("tuple sort")
	case *types.TypeParam:
		c.unsup("type parameter %s (generic function not instantiated)", t)
	}
	c.unsup("sort of %s", t)
	return ""
}

func (c *FnCtx) structSort(t types.Type, st *types.Struct) string {
	name := sym("S " + typeName(t))
	key := "struct:" + name
	if c.declSet[key] {
		return name
	}
	c.declSet[key] = true
	var fs []string
	for i := 0; i < st.NumFields(); i++ {
		fs = append(fs, "("+c.fieldAcc(t, i)+" "+c.sortOf(st.Field(i).Type())+")")
	}
	if len(fs) == 0 {
		fs = append(fs, "("+sym("f "+typeName(t)+".$unit")+" Bool)")
	}
	c.decls = append(c.decls, fmt.Sprintf("(declare-datatypes ((%s 0)) (((%s %s))))", name, c.structCtor(t), strings.Join(fs, " ")))
	return name
}

func (c *FnCtx) structCtor(t types.Type) string { return sym("mk " + typeName(t)) }
func (c *FnCtx) fieldAcc(t types.Type, i int) string {
	st := t.Underlying().(*types.Struct)
	n := st.Field(i).Name()
	if n == "_" {
		n = fmt.Sprintf("_%d", i)
	}
	return sym("f " + typeName(t) + "." + n)
}

// zero value term of a type.
func (c *FnCtx) zero(t types.Type) string {
	switch u := t.Underlying().(type) {
	case *types.Basic:
		if u.Kind() == types.Bool || u.Kind() == types.UntypedBool {
			return "false"
		}
		if ii, ok := intInfoOf(t); ok {
			return c.mode.lit(big.NewInt(0), ii)
		}
		if u.Kind() == types.String {
			return "(mk_slice 0 " + c.mode.idxLit(0) + " " + c.mode.idxLit(0) + " " + c.mode.idxLit(0) + ")"
		}
		if u.Kind() == types.UnsafePointer {
			return "0"
		}
		c.sortOf(t)
		c.decl("(declare-const opaque_zero Opaque)")
		return "opaque_zero"
	case *types.Pointer, *types.Map, *types.Chan, *types.Signature, *types.Interface:
		return "0"
	case *types.Slice:
		return "(mk_slice 0 " + c.mode.idxLit(0) + " " + c.mode.idxLit(0) + " " + c.mode.idxLit(0) + ")"
	case *types.Array:
		return "((as const " + c.sortOf(t) + ") " + c.zero(u.Elem()) + ")"
	case *types.Struct:
		c.sortOf(t)
		if u.NumFields() == 0 {
			return "(" + c.structCtor(t) + " true)"
		}
		var fs []string
		for i := 0; i < u.NumFields(); i++ {
			fs = append(fs, c.zero(u.Field(i).Type()))
		}
		return "(" + c.structCtor(t) + " " + strings.Join(fs, " ") + ")"
	}
	c.unsup("zero of %s", t)
	return ""
}

// rangeFact returns the range constraint of an integer-typed term in int mode.
func (c *FnCtx) rangeFact(term string, t types.Type) string {
	if c.mode != ModeInt {
		return "true"
	}
	ii, ok := intInfoOf(t)
	if !ok {
		return "true"
	}
	return "(and (<= " + smtInt(ii.min()) + " " + term + ") (<= " + term + " " + smtInt(ii.max()) + "))"
}

// typeFact: well-typedness facts of a freshly introduced value.
func (c *FnCtx) typeFact(term string, t types.Type) string {
	return c.typeFactD(term, t, 0)
}

func (c *FnCtx) typeFactD(term string, t types.Type, depth int) string {
	z := c.mode.idxLit(0)
	big := c.mode.idxLit(1 << 60)
	switch u := t.Underlying().(type) {
	case *types.Slice:
		return and("(>= (s_reg "+term+") 0)", c.idxLe(z, "(s_off "+term+")"), c.idxLe(z, "(s_len "+term+")"), c.idxLe("(s_len "+term+")", "(s_cap "+term+")"),
			c.idxLe("(s_cap "+term+")", big), c.idxLe("(s_off "+term+")", big),
			implies(eq("(s_reg "+term+")", "0"), and(eq("(s_cap "+term+")", z), eq("(s_off "+term+")", z))))
	case *types.Basic:
		if u.Info()&types.IsString != 0 {
			return and("(>= (s_reg "+term+") 0)", c.idxLe(z, "(s_off "+term+")"), c.idxLe(z, "(s_len "+term+")"), c.idxLe("(s_len "+term+")", big), c.idxLe("(s_off "+term+")", big))
		}
		return c.rangeFact(term, t)
	case *types.Struct:
		if depth > 2 {
			return "true"
		}
		c.sortOf(t)
		var fs []string
		for i := 0; i < u.NumFields(); i++ {
			ft := u.Field(i).Type()
			switch ft.Underlying().(type) {
			case *types.Basic, *types.Slice, *types.Struct:
				fs = append(fs, c.typeFactD("("+c.fieldAcc(t, i)+" "+term+")", ft, depth+1))
			}
		}
		return and(fs...)
	}
	return "true"
}

// ---------------------------------------------------------------- heap

// heap array for field i of struct type t (top-level cell fields).
func (c *FnCtx) fieldHeap(t types.Type, i int) string {
	st := t.Underlying().(*types.Struct)
	fname := st.Field(i).Name()
	if fname == "_" {
		fname = fmt.Sprintf("_%d", i)
	}
	name := sym("H " + typeName(t) + "." + fname)
	if _, ok := c.heap[name]; !ok {
		fs := c.sortOf(st.Field(i).Type())
		c.decl("(declare-const " + name + " (Array Int " + fs + "))")
		c.heapTy[name] = st.Field(i).Type()
		c.heap[name] = name
		if c.entry != nil {
			if _, ok := c.entry[name]; !ok {
				c.entry[name] = name
			}
		}
	}
	return name
}

func (c *FnCtx) cellHeap(t types.Type) string {
	name := sym("Cell " + typeName(t))
	if _, ok := c.heap[name]; !ok {
		c.decl("(declare-const " + name + " (Array Int " + c.sortOf(t) + "))")
		c.heapTy[name] = t
		c.heap[name] = name
		if c.entry != nil {
			if _, ok := c.entry[name]; !ok {
				c.entry[name] = name
			}
		}
	}
	return name
}

func (c *FnCtx) elemsHeap(t types.Type) string {
	name := sym("Elems " + typeName(t))
	if _, ok := c.heap[name]; !ok {
		c.decl("(declare-const " + name + " (Array Int (Array " + c.mode.idxSort() + " " + c.sortOf(t) + ")))")
		c.heapTy[name] = t
		c.heap[name] = name
		if c.entry != nil {
			if _, ok := c.entry[name]; !ok {
				c.entry[name] = name
			}
		}
	}
	return name
}

// region function for an array-typed field of a struct cell.
func (c *FnCtx) aregFn(t types.Type, i int) string {
	st := t.Underlying().(*types.Struct)
	name := sym("areg " + typeName(t) + "." + st.Field(i).Name())
	c.decl("(declare-fun " + name + " (Int) Int)")
	inv := sym("areg_inv " + typeName(t) + "." + st.Field(i).Name())
	c.decl("(declare-fun " + inv + " (Int) Int)")
	c.decl("(assert (forall ((a Int)) (! (and (= (" + inv + " (" + name + " a)) a) (not (= (" + name + " a) 0))) :pattern ((" + name + " a)))))")
	return name
}

func isStruct(t types.Type) bool { _, ok := t.Underlying().(*types.Struct); return ok }
func isArray(t types.Type) bool  { _, ok := t.Underlying().(*types.Array); return ok }

func (c *FnCtx) idxAdd(a, b string) string {
	if c.mode == ModeBV {
		if b == "(_ bv0 64)" {
			return a
		}
		if a == "(_ bv0 64)" {
			return b
		}
		return "(bvadd " + a + " " + b + ")"
	}
	if b == "0" {
		return a
	}
	if a == "0" {
		return b
	}
	return "(+ " + a + " " + b + ")"
}
// spos is the position of element i of slice s inside its region: a function symbol (not an
// arithmetic term) so that quantifier patterns over slice elements contain no interpreted symbols.
func (c *FnCtx) spos(s, i string) string { return "(spos " + s + " " + i + ")" }

func (c *FnCtx) idxSub(a, b string) string {
	if c.mode == ModeBV {
		return "(bvsub " + a + " " + b + ")"
	}
	if b == "0" {
		return a
	}
	return "(- " + a + " " + b + ")"
}
func (c *FnCtx) idxLe(a, b string) string {
	if c.mode == ModeBV {
		return "(bvsle " + a + " " + b + ")"
	}
	return "(<= " + a + " " + b + ")"
}
func (c *FnCtx) idxLt(a, b string) string {
	if c.mode == ModeBV {
		return "(bvslt " + a + " " + b + ")"
	}
	return "(< " + a + " " + b + ")"
}

// setHeap installs a new version of a heap array.
func (c *FnCtx) setHeap(name, term string) {
	if c.discover {
		if c.writes[c.wblk()] == nil {
			c.writes[c.wblk()] = map[string]bool{}
		}
		c.writes[c.wblk()][name] = true
		return
	}
	// name the new version to keep terms small
	srt := c.heapSort(name)
	n := c.fresh(strings.Trim(name, "|"), srt)
	c.define(eq(n, term))
	c.heap[name] = n
}

func (c *FnCtx) heapSort(name string) string {
	pre := "(declare-const " + name + " "
	for _, d := range c.decls {
		if strings.HasPrefix(d, pre) {
			return strings.TrimSuffix(strings.TrimPrefix(d, pre), ")")
		}
	}
	panic("heapSort: unknown heap " + name)
}

func (c *FnCtx) havocHeap(name string) {
	if c.discover {
		if c.writes[c.wblk()] == nil {
			c.writes[c.wblk()] = map[string]bool{}
		}
		c.writes[c.wblk()][name] = true
		return
	}
	c.heap[name] = c.fresh(strings.Trim(name, "|"), c.heapSort(name))
}

// location describes a resolved lvalue.
type location struct {
	// cell context
	arr   string // heap array name ("" if in value context only)
	a1    string // first index (address or region)
	a2    string // second index for Elems arrays ("" otherwise)
	ty    types.Type
	proj  []step     // remaining projections inside the stored value
	projT types.Type // type of the stored value (before projections)
	// whole-struct / whole-array cell (multi-field) access
	cellAddr string
	cellTy   types.Type
}

// resolve turns a pointer Val into a location.
func (c *FnCtx) resolve(p Val) location {
	l := c.resolve0(p)
	l.a1, l.a2, l.cellAddr = fold(l.a1), fold(l.a2), fold(l.cellAddr)
	return l
}

func (c *FnCtx) resolve0(p Val) location {
	pt, ok := p.Ty.Underlying().(*types.Pointer)
	if !ok {
		c.unsup("resolve of non-pointer %s", p.Ty)
	}
	if len(p.Path) == 0 {
		return c.cellLoc(p.T, pt.Elem())
	}
	// walk path from base
	addr := p.T
	ty := p.BaseTy
	path := p.Path
	for len(path) > 0 {
		s := path[0]
		switch u := ty.Underlying().(type) {
		case *types.Struct:
			if s.isIdx {
				c.unsup("index step into struct")
			}
			ft := u.Field(s.field).Type()
			if isArray(ft) {
				addr = "(" + c.aregFn(ty, s.field) + " " + addr + ")"
				ty = ft
				path = path[1:]
				continue
			}
			arr := c.fieldHeap(ty, s.field)
			rest := path[1:]
			if len(rest) == 0 {
				return location{arr: arr, a1: addr, ty: ft, projT: ft}
			}
			// value context below
			return location{arr: arr, a1: addr, ty: c.projType(ft, rest), proj: rest, projT: ft}
		case *types.Array:
			if !s.isIdx {
				c.unsup("field step into array")
			}
			et := u.Elem()
			if isStruct(et) {
				addr = "(elt " + addr + " " + s.idx + ")"
				ty = et
				path = path[1:]
				continue
			}
			arr := c.elemsHeap(et)
			rest := path[1:]
			if len(rest) == 0 {
				return location{arr: arr, a1: addr, a2: s.idx, ty: et, projT: et}
			}
			return location{arr: arr, a1: addr, a2: s.idx, ty: c.projType(et, rest), proj: rest, projT: et}
		default:
			c.unsup("path through %s", ty)
		}
	}
	return c.cellLoc(addr, ty)
}

func (c *FnCtx) projType(t types.Type, path []step) types.Type {
	for _, s := range path {
		switch u := t.Underlying().(type) {
		case *types.Struct:
			t = u.Field(s.field).Type()
		case *types.Array:
			t = u.Elem()
		default:
			c.unsup("projection through %s", t)
		}
	}
	return t
}

func (c *FnCtx) cellLoc(addr string, t types.Type) location {
	switch t.Underlying().(type) {
	case *types.Struct, *types.Array:
		return location{cellAddr: addr, cellTy: t, ty: t}
	}
	return location{arr: c.cellHeap(t), a1: addr, ty: t, projT: t}
}

func (c *FnCtx) project(v string, t types.Type, path []step) string {
	for _, s := range path {
		switch u := t.Underlying().(type) {
		case *types.Struct:
			c.sortOf(t)
			v = "(" + c.fieldAcc(t, s.field) + " " + v + ")"
			t = u.Field(s.field).Type()
		case *types.Array:
			v = sel(v, s.idx)
			t = u.Elem()
		}
	}
	return v
}

func (c *FnCtx) updateProj(v string, t types.Type, path []step, nv string) string {
	if len(path) == 0 {
		return nv
	}
	s := path[0]
	switch u := t.Underlying().(type) {
	case *types.Struct:
		c.sortOf(t)
		var fs []string
		for i := 0; i < u.NumFields(); i++ {
			f := "(" + c.fieldAcc(t, i) + " " + v + ")"
			if i == s.field {
				f = c.updateProj(f, u.Field(i).Type(), path[1:], nv)
			}
			fs = append(fs, f)
		}
		return "(" + c.structCtor(t) + " " + strings.Join(fs, " ") + ")"
	case *types.Array:
		return sto(v, s.idx, c.updateProj(sel(v, s.idx), u.Elem(), path[1:], nv))
	}
	c.unsup("update through %s", t)
	return ""
}

// loadLoc reads a location from heap h.
func (c *FnCtx) loadLoc(l location, h Heap) string {
	if l.cellTy != nil {
		return c.loadCell(l.cellAddr, l.cellTy, h)
	}
	cur := c.heapTerm(h, l.arr)
	if l.a2 == "" && len(l.proj) == 0 {
		if kv, ok := c.known[cur][l.a1]; ok {
			return kv
		}
	}
	var v string
	if l.a2 != "" {
		v = sel(c.regionArr(h, l.arr, l.a1), l.a2)
	} else {
		v = sel(cur, l.a1)
	}
	return c.project(v, l.projT, l.proj)
}

func (c *FnCtx) heapTerm(h Heap, name string) string {
	if t, ok := h[name]; ok {
		return t
	}
	// declared later than snapshot: entry version is the base name
	return name
}

// loadCell builds the value of a whole struct/array cell.
func (c *FnCtx) loadCell(addr string, t types.Type, h Heap) string {
	switch u := t.Underlying().(type) {
	case *types.Struct:
		c.sortOf(t)
		if u.NumFields() == 0 {
			return "(" + c.structCtor(t) + " true)"
		}
		var fs []string
		for i := 0; i < u.NumFields(); i++ {
			ft := u.Field(i).Type()
			if isArray(ft) {
				fs = append(fs, c.loadCell("("+c.aregFn(t, i)+" "+addr+")", ft, h))
			} else {
				fs = append(fs, sel(c.heapTerm(h, c.fieldHeap(t, i)), addr))
			}
		}
		return "(" + c.structCtor(t) + " " + strings.Join(fs, " ") + ")"
	case *types.Array:
		et := u.Elem()
		if isStruct(et) {
			if u.Len() > 16 {
				c.unsup("load of large array of structs")
			}
			v := "((as const " + c.sortOf(t) + ") " + c.zero(et) + ")"
			for i := int64(0); i < u.Len(); i++ {
				v = sto(v, c.mode.idxLit(i), c.loadCell("(elt "+addr+" "+c.mode.idxLit(i)+")", et, h))
			}
			return v
		}
		return c.regionArr(h, c.elemsHeap(et), addr)
	}
	c.unsup("loadCell %s", t)
	return ""
}

func (c *FnCtx) storeCell(addr string, t types.Type, v string) {
	switch u := t.Underlying().(type) {
	case *types.Struct:
		c.sortOf(t)
		for i := 0; i < u.NumFields(); i++ {
			ft := u.Field(i).Type()
			fv := "(" + c.fieldAcc(t, i) + " " + v + ")"
			if isArray(ft) {
				c.storeCell("("+c.aregFn(t, i)+" "+addr+")", ft, fv)
			} else {
				name := c.fieldHeap(t, i)
				c.setHeap(name, sto(c.heap[name], addr, fv))
			}
		}
	case *types.Array:
		et := u.Elem()
		if isStruct(et) {
			if u.Len() > 16 {
				c.unsup("store of large array of structs")
			}
			for i := int64(0); i < u.Len(); i++ {
				c.storeCell("(elt "+addr+" "+c.mode.idxLit(i)+")", et, sel(v, c.mode.idxLit(i)))
			}
			return
		}
		name := c.elemsHeap(et)
		c.setRegion(name, addr, v)
	default:
		c.unsup("storeCell %s", t)
	}
}

func isAllocConst(a string) bool {
	return strings.HasPrefix(a, "alloc!") || strings.HasPrefix(a, "|alloc!")
}

func (c *FnCtx) noteCellWrite(addr string) {
	if a, ok := c.allocOf[addr]; ok {
		b := c.wblk()
		if c.cellWrites[b] == nil {
			c.cellWrites[b] = map[ssa.Value]bool{}
		}
		c.cellWrites[b][a] = true
	}
}

func (c *FnCtx) storeLoc(l location, v string) {
	if l.cellTy != nil {
		c.noteCellWrite(l.cellAddr)
	} else {
		c.noteCellWrite(l.a1)
	}
	if l.cellTy != nil {
		c.storeCell(l.cellAddr, l.cellTy, v)
		return
	}
	cur := c.heap[l.arr]
	if l.a2 == "" && len(l.proj) == 0 && !c.discover {
		c.setHeap(l.arr, sto(cur, l.a1, v))
		if isAllocConst(l.a1) {
			m := map[string]string{}
			for k, x := range c.known[cur] {
				m[k] = x
			}
			m[l.a1] = v
			c.known[c.heap[l.arr]] = m
		}
		return
	}
	if l.a2 != "" {
		inner := c.regionArr(c.heap, l.arr, l.a1)
		old := sel(inner, l.a2)
		nv := c.updateProj(old, l.projT, l.proj, v)
		c.setRegion(l.arr, l.a1, sto(inner, l.a2, nv))
		return
	}
	old := sel(cur, l.a1)
	nv := c.updateProj(old, l.projT, l.proj, v)
	c.setHeap(l.arr, sto(cur, l.a1, nv))
}

// heapNamesSorted returns a deterministic order of heap names.
func heapNamesSorted(hs ...Heap) []string {
	set := map[string]bool{}
	for _, h := range hs {
		for k := range h {
			set[k] = true
		}
	}
	var out []string
	for k := range set {
		out = append(out, k)
	}
	sort.Strings(out)
	return out
}

// regionArr returns the element array of region reg in Elems heap `name` of heap h,
// using the syntactically known content of freshly allocated regions when available.
func (c *FnCtx) regionArr(h Heap, name, reg string) string {
	cur := c.heapTerm(h, name)
	reg = fold(reg)
	if kv, ok := c.known2[cur][reg]; ok {
		return kv
	}
	return sel(cur, reg)
}

// oldRegion: true if the region term certainly denotes a region that existed at function entry.
func oldRegion(reg string) bool {
	return strings.HasPrefix(reg, "(s_reg p_") || strings.HasPrefix(reg, "(s_reg |p_")
}

// setRegion replaces the element array of region reg.
func (c *FnCtx) setRegion(name, reg, arr string) {
	reg = fold(reg)
	cur := c.heap[name]
	if c.discover {
		c.setHeap(name, "")
		return
	}
	// name the inner array
	srt := c.heapSort(name)
	inner := strings.TrimSuffix(strings.TrimPrefix(srt, "(Array Int "), ")")
	an := c.fresh("arr", inner)
	c.define(eq(an, arr))
	c.setHeap(name, sto(cur, reg, an))
	m := map[string]string{}
	if isAllocConst(reg) || oldRegion(reg) {
		for k, x := range c.known2[cur] {
			m[k] = x
		}
	}
	// reading back the region just written (same syntactic region term) always yields the new array
	m[reg] = an
	c.known2[c.heap[name]] = m
}

// mergeKnown carries syntactic knowledge about fresh cells/regions across a control-flow merge.
func (c *FnCtx) mergeKnown(merged string, conds []string, versions []string, isElems bool, srt string) {
	tbl := c.known
	if isElems {
		tbl = c.known2
	}
	first := tbl[versions[0]]
	if len(first) == 0 {
		return
	}
	out := map[string]string{}
	for k, v0 := range first {
		vals := []string{v0}
		ok := true
		for _, ver := range versions[1:] {
			v, has := tbl[ver][k]
			if !has {
				ok = false
				break
			}
			vals = append(vals, v)
		}
		if !ok {
			continue
		}
		same := true
		for _, v := range vals[1:] {
			if v != vals[0] {
				same = false
			}
		}
		if same {
			out[k] = vals[0]
			continue
		}
		m := vals[len(vals)-1]
		for i := len(vals) - 2; i >= 0; i-- {
			m = ite(conds[i], vals[i], m)
		}
		n := c.fresh("mk", srt)
		c.define(eq(n, m))
		out[k] = n
	}
	tbl[merged] = out
}

// wblk: the block of the function under verification to which heap writes are attributed
// (writes made by inlined callee bodies belong to the calling block).
func (c *FnCtx) wblk() *ssa.BasicBlock {
	if len(c.inlineStack) > 0 && c.outerBlock != nil {
		return c.outerBlock
	}
	return c.curBlock
}
