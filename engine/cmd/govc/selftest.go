package main

import (
	"encoding/json"
	"flag"
	"fmt"
	"os"
	"path/filepath"
	"sort"
	"strings"
	"sync"
)

// Mutation is one must-fail edit: a textual replacement in one repository file.
type Mutation struct {
	Name    string   `json:"name"`
	File    string   `json:"file"`
	Find    string   `json:"find"`
	Replace string   `json:"replace"`
	Expect  []string `json:"expect"` // substrings of obligation names, at least one of which must fail
	Why     string   `json:"why"`
	Edits   []Edit   `json:"edits"` // several replacements (possibly in several files); used instead of File/Find/Replace
}

// Edit is one textual replacement of a multi-edit mutation.
type Edit struct {
	File    string `json:"file"`
	Find    string `json:"find"`
	Replace string `json:"replace"`
}

func loadMutations(verif, prop string) ([]Mutation, error) {
	files, _ := filepath.Glob(filepath.Join(verif, "selftest", prop, "*.json"))
	sort.Strings(files)
	var out []Mutation
	for _, f := range files {
		b, err := os.ReadFile(f)
		if err != nil {
			return nil, err
		}
		var ms []Mutation
		if err := json.Unmarshal(b, &ms); err != nil {
			var m Mutation
			if err2 := json.Unmarshal(b, &m); err2 != nil {
				return nil, fmt.Errorf("%s: %v", f, err)
			}
			ms = []Mutation{m}
		}
		for i := range ms {
			if ms[i].Name == "" {
				ms[i].Name = fmt.Sprintf("%s#%d", filepath.Base(f), i)
			}
		}
		out = append(out, ms...)
	}
	return out, nil
}

var selftestOnly string

func runSelftests(cfg *PropConfig, repo, verif, work string) ([]map[string]any, int) {
	muts, err := loadMutations(verif, cfg.ID)
	if err != nil {
		return []map[string]any{{"error": err.Error()}}, 1
	}
	if selftestOnly != "" {
		var keep []Mutation
		for _, m := range muts {
			if m.Name == selftestOnly {
				keep = append(keep, m)
			}
		}
		muts = keep
	}
	results := make([]map[string]any, len(muts))
	bad := 0
	var mu sync.Mutex
	var wg sync.WaitGroup
	sem := make(chan struct{}, 3)
	for i, m := range muts {
		wg.Add(1)
		sem <- struct{}{}
		go func(i int, m Mutation) {
			defer wg.Done()
			defer func() { <-sem }()
			res := map[string]any{"mutation": m.Name, "file": m.File, "why": m.Why}
			edits := m.Edits
			if len(edits) == 0 {
				edits = []Edit{{File: m.File, Find: m.Find, Replace: m.Replace}}
			}
			overlay := map[string][]byte{}
			stale := ""
			for _, e := range edits {
				path := filepath.Join(repo, e.File)
				src, ok := overlay[path]
				if !ok {
					b, err := os.ReadFile(path)
					if err != nil {
						stale = "stale: " + err.Error()
						break
					}
					src = b
				}
				if n := strings.Count(string(src), e.Find); n != 1 {
					stale = fmt.Sprintf("stale: pattern occurs %d times in current %s", n, e.File)
					break
				}
				overlay[path] = []byte(strings.Replace(string(src), e.Find, e.Replace, 1))
			}
			if stale != "" {
				res["status"] = stale
				mu.Lock()
				results[i] = res
				bad++
				mu.Unlock()
				return
			}
			rr := runProp(cfg, repo, verif, overlay, filepath.Join(work, sanitize(m.Name)), 10, false)
			if rr.err != nil {
				res["status"] = "patched source does not load: " + rr.err.Error()
				mu.Lock()
				results[i] = res
				bad++
				mu.Unlock()
				return
			}
			var failed []string
			for _, ob := range rr.obs {
				if ob.Cover {
					// a refuted cover (a `possible at` claim, or a precondition/invariant that became
					// unsatisfiable) is a violation in the check, so it is a detection here
					if ob.Result != "sat" && ob.Result != "unknown" && ob.Result != "timeout" {
						failed = append(failed, ob.Name+"=refuted("+ob.Result+")")
					}
					continue
				}
				if ob.Result != "unsat" {
					failed = append(failed, ob.Name+"="+ob.Result)
				}
			}
			if os.Getenv("GOVC_SELFTEST_REPLAY") != "" {
				tried := map[string]int{}
				var rep []string
				reproduced := map[string]bool{}
				for _, ob := range rr.obs {
					if ob.Cover || ob.Result == "unsat" || tried[ob.Fn] >= 3 || reproduced[ob.Fn] || (tried[ob.Fn] == 0 && len(tried) >= 4) {
						continue
					}
					tried[ob.Fn]++
					w := filepath.Join(work, sanitize(m.Name)+"-replay")
					rp, ok := replayObligation(rr.g, repo, w, cfg.ID, ob, w)
					if ok {
						reproduced[ob.Fn] = true
						if b, err := os.ReadFile(rp); err == nil {
							var mm struct {
								Replay *replayRecord `json:"replay"`
							}
							json.Unmarshal(b, &mm)
							if mm.Replay != nil {
								rep = append(rep, fmt.Sprintf("%s REPRODUCED with %s -> %v %s%v", ob.Name, strings.Join(mm.Replay.GoArgs, "; "), mm.Replay.Observed, mm.Replay.Verdict.Panic, mm.Replay.Verdict.Falsified))
							}
						}
					} else {
						rep = append(rep, ob.Name+" not reproduced")
					}
				}
				res["replay"] = rep
			}
			detected := len(failed) > 0
			if detected && len(m.Expect) > 0 {
				detected = false
				for _, f := range failed {
					for _, e := range m.Expect {
						if strings.Contains(f, e) {
							detected = true
						}
					}
				}
			}
			if len(failed) > 8 {
				failed = append(failed[:8], fmt.Sprintf("... %d more", len(failed)-8))
			}
			res["failed_obligations"] = failed
			if detected {
				res["status"] = "detected"
			} else {
				res["status"] = "MISSED"
				mu.Lock()
				bad++
				mu.Unlock()
			}
			mu.Lock()
			results[i] = res
			mu.Unlock()
		}(i, m)
	}
	wg.Wait()
	os.RemoveAll(work)
	return results, bad
}

func cmdSelftest(args []string) int {
	fs := flag.NewFlagSet("selftest", flag.ExitOnError)
	repo := fs.String("repo", "/repo", "")
	verif := fs.String("verif", "/verif", "")
	prop := fs.String("prop", "", "")
	only := fs.String("only", "", "run only the mutation with this name")
	fs.Parse(args)
	selftestOnly = *only
	cfg, err := loadProp(*verif, *prop)
	if err != nil {
		fmt.Fprintln(os.Stderr, err)
		return 2
	}
	res, bad := runSelftests(cfg, *repo, *verif, filepath.Join(*verif, ".work", *prop+"-selftest"))
	for _, r := range res {
		fmt.Printf("%-10v %-40v %v\n", r["status"], r["mutation"], r["failed_obligations"])
		if rep, ok := r["replay"].([]string); ok {
			for _, x := range rep {
				fmt.Printf("           replay: %s\n", x)
			}
		}
	}
	if bad > 0 {
		return 1
	}
	return 0
}
