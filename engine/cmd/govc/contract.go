package main

import (
	"bufio"
	"fmt"
	"os"
	"regexp"
	"strconv"
	"strings"
)

// Clause is one parsed contract clause with its source text kept for evidence.
type Clause struct {
	Text string
	E    Expr
	File string
	Line int
	Pkg  string // package in whose scope type names of this clause resolve (set for named frames)
	// Defines: a `defines` clause. It NAMES the value computed by a pure scalar body with an uninterpreted function
	// (result == f(args)); exported to callers like an ensures, but discharged on the function itself by the syntactic
	// obligation #frame.defines (the body is a deterministic function of exactly the listed inputs), not by a solver.
	Defines bool
}

type LoopSpec struct {
	Invariants []Clause
	Decreases  *Clause
	Unroll     int
}

type AssertAt struct {
	Anchor string // e.g. "call (*Chain).Next#1", "store CacheEntry.ttl#1", "return#2"
	Clause
	Possible bool // "possible at <anchor>: expr": the point must stay REACHABLE with expr true (a cover; refuted => violation)
}

type Param struct{ Name, Type string }

type FuncContract struct {
	Name      string // canonical ssa function string
	Short     string
	Pkg       string // package path the contract was declared in ("" for assumed files)
	File      string
	Line      int
	Arith     string // "int" | "bv" | ""
	Requires  []Clause
	Ensures   []Clause
	Modifies  []Clause // each an lvalue expression; "nothing"/"*" handled by flags
	ModNone   bool
	ModAll    bool
	HasMod    bool
	Loops     map[int]*LoopSpec
	Asserts   []AssertAt
	Assumes   []AssertAt // explicit, listed assumptions at anchors (after call ...)
	NoPanic   bool
	Trusted   bool // contract assumed, body not verified
	NoSafety  map[string]bool
	Abstract  bool // abstracting tier: only "assert at" + safety subset
	Ghosts    []string
	Params    []string // optional explicit param names for trusted externals
	Notes     []string
	Bounded   string
	Opaque    []string // callee names whose contract is ignored (havoc)
	// ReadsGlobals: a frame condition on READS. When set, the function body (closures excluded) may mention only the
	// listed package-level variables; any other is reported. "readsglobals" alone allows none.
	ReadsGlobalsSet bool
	ReadsGlobals    []string
	Timeout   int
	Uses      []string
}

type SpecDef struct {
	Name    string
	Pkg     string
	Params  []Param
	RetType string
	Body    Expr
	Text    string
	Rec     bool
	Uninterp bool
	File    string
	Line    int
}

type LemmaDef struct {
	Name   string
	Pkg    string
	Arith  string
	Vars   []Param
	Clause Clause
	Axiom  bool
	File   string
	Line   int
	Uses   []string
	Trigs  [][]Expr
	Global bool // assumed in every function (axioms of the assumed model only)
}

type AtomicInv struct {
	Pkg, Loc string
	Var      string
	Clause   Clause
}

type ContractSet struct {
	Funcs   map[string]*FuncContract
	Specs   map[string][]*SpecDef
	Lemmas  []*LemmaDef
	Atomics []*AtomicInv
	Frames  map[string][]Clause // named frame sets: //@ frame name := L, L, ...
	assumedFile bool
	assumedMode bool
}

func newContractSet() *ContractSet {
	return &ContractSet{Funcs: map[string]*FuncContract{}, Specs: map[string][]*SpecDef{}, Frames: map[string][]Clause{}}
}

var blockKw = map[string]bool{"frame": true, "func": true, "spec": true, "pred": true, "lemma": true, "axiom": true, "atomic": true, "recspec": true, "uninterp": true}
var clauseKw = map[string]bool{"requires": true, "ensures": true, "modifies": true, "loop": true, "assert": true, "possible": true,
	"assume": true, "arith": true, "nopanic": true, "trusted": true, "abstract": true, "note": true, "nosafety": true, "params": true, "bounded": true, "opaque": true, "timeout": true, "uses": true, "readsglobals": true, "defines": true}

type rawLine struct {
	text string
	line int
}

// expandFuncName turns a short in-package name into ssa.Function.String() form.
//   compile            -> pkg.compile
//   (*Set).Contains    -> (*pkg.Set).Contains
//   (u128).lessEq      -> (pkg.u128).lessEq
//   compile$1          -> pkg.compile$1
func expandFuncName(short, pkg string) string {
	if strings.HasPrefix(short, "param ") {
		rest := strings.TrimPrefix(short, "param ")
		if pkg == "" || strings.Contains(rest, "/") {
			return short
		}
		return "param " + pkg + "." + rest
	}
	if strings.HasPrefix(short, "field ") {
		rest := strings.TrimPrefix(short, "field ")
		if pkg == "" || strings.Contains(rest, "/") {
			return short
		}
		return "field " + pkg + "." + rest
	}
	if pkg == "" || strings.Contains(short, "/") {
		return short
	}
	if strings.HasPrefix(short, "(") {
		i := strings.Index(short, ")")
		recv := short[1:i]
		star := ""
		if strings.HasPrefix(recv, "*") {
			star = "*"
			recv = recv[1:]
		}
		if strings.HasPrefix(recv, "interface{") {
			return short
		}
		if strings.Contains(recv, ".") && !strings.Contains(recv, "[") {
			return short
		}
		return "(" + star + pkg + "." + recv + ")" + short[i+1:]
	}
	if strings.Contains(short, ".") && !strings.Contains(short, "$") {
		return short // already qualified e.g. sort.Slice
	}
	return pkg + "." + short
}

var loopRe = regexp.MustCompile(`^(\d+)\s+(invariant|decreases|unroll)\s*(.*)$`)
var specRe = regexp.MustCompile(`^([A-Za-z_][A-Za-z0-9_]*)\s*\(([^)]*)\)\s*([^:]*?)\s*:=\s*(.*)$`)
var uninterpRe = regexp.MustCompile(`^([A-Za-z_][A-Za-z0-9_]*)\s*\(([^)]*)\)\s*(.*)$`)

func parseParams(s string) ([]Param, error) {
	var ps []Param
	s = strings.TrimSpace(s)
	if s == "" {
		return nil, nil
	}
	for _, part := range splitTop(s) {
		f := strings.Fields(strings.TrimSpace(part))
		if len(f) < 2 {
			return nil, fmt.Errorf("bad parameter %q (want 'name type')", part)
		}
		ps = append(ps, Param{f[0], strings.Join(f[1:], " ")})
	}
	return ps, nil
}

func (cs *ContractSet) parseFile(path, pkg string) error {
	f, err := os.Open(path)
	if err != nil {
		return err
	}
	defer f.Close()
	sc := bufio.NewScanner(f)
	sc.Buffer(make([]byte, 1<<20), 1<<20)
	var blocks [][]rawLine
	ln := 0
	for sc.Scan() {
		ln++
		t := sc.Text()
		tt := strings.TrimSpace(t)
		if !strings.HasPrefix(tt, "//@") {
			continue
		}
		body := strings.TrimPrefix(tt, "//@")
		if strings.TrimSpace(body) == "" {
			continue
		}
		if strings.HasPrefix(strings.TrimSpace(body), "#") { // comment inside contract block
			continue
		}
		if f := strings.Fields(body); f[0] == "pkg" && len(f) == 2 {
			pkg = f[1]
			cs.assumedFile = true
			blocks = append(blocks, []rawLine{{"pkg " + pkg, ln}})
			continue
		}
		first := strings.Fields(body)[0]
		indent := len(body) - len(strings.TrimLeft(body, " \t"))
		if blockKw[first] && indent <= 1 {
			blocks = append(blocks, []rawLine{{strings.TrimSpace(body), ln}})
			continue
		}
		if len(blocks) == 0 {
			return fmt.Errorf("%s:%d: clause outside block", path, ln)
		}
		blocks[len(blocks)-1] = append(blocks[len(blocks)-1], rawLine{strings.TrimSpace(body), ln})
	}
	curPkg := pkg
	for _, b := range blocks {
		if strings.HasPrefix(b[0].text, "pkg ") {
			curPkg = strings.TrimPrefix(b[0].text, "pkg ")
			continue
		}
		if err := cs.parseBlock(b, path, curPkg); err != nil {
			return err
		}
	}
	return nil
}

func joinClauses(lines []rawLine) []rawLine {
	var out []rawLine
	for _, l := range lines {
		w := strings.Fields(l.text)[0]
		if clauseKw[w] || len(out) == 0 {
			out = append(out, l)
		} else {
			out[len(out)-1].text += " " + l.text
		}
	}
	return out
}

func mkClause(text, file string, line int) (Clause, error) {
	e, err := parseExpr(text)
	if err != nil {
		return Clause{}, fmt.Errorf("%s:%d: %v", file, line, err)
	}
	return Clause{Text: text, E: e, File: file, Line: line}, nil
}

func (cs *ContractSet) parseBlock(b []rawLine, file, pkg string) error {
	head := b[0]
	kw := strings.Fields(head.text)[0]
	rest := strings.TrimSpace(strings.TrimPrefix(head.text, kw))
	switch kw {
	case "func":
		fc := &FuncContract{Short: rest, Pkg: pkg, File: file, Line: head.line, Loops: map[int]*LoopSpec{}, NoSafety: map[string]bool{}}
		fc.Name = expandFuncName(rest, pkg)
		if _, dup := cs.Funcs[fc.Name]; dup {
			return fmt.Errorf("%s:%d: duplicate contract for %s", file, head.line, fc.Name)
		}
		for _, l := range joinClauses(b[1:]) {
			w := strings.Fields(l.text)[0]
			arg := strings.TrimSpace(strings.TrimPrefix(l.text, w))
			switch w {
			case "requires", "ensures", "defines":
				c, err := mkClause(arg, file, l.line)
				if err != nil {
					return err
				}
				c.Defines = w == "defines"
				if w == "requires" {
					fc.Requires = append(fc.Requires, c)
				} else {
					fc.Ensures = append(fc.Ensures, c)
				}
			case "modifies":
				fc.HasMod = true
				for _, part := range splitTop(arg) {
					part = strings.TrimSpace(part)
					if part == "nothing" {
						fc.ModNone = true
						continue
					}
					if part == "*" {
						fc.ModAll = true
						continue
					}
					if fr, ok := cs.Frames[part]; ok {
						fc.Modifies = append(fc.Modifies, fr...)
						continue
					}
					c, err := mkClause(part, file, l.line)
					if err != nil {
						return err
					}
					fc.Modifies = append(fc.Modifies, c)
				}
			case "loop":
				m := loopRe.FindStringSubmatch(arg)
				if m == nil {
					return fmt.Errorf("%s:%d: bad loop clause", file, l.line)
				}
				n, _ := strconv.Atoi(m[1])
				ls := fc.Loops[n]
				if ls == nil {
					ls = &LoopSpec{}
					fc.Loops[n] = ls
				}
				switch m[2] {
				case "invariant":
					c, err := mkClause(m[3], file, l.line)
					if err != nil {
						return err
					}
					ls.Invariants = append(ls.Invariants, c)
				case "decreases":
					c, err := mkClause(m[3], file, l.line)
					if err != nil {
						return err
					}
					ls.Decreases = &c
				case "unroll":
					ls.Unroll, _ = strconv.Atoi(strings.TrimSpace(m[3]))
				}
			case "assert", "possible":
				// assert at <anchor>: expr
				if !strings.HasPrefix(arg, "at ") {
					return fmt.Errorf("%s:%d: assert needs 'at <anchor>:'", file, l.line)
				}
				a := strings.TrimPrefix(arg, "at ")
				i := strings.Index(a, ": ")
				if i < 0 {
					return fmt.Errorf("%s:%d: assert needs ': expr'", file, l.line)
				}
				c, err := mkClause(strings.TrimSpace(a[i+2:]), file, l.line)
				if err != nil {
					return err
				}
				fc.Asserts = append(fc.Asserts, AssertAt{Anchor: strings.TrimSpace(a[:i]), Clause: c, Possible: w == "possible"})
			case "assume":
				if !strings.HasPrefix(arg, "at ") {
					return fmt.Errorf("%s:%d: assume needs 'at <anchor>:'", file, l.line)
				}
				a := strings.TrimPrefix(arg, "at ")
				i := strings.Index(a, ": ")
				if i < 0 {
					return fmt.Errorf("%s:%d: assume needs ': expr'", file, l.line)
				}
				c, err := mkClause(strings.TrimSpace(a[i+2:]), file, l.line)
				if err != nil {
					return err
				}
				fc.Assumes = append(fc.Assumes, AssertAt{Anchor: strings.TrimSpace(a[:i]), Clause: c})
			case "arith":
				fc.Arith = arg
			case "nopanic":
				fc.NoPanic = true
			case "trusted":
				fc.Trusted = true
			case "abstract":
				fc.Abstract = true
			case "note":
				fc.Notes = append(fc.Notes, arg)
			case "nosafety":
				for _, k := range strings.Fields(arg) {
					fc.NoSafety[k] = true
				}
			case "params":
				fc.Params = strings.Fields(strings.ReplaceAll(arg, ",", " "))
			case "bounded":
				fc.Bounded = arg
			case "opaque":
				fc.Opaque = append(fc.Opaque, strings.Fields(arg)...)
			case "readsglobals":
				fc.ReadsGlobalsSet = true
				fc.ReadsGlobals = append(fc.ReadsGlobals, strings.Fields(arg)...)
			case "timeout":
				fc.Timeout, _ = strconv.Atoi(arg)
			case "uses":
				fc.Uses = append(fc.Uses, strings.Fields(arg)...)
			default:
				return fmt.Errorf("%s:%d: unknown clause %q", file, l.line, w)
			}
		}
		if cs.assumedMode {
			fc.Trusted = true
		}
		cs.Funcs[fc.Name] = fc
	case "frame":
		text := rest
		for _, l := range b[1:] {
			text += " " + l.text
		}
		i := strings.Index(text, ":=")
		if i < 0 {
			return fmt.Errorf("%s:%d: frame name := L, L, ...", file, head.line)
		}
		name := strings.TrimSpace(text[:i])
		var cls []Clause
		for _, part := range splitTop(text[i+2:]) {
			part = strings.TrimSpace(part)
			if fr, ok := cs.Frames[part]; ok {
				cls = append(cls, fr...)
				continue
			}
			c, err := mkClause(part, file, head.line)
			if err != nil {
				return err
			}
			c.Pkg = pkg
			cls = append(cls, c)
		}
		cs.Frames[name] = cls
	case "spec", "pred", "recspec":
		text := rest
		for _, l := range b[1:] {
			text += " " + l.text
		}
		var m []string
		if i := strings.Index(text, ":="); i >= 0 {
			if sg := splitSig(strings.TrimSpace(text[:i])); sg != nil {
				m = []string{text, sg[1], sg[2], sg[3], strings.TrimSpace(text[i+2:])}
			}
		}
		if m == nil {
			return fmt.Errorf("%s:%d: bad spec definition %q", file, head.line, text)
		}
		ps, err := parseParams(m[2])
		if err != nil {
			return fmt.Errorf("%s:%d: %v", file, head.line, err)
		}
		rt := strings.TrimSpace(m[3])
		if kw == "pred" || rt == "" {
			rt = "bool"
		}
		e, err := parseExpr(m[4])
		if err != nil {
			return fmt.Errorf("%s:%d: %v", file, head.line, err)
		}
		sd := &SpecDef{Name: m[1], Pkg: pkg, Params: ps, RetType: rt, Body: e, Text: m[4], Rec: kw == "recspec", File: file, Line: head.line}
		cs.Specs[sd.Name] = append(cs.Specs[sd.Name], sd)
	case "uninterp":
		m := splitSig(rest)
		if m == nil {
			return fmt.Errorf("%s:%d: bad uninterp", file, head.line)
		}
		ps, err := parseParams(m[2])
		if err != nil {
			return fmt.Errorf("%s:%d: %v", file, head.line, err)
		}
		sd := &SpecDef{Name: m[1], Pkg: pkg, Params: ps, RetType: strings.TrimSpace(m[3]), Uninterp: true, File: file, Line: head.line}
		cs.Specs[sd.Name] = append(cs.Specs[sd.Name], sd)
	case "lemma", "axiom":
		// lemma name [arith bv|int] (vars): expr
		text := rest
		var uses []string
		for _, l := range b[1:] {
			if strings.HasPrefix(l.text, "uses ") {
				uses = append(uses, strings.Fields(strings.TrimPrefix(l.text, "uses "))...)
				continue
			}
			text += " " + l.text
		}
		i := strings.Index(text, ":")
		if i < 0 {
			return fmt.Errorf("%s:%d: lemma needs ':'", file, head.line)
		}
		hd := strings.TrimSpace(text[:i])
		body := strings.TrimSpace(text[i+1:])
		ld := &LemmaDef{Pkg: pkg, Axiom: kw == "axiom", File: file, Line: head.line, Arith: "int", Uses: uses}
		if j := strings.Index(hd, "("); j >= 0 {
			k := strings.LastIndex(hd, ")")
			ps, err := parseParams(hd[j+1 : k])
			if err != nil {
				return fmt.Errorf("%s:%d: %v", file, head.line, err)
			}
			ld.Vars = ps
			hd = strings.TrimSpace(hd[:j])
		}
		hf := strings.Fields(hd)
		if len(hf) > 1 && hf[0] == "global" {
			ld.Global = true
			hf = hf[1:]
		}
		ld.Name = hf[0]
		if len(hf) == 3 && hf[1] == "arith" {
			ld.Arith = hf[2]
		}
		for strings.HasPrefix(body, "{") {
			k := strings.Index(body, "}")
			var tr []Expr
			for _, part := range splitTop(body[1:k]) {
				te, err := parseExpr(strings.TrimSpace(part))
				if err != nil {
					return fmt.Errorf("%s:%d: %v", file, head.line, err)
				}
				tr = append(tr, te)
			}
			ld.Trigs = append(ld.Trigs, tr)
			body = strings.TrimSpace(body[k+1:])
		}
		c, err := mkClause(body, file, head.line)
		if err != nil {
			return err
		}
		ld.Clause = c
		cs.Lemmas = append(cs.Lemmas, ld)
	case "atomic":
		// atomic T.f var v invariant E
		f := strings.Fields(rest)
		if len(f) < 4 || f[2] != "invariant" {
			return fmt.Errorf("%s:%d: atomic <T.f> <var> invariant <expr>", file, head.line)
		}
		text := strings.TrimSpace(strings.SplitN(rest, "invariant", 2)[1])
		for _, l := range b[1:] {
			text += " " + l.text
		}
		c, err := mkClause(text, file, head.line)
		if err != nil {
			return err
		}
		cs.Atomics = append(cs.Atomics, &AtomicInv{Pkg: pkg, Loc: f[0], Var: f[1], Clause: c})
	}
	return nil
}

// splitTop splits on commas not nested in brackets.
func splitTop(s string) []string {
	var out []string
	depth := 0
	last := 0
	for i, c := range s {
		switch c {
		case '(', '[', '{':
			depth++
		case ')', ']', '}':
			depth--
		case ',':
			if depth == 0 {
				out = append(out, s[last:i])
				last = i + 1
			}
		}
	}
	out = append(out, s[last:])
	return out
}

// splitSig splits "name(params) rettype" with balanced parentheses in params.
func splitSig(s string) []string {
	i := strings.Index(s, "(")
	if i <= 0 {
		return nil
	}
	d := 0
	for j := i; j < len(s); j++ {
		switch s[j] {
		case '(':
			d++
		case ')':
			d--
			if d == 0 {
				return []string{s, strings.TrimSpace(s[:i]), s[i+1 : j], strings.TrimSpace(s[j+1:])}
			}
		}
	}
	return nil
}
