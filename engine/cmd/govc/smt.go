package main

import (
	"fmt"
	"regexp"
	"go/types"
	"math/big"
	"strings"
)

type Mode int

const (
	ModeInt Mode = iota
	ModeBV
)

func (m Mode) String() string {
	if m == ModeBV {
		return "bv"
	}
	return "int"
}

// intInfo describes a Go integer type.
type intInfo struct {
	bits   int
	signed bool
}

func intInfoOf(t types.Type) (intInfo, bool) {
	b, ok := t.Underlying().(*types.Basic)
	if !ok {
		return intInfo{}, false
	}
	switch b.Kind() {
	case types.Int8:
		return intInfo{8, true}, true
	case types.Int16:
		return intInfo{16, true}, true
	case types.Int32:
		return intInfo{32, true}, true
	case types.Int64, types.Int:
		return intInfo{64, true}, true
	case types.Uint8:
		return intInfo{8, false}, true
	case types.Uint16:
		return intInfo{16, false}, true
	case types.Uint32:
		return intInfo{32, false}, true
	case types.Uint64, types.Uint, types.Uintptr:
		return intInfo{64, false}, true
	case types.UntypedInt, types.UntypedRune:
		return intInfo{64, true}, true
	}
	return intInfo{}, false
}

func (ii intInfo) min() *big.Int {
	if !ii.signed {
		return big.NewInt(0)
	}
	x := new(big.Int).Lsh(big.NewInt(1), uint(ii.bits-1))
	return x.Neg(x)
}

func (ii intInfo) max() *big.Int {
	n := ii.bits
	if ii.signed {
		n--
	}
	x := new(big.Int).Lsh(big.NewInt(1), uint(n))
	return x.Sub(x, big.NewInt(1))
}

func smtInt(n *big.Int) string {
	if n.Sign() < 0 {
		return "(- " + new(big.Int).Neg(n).String() + ")"
	}
	return n.String()
}

func smtBV(n *big.Int, bits int) string {
	m := new(big.Int).Lsh(big.NewInt(1), uint(bits))
	v := new(big.Int).Mod(n, m)
	return fmt.Sprintf("(_ bv%s %d)", v.String(), bits)
}

func (m Mode) intSort(bits int) string {
	if m == ModeBV {
		return fmt.Sprintf("(_ BitVec %d)", bits)
	}
	return "Int"
}

// idx sort: sort of Go int (indices, lengths).
func (m Mode) idxSort() string { return m.intSort(64) }

func (m Mode) lit(n *big.Int, ii intInfo) string {
	if m == ModeBV {
		return smtBV(n, ii.bits)
	}
	return smtInt(n)
}

func (m Mode) idxLit(n int64) string { return m.lit(big.NewInt(n), intInfo{64, true}) }

func and(xs ...string) string {
	var ys []string
	for _, x := range xs {
		if x == "true" || x == "" {
			continue
		}
		if x == "false" {
			return "false"
		}
		ys = append(ys, x)
	}
	switch len(ys) {
	case 0:
		return "true"
	case 1:
		return ys[0]
	}
	return "(and " + strings.Join(ys, " ") + ")"
}

func or(xs ...string) string {
	var ys []string
	for _, x := range xs {
		if x == "false" || x == "" {
			continue
		}
		if x == "true" {
			return "true"
		}
		ys = append(ys, x)
	}
	switch len(ys) {
	case 0:
		return "false"
	case 1:
		return ys[0]
	}
	return "(or " + strings.Join(ys, " ") + ")"
}

func not(x string) string {
	switch x {
	case "true":
		return "false"
	case "false":
		return "true"
	}
	if strings.HasPrefix(x, "(not ") && balanced(x[5:len(x)-1]) {
		return x[5 : len(x)-1]
	}
	return "(not " + x + ")"
}

func balanced(s string) bool {
	d := 0
	inq := false
	for _, c := range s {
		if c == '|' {
			inq = !inq
		}
		if inq {
			continue
		}
		if c == '(' {
			d++
		} else if c == ')' {
			d--
			if d < 0 {
				return false
			}
		}
	}
	return d == 0
}

func implies(a, b string) string {
	if a == "true" {
		return b
	}
	if b == "true" || a == "false" {
		return "true"
	}
	return "(=> " + a + " " + b + ")"
}

func ite(c, a, b string) string {
	if c == "true" {
		return a
	}
	if c == "false" {
		return b
	}
	if a == b {
		return a
	}
	return "(ite " + c + " " + a + " " + b + ")"
}

func eq(a, b string) string {
	if a == b {
		return "true"
	}
	return "(= " + a + " " + b + ")"
}

func sel(arr, i string) string     { return "(select " + arr + " " + i + ")" }
func sto(arr, i, v string) string  { return "(store " + arr + " " + i + " " + v + ")" }
func app(f string, a ...string) string {
	if len(a) == 0 {
		return f
	}
	return "(" + f + " " + strings.Join(a, " ") + ")"
}

// quote an SMT symbol.
func sym(s string) string {
	simple := true
	for _, c := range s {
		if !(c >= 'a' && c <= 'z' || c >= 'A' && c <= 'Z' || c >= '0' && c <= '9' || c == '_' || c == '!' || c == '.' || c == '$' || c == '@') {
			simple = false
			break
		}
	}
	if simple && len(s) > 0 && !(s[0] >= '0' && s[0] <= '9') {
		return s
	}
	s = strings.ReplaceAll(s, "|", "!")
	s = strings.ReplaceAll(s, "\\", "!")
	return "|" + s + "|"
}

// prelude emitted at the top of every script.
func prelude(m Mode) string {
	I := m.idxSort()
	var sb strings.Builder
	sb.WriteString("(set-option :produce-models true)\n(set-logic ALL)\n")
	fmt.Fprintf(&sb, "(declare-datatypes ((Slice 0)) (((mk_slice (s_reg Int) (s_off %s) (s_len %s) (s_cap %s)))))\n", I, I, I)
	fmt.Fprintf(&sb, "(declare-fun elt (Int %s) Int)\n(declare-fun elt_r (Int) Int)\n(declare-fun elt_i (Int) %s)\n", I, I)
	fmt.Fprintf(&sb, "(assert (forall ((r Int) (i %s)) (! (and (= (elt_r (elt r i)) r) (= (elt_i (elt r i)) i) (not (= (elt r i) 0))) :pattern ((elt r i)))))\n", I)
	plus := "+"
	if m == ModeBV {
		plus = "bvadd"
	}
	fmt.Fprintf(&sb, "(declare-fun spos (Slice %s) %s)\n(assert (forall ((s Slice) (i %s)) (! (= (spos s i) (%s (s_off s) i)) :pattern ((spos s i)))))\n", I, I, I, plus)
	if m == ModeInt {
		sb.WriteString("(define-fun tdiv ((x Int) (y Int)) Int (ite (>= x 0) (ite (> y 0) (div x y) (- (div x (- y)))) (ite (> y 0) (- (div (- x) y)) (div (- x) (- y)))))\n")
		sb.WriteString("(define-fun tmod ((x Int) (y Int)) Int (- x (* y (tdiv x y))))\n")
	}
	return sb.String()
}

// typeName gives a short stable name for a Go type used in SMT symbols.
var byteWordRe = regexp.MustCompile(`\bbyte\b`)
var runeWordRe = regexp.MustCompile(`\brune\b`)

func typeName(t types.Type) string {
	if b, ok := t.(*types.Basic); ok {
		switch b.Kind() {
		case types.Uint8:
			return "uint8" // byte is the same type
		case types.Int32:
			return "int32" // rune is the same type
		}
	}
	s := types.TypeString(t, func(p *types.Package) string {
		return strings.TrimPrefix(p.Path(), "github.com/semihalev/sdns/")
	})
	s = byteWordRe.ReplaceAllString(s, "uint8")
	s = runeWordRe.ReplaceAllString(s, "int32")
	return s
}
