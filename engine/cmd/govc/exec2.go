package main

import (
	"fmt"
	"go/ast"
	"go/token"
	"go/types"
	"strings"

	"golang.org/x/tools/go/ssa"
)

func exprIdentName(d *ssa.DebugRef) string {
	// the selector identifier of `x.f` is an identifier too, but it names a FIELD, not a variable: a contract
	// that says `zone` must never be resolved to the field `entry.zone`
	if v, ok := d.Object().(*types.Var); ok && v.IsField() {
		return ""
	}
	if id, ok := d.Expr.(*ast.Ident); ok {
		return id.Name
	}
	return ""
}

// allocRef creates a fresh non-nil reference distinct from every reference seen so far.
func (c *FnCtx) allocRef(comment string) string {
	c.nfresh++
	n := sym(fmt.Sprintf("alloc!%d", c.nfresh))
	c.decl("(declare-const " + n + " Int)")
	if c.discover {
		return n
	}
	facts := []string{"(> " + n + " 0)"}
	for _, a := range c.allocs {
		facts = append(facts, not(eq(n, a)))
	}
	for _, rv := range c.refVals {
		if strings.HasPrefix(rv.T, "alloc!") || strings.HasPrefix(rv.T, "|alloc!") {
			continue
		}
		facts = append(facts, not(eq(n, rv.T)))
	}
	// fresh refs are not slice-element addresses of pre-existing regions and are unknown to region functions
	facts = append(facts, "(< (elt_r "+n+") 0)")
	c.define(and(facts...))
	// nothing stored in the heap at this point refers to the fresh object
	for _, name := range heapNamesSorted(c.heap) {
		ty := c.heapTy[name]
		if ty == nil {
			continue
		}
		cur := c.heap[name]
		var ref func(v string) string
		switch u := ty.Underlying().(type) {
		case *types.Slice:
			ref = func(v string) string { return "(s_reg " + v + ")" }
		case *types.Pointer, *types.Map:
			ref = func(v string) string { return v }
		case *types.Basic:
			if u.Info()&types.IsString == 0 {
				continue
			}
			continue
		default:
			continue
		}
		if strings.HasPrefix(strings.Trim(name, "|"), "Elems ") {
			I := c.mode.idxSort()
			c.define("(forall ((x Int) (i " + I + ")) (! (not (= " + ref("(select (select "+cur+" x) i)") + " " + n + ")) :pattern ((select (select " + cur + " x) i))))")
		} else if strings.HasPrefix(strings.Trim(name, "|"), "H ") || strings.HasPrefix(strings.Trim(name, "|"), "Cell ") {
			c.define("(forall ((x Int)) (! (not (= " + ref("(select "+cur+" x)") + " " + n + ")) :pattern ((select " + cur + " x))))")
		}
	}
	c.allocs = append(c.allocs, n)
	return n
}

func (c *FnCtx) exec(in ssa.Instruction) {
	if c.reach == "false" && !c.discover {
		// still define values to keep the environment total
	}
	switch in := in.(type) {
	case *ssa.DebugRef:
		return
	case *ssa.Alloc:
		t := in.Type().Underlying().(*types.Pointer).Elem()
		r := c.allocRef(in.Comment)
		c.setVal(in, Val{T: r, Ty: in.Type()})
		c.allocOf[r] = in
		if allocIsLocal(in, 0) {
			c.localCells = append(c.localCells, r)
		} else if len(c.inlineStack) == 0 {
			if esc, ok := allocEscapes(in, 0); ok && len(esc) > 0 {
				c.condCells = append(c.condCells, condCell{term: r, escapes: esc})
			}
		}
		// zero-initialise
		c.storeLoc(c.cellLoc(r, t), c.zero(t))
		return
	case *ssa.Store:
		p := c.val(in.Addr)
		v := c.val(in.Val)
		c.refuseAbsPtr(p)
		if len(v.Path) > 0 {
			// a local variable assigned exactly once and only read afterwards (also by closures) may hold an
			// interior pointer: its value is tracked outside the heap model
			if a, ok := in.Addr.(*ssa.Alloc); ok && singleAssignCell(a, in) {
				if c.interiorCell == nil {
					c.interiorCell = map[*ssa.Alloc]interiorVal{}
				}
				c.interiorCell[a] = interiorVal{v: v, store: in}
				return
			}
			c.unsup("interior pointer stored to memory: %s (value %s)", in, in.Val.Name())
		}
		c.nilCheck(p, true, "store")
		l := c.resolve(p)
		c.storeAnchor(in, p, l, v)
		c.frameCheck(p, l)
		c.storeLoc(l, v.T)
		return
	case *ssa.If, *ssa.Jump:
		return
	case *ssa.Return:
		c.doReturn(in)
		return
	case *ssa.Panic:
		if c.fc != nil && c.fc.NoPanic {
			c.check(fmt.Sprintf("nopanic:%d", c.ordinal("panic")), "explicit panic unreachable", "false")
		}
		return
	case *ssa.Call:
		c.doCall(in, &in.Call, in)
		return
	case *ssa.Defer:
		c.doDefer(in)
		return
	case *ssa.RunDefers:
		c.runDefers()
		return
	case *ssa.Go:
		c.doGo(in)
		return
	case *ssa.MapUpdate:
		c.mapUpdate(in)
		return
	case *ssa.MakeSlice:
		c.makeSlice(in)
		return
	case *ssa.MakeMap:
		r := c.allocRef("map")
		mt := in.Type()
		has, ln := c.mapHasHeap(mt), c.mapLenHeap(mt)
		c.mapValHeap(mt)
		ks := c.sortOf(mt.Underlying().(*types.Map).Key())
		c.setHeap(has, sto(c.heap[has], r, "((as const (Array "+ks+" Bool)) false)"))
		c.setHeap(ln, sto(c.heap[ln], r, c.mode.idxLit(0)))
		c.setVal(in, Val{T: r, Ty: mt})
		return
	case *ssa.MakeClosure:
		r := c.allocRef("closure")
		c.setVal(in, Val{T: r, Ty: in.Type()})
		c.closures[in] = in
		return
	case *ssa.MakeChan:
		c.setVal(in, Val{T: c.allocRef("chan"), Ty: in.Type()})
		return
	case *ssa.TypeAssert:
		c.typeAssert(in)
		return
	case *ssa.Range:
		c.rangeInit(in)
		return
	case *ssa.Next:
		c.rangeNext(in)
		return
	case *ssa.Select:
		c.doSelect(in)
		return
	case *ssa.Send:
		c.concurrent("channel send")
		return
	case *ssa.Convert:
		// string -> []byte allocates
		if v, ok := c.evalInstr(in, c.val, c.heap, true); ok {
			c.setVal(in, v)
			return
		}
		c.stringToBytes(in)
		return
	}
	if u, isUn := in.(*ssa.UnOp); isUn && u.Op == token.MUL {
		if a, isAlloc := u.X.(*ssa.Alloc); isAlloc {
			if iv, ok := c.interiorCell[a]; ok {
				if !iv.store.Block().Dominates(c.curBlock) {
					c.unsup("interior pointer variable read where its assignment does not dominate")
				}
				c.setVal(u, iv.v)
				return
			}
		}
	}
	if v, ok := in.(ssa.Value); ok {
		if u, isUn := in.(*ssa.UnOp); isUn && u.Op.String() == "<-" {
			c.concurrent("channel receive")
			r := c.havocVal(u.Type(), "recv")
			if u.CommaOk {
				tt := u.Type().(*types.Tuple)
				c.tuples[u] = []Val{c.havocVal(tt.At(0).Type(), "recv"), c.havocVal(tt.At(1).Type(), "recvok")}
				r = Val{T: "0", Ty: u.Type()}
			}
			c.vals[u] = r
			return
		}
		r, ok := c.evalInstr(v, c.val, c.heap, true)
		if !ok {
			c.unsup("instruction %T (%s)", in, in)
		}
		c.setVal(v, r)
		// values read from memory carry their type's range
		if u, isUn := in.(*ssa.UnOp); isUn && u.Op.String() == "*" {
			c.assume(c.typeFact(r.T, r.Ty))
			if gl, isGl := u.X.(*ssa.Global); isGl && c.g.sentinelError(gl) {
				// a package-level error value initialised once by errors.New / fmt.Errorf and never reassigned
				c.assume(not(eq(r.T, "0")))
				c.used["sentinel error variables (initialised by errors.New/fmt.Errorf in package init, never reassigned in their package) are non-nil"] = true
			}
		}
		return
	}
	c.unsup("instruction %T", in)
}

func (c *FnCtx) concurrent(what string) {
	c.sawConcurrency = true
	if !c.abstract {
		c.unsup("%s (function needs the abstracting tier)", what)
	}
}

func (c *FnCtx) havocVal(t types.Type, why string) Val {
	if tt, ok := t.(*types.Tuple); ok {
		_ = tt
		return Val{T: "0", Ty: t}
	}
	n := c.fresh("hv_"+why, c.sortOf(t))
	c.assume(c.typeFact(n, t))
	return Val{T: n, Ty: t}
}

// havocAll models a call with unknown effects: every heap array changes arbitrarily — except cells of
// local variables whose address never escapes to code outside this function (a callee cannot reach them).
func (c *FnCtx) havocAll() {
	pre := c.heap
	c.heap = c.heap.clone()
	for _, name := range heapNamesSorted(c.heap) {
		c.havocHeap(name)
	}
	if c.discover {
		return
	}
	for _, a := range c.stillLocalCells() {
		for _, name := range heapNamesSorted(c.heap) {
			n := strings.Trim(name, "|")
			if !(strings.HasPrefix(n, "H ") || strings.HasPrefix(n, "Cell ") || strings.HasPrefix(n, "Elems ")) {
				continue
			}
			old, cur := pre[name], c.heap[name]
			if old == cur {
				continue
			}
			c.define(eq(sel(cur, a), sel(old, a)))
			if kv, ok := c.known[old][a]; ok {
				if c.known[cur] == nil {
					c.known[cur] = map[string]string{}
				}
				c.known[cur][a] = kv
			}
			if kv, ok := c.known2[old][a]; ok {
				if c.known2[cur] == nil {
					c.known2[cur] = map[string]string{}
				}
				c.known2[cur][a] = kv
			}
		}
	}
}

// allocIsLocal: the address of this Alloc is only used for loads, stores and field/index addressing in this
// function, or captured by closures that are only called directly here and use it the same way.
func allocIsLocal(a ssa.Value, depth int) bool {
	if depth > 4 {
		return false
	}
	refs := a.Referrers()
	if refs == nil {
		return false
	}
	for _, r := range *refs {
		switch x := r.(type) {
		case *ssa.DebugRef:
		case *ssa.Store:
			if x.Val == a {
				return false
			}
		case *ssa.UnOp:
			if x.Op != token.MUL {
				return false
			}
		case *ssa.FieldAddr:
			if !allocIsLocal(x, depth+1) {
				return false
			}
		case *ssa.IndexAddr:
			if !allocIsLocal(x, depth+1) {
				return false
			}
		case *ssa.MakeClosure:
			// the closure must only be called directly, and its body must keep the variable local
			crefs := x.Referrers()
			if crefs == nil {
				return false
			}
			for _, cr := range *crefs {
				switch y := cr.(type) {
				case *ssa.DebugRef:
				case *ssa.Call:
					if y.Call.Value != ssa.Value(x) {
						return false
					}
				case *ssa.Defer:
					if y.Call.Value != ssa.Value(x) {
						return false
					}
				default:
					return false
				}
			}
			fn := x.Fn.(*ssa.Function)
			for i, b := range x.Bindings {
				if b == a {
					if !allocIsLocal(fn.FreeVars[i], depth+1) {
						return false
					}
				}
			}
		default:
			return false
		}
	}
	return true
}

func (c *FnCtx) makeSlice(in *ssa.MakeSlice) {
	ln := c.val(in.Len)
	cp := c.val(in.Cap)
	l := c.toIdx(ln.T, in.Len.Type())
	k := c.toIdx(cp.T, in.Cap.Type())
	z := c.mode.idxLit(0)
	c.check(fmt.Sprintf("safety.make:%d", c.ordinal("make")), "make: 0 <= len <= cap", and(c.idxLe(z, l), c.idxLe(l, k)))
	r := c.allocRef("makeslice")
	et := in.Type().Underlying().(*types.Slice).Elem()
	c.setVal(in, Val{T: "(mk_slice " + r + " " + z + " " + l + " " + k + ")", Ty: in.Type()})
	c.zeroRegion(r, et)
}

// zeroRegion states that a fresh region holds zero values.
func (c *FnCtx) zeroRegion(r string, et types.Type) {
	if isStruct(et) {
		st := et.Underlying().(*types.Struct)
		I := c.mode.idxSort()
		for i := 0; i < st.NumFields(); i++ {
			if isArray(st.Field(i).Type()) {
				continue
			}
			name := c.fieldHeap(et, i)
			if c.discover {
				c.havocHeap(name)
				continue
			}
			old := c.heap[name]
			n := c.fresh(strings.Trim(name, "|"), c.heapSort(name))
			zi := c.zero(st.Field(i).Type())
			c.define("(forall ((a Int)) (! (= (select " + n + " a) (ite (= (elt_r a) " + r + ") " + zi + " (select " + old + " a))) :pattern ((select " + n + " a))))")
			_ = I
			c.heap[name] = n
		}
		return
	}
	name := c.elemsHeap(et)
	c.setRegion(name, r, "((as const (Array "+c.mode.idxSort()+" "+c.sortOf(et)+")) "+c.zero(et)+")")
}

func (c *FnCtx) stringToBytes(in *ssa.Convert) {
	x := c.val(in.X)
	c.declStrings()
	r := c.allocRef("bytes")
	z := c.mode.idxLit(0)
	I := c.mode.idxSort()
	name := c.elemsHeap(types.Typ[types.Uint8])
	arr := c.fresh("bytesof", "(Array "+I+" "+c.byteSort()+")")
	c.define("(forall ((i " + I + ")) (! (=> (and " + c.idxLe(z, "i") + " " + c.idxLt("i", "(s_len "+x.T+")") + ") (= (select " + arr + " i) (sbyte " + x.T + " i))) :pattern ((select " + arr + " i))))")
	c.setRegion(name, r, arr)
	c.setVal(in, Val{T: "(mk_slice " + r + " " + z + " (s_len " + x.T + ") (s_len " + x.T + "))", Ty: in.Type()})
}

func (c *FnCtx) typeAssert(in *ssa.TypeAssert) {
	x := c.val(in.X)
	c.declIface()
	at := in.AssertedType
	var ok string
	var payload Val
	if _, isIface := at.Underlying().(*types.Interface); isIface {
		okc := c.fresh("implements", "Bool")
		ok = and(not(eq(x.T, "0")), okc)
		if it := at.Underlying().(*types.Interface); it.NumMethods() == 0 {
			ok = not(eq(x.T, "0"))
		}
		payload = Val{T: x.T, Ty: at}
	} else {
		ok = eq("(dyn_tag "+x.T+")", c.typeTag(at))
		switch at.Underlying().(type) {
		case *types.Pointer, *types.Map, *types.Chan, *types.Signature:
			payload = Val{T: "(dyn_ptr " + x.T + ")", Ty: at}
		default:
			u := sym("unbox " + typeName(at))
			f := sym("box " + typeName(at))
			c.decl("(declare-fun " + f + " (" + c.sortOf(at) + ") Int)")
			c.decl("(declare-fun " + u + " (Int) " + c.sortOf(at) + ")")
			c.decl("(assert (forall ((v " + c.sortOf(at) + ")) (! (= (" + u + " (" + f + " v)) v) :pattern ((" + f + " v)))))")
			payload = Val{T: "(" + u + " (dyn_ptr " + x.T + "))", Ty: at}
		}
	}
	if in.CommaOk {
		pv := Val{T: ite(ok, payload.T, c.zero(at)), Ty: at}
		c.tuples[in] = []Val{pv, {T: ok, Ty: types.Typ[types.Bool]}}
		c.vals[in] = Val{T: "0", Ty: in.Type()}
		return
	}
	c.check(fmt.Sprintf("safety.assertion:%d", c.ordinal("assertion")), "type assertion holds", ok)
	c.setVal(in, payload)
}

func (c *FnCtx) mapUpdate(in *ssa.MapUpdate) {
	m, k, v := c.val(in.Map), c.val(in.Key), c.val(in.Value)
	mt := in.Map.Type()
	c.check(fmt.Sprintf("safety.nil:%d", c.ordinal("nil")), "assignment to nil map", not(eq(m.T, "0")))
	key := c.mapKey(k, mt.Underlying().(*types.Map).Key())
	has, val, ln := c.mapHasHeap(mt), c.mapValHeap(mt), c.mapLenHeap(mt)
	c.mapStoreAnchor(in, m, key, v)
	hm := sel(c.heap[has], m.T)
	was := sel(hm, key)
	c.setHeap(ln, sto(c.heap[ln], m.T, ite(was, sel(c.heap[ln], m.T), c.idxAdd(sel(c.heap[ln], m.T), c.mode.idxLit(1)))))
	c.setHeap(has, sto(c.heap[has], m.T, sto(hm, key, "true")))
	c.setHeap(val, sto(c.heap[val], m.T, sto(sel(c.heap[val], m.T), key, v.T)))
}

// range over maps/strings: iteration order is abstract.
func (c *FnCtx) rangeInit(in *ssa.Range) {
	c.vals[in] = Val{T: "0", Ty: in.Type()}
}

func (c *FnCtx) rangeNext(in *ssa.Next) {
	tt := in.Type().(*types.Tuple)
	ok := c.fresh("next_ok", "Bool")
	rng := in.Iter.(*ssa.Range)
	vals := []Val{{T: ok, Ty: types.Typ[types.Bool]}}
	if in.IsString {
		c.declStrings()
		s := c.val(rng.X)
		i := c.havocVal(types.Typ[types.Int], "stridx")
		r := c.havocVal(types.Typ[types.Rune], "rune")
		c.assume(implies(ok, and(c.idxLe(c.mode.idxLit(0), i.T), c.idxLt(i.T, "(s_len "+s.T+")"))))
		vals = append(vals, i, r)
	} else {
		mt := rng.X.Type().Underlying().(*types.Map)
		m := c.val(rng.X)
		var k, v Val
		if tt.At(1).Type() != nil && !isInvalid(tt.At(1).Type()) {
			k = c.havocVal(mt.Key(), "mapkey")
		} else {
			k = c.havocVal(mt.Key(), "mapkey")
		}
		key := c.mapKey(k, mt.Key())
		has := sel(sel(c.heap[c.mapHasHeap(rng.X.Type())], m.T), key)
		c.assume(implies(ok, and(not(eq(m.T, "0")), has)))
		if b, isB := mt.Key().Underlying().(*types.Basic); isB && b.Info()&types.IsString != 0 {
			// iteration yields the canonical key
			c.assume(implies(ok, eq(k.T, key)))
		}
		v = Val{T: sel(sel(c.heap[c.mapValHeap(rng.X.Type())], m.T), key), Ty: mt.Elem()}
		vals = append(vals, k, v)
	}
	c.tuples[in] = vals
	c.vals[in] = Val{T: "0", Ty: in.Type()}
}

func isInvalid(t types.Type) bool {
	b, ok := t.(*types.Basic)
	return ok && b.Kind() == types.Invalid
}

func (c *FnCtx) doSelect(in *ssa.Select) {
	c.concurrent("select")
	// abstract: any case may fire; received values are arbitrary
	tt := in.Type().(*types.Tuple)
	var vals []Val
	for i := 0; i < tt.Len(); i++ {
		vals = append(vals, c.havocVal(tt.At(i).Type(), "select"))
	}
	c.tuples[in] = vals
	c.vals[in] = Val{T: "0", Ty: in.Type()}
	c.havocAll()
}

func (c *FnCtx) doGo(in *ssa.Go) {
	c.concurrent("go statement")
	c.goSeen = true
	// the spawned goroutine may write anything reachable: havoc the heap from here on
	c.havocAll()
}

func (c *FnCtx) doDefer(in *ssa.Defer) {
	c.deferred = append(c.deferred, in)
	// ghost counter deferred(<callee>): how many defer statements naming that callee have executed so far
	if name, _ := c.calleeName(&in.Call); name != "" {
		k := "deferred " + normAnchor(shortName(name))
		if c.watch[k] {
			cur, ok := c.ghost[k]
			if !ok {
				cur = Val{T: c.mode.idxLit(0), Ty: intTy}
			}
			c.setGhost(k, Val{T: c.idxAdd(cur.T, c.mode.idxLit(1)), Ty: intTy})
		}
	}
}

func (c *FnCtx) runDefers() {
	for i := len(c.deferred) - 1; i >= 0; i-- {
		d := c.deferred[i]
		// only defers that dominate the current block certainly run; others are approximated by havoc
		if d.Block().Dominates(c.curBlock) {
			c.doCall(nil, &d.Call, d)
		} else if d.Block() != c.curBlock && !c.blockReaches(d.Block(), c.curBlock) {
			// the defer statement cannot have executed on any path to this return
			continue
		} else {
			c.notes = append(c.notes, "conditional defer approximated by havoc")
			c.havocAll()
		}
	}
}

// doReturn checks postconditions.
func (c *FnCtx) doReturn(in *ssa.Return) {
	if len(c.inlineStack) > 0 {
		var rs []Val
		for _, r := range in.Results {
			rs = append(rs, c.val(r))
		}
		c.inlineRets = append(c.inlineRets, inlineRet{reach: c.reach, results: rs, heap: c.heap, ghost: c.ghost})
		return
	}
	c.retCount = c.retOrdOf[in]
	if c.fc == nil {
		return
	}
	env := c.postEnv(in.Results, c.heap)
	c.returnAnchor(in, env)
	for k, cl := range c.fc.Ensures {
		if cl.Defines {
			continue // discharged syntactically (#frame.defines)
		}
		kind := fmt.Sprintf("post:%d", k+1)
		if c.retCountTotal > 1 {
			kind = fmt.Sprintf("post:%d@return%d", k+1, c.retCount)
		}
		c.checkClause(kind, "ensures "+cl.Text, c.reach, env, cl)
	}
	c.finalFrame()
}

// postEnv: parameters denote entry values, result names the returned values.
func (c *FnCtx) postEnv(results []ssa.Value, h Heap) *Env {
	env := &Env{c: c, names: map[string]Val{}, heap: h, old: c.entry, pkg: c.pkg, what: "ensures of " + c.fn.Name()}
	for _, p := range c.fn.Params {
		env.names[p.Name()] = c.vals[p]
	}
	for _, fv := range c.fn.FreeVars {
		env.names[fv.Name()] = mkLoc(c.vals[fv])
	}
	sig := c.fn.Signature
	for i, r := range results {
		v := c.val(r)
		if len(results) == 1 {
			env.names["result"] = v
		}
		env.names[fmt.Sprintf("result%d", i)] = v
		if n := sig.Results().At(i).Name(); n != "" && n != "_" {
			if _, clash := env.names[n]; !clash {
				env.names[n] = v
			}
		}
	}
	return env
}

func (c *FnCtx) preEnv() *Env {
	env := &Env{c: c, names: map[string]Val{}, heap: c.heap, old: nil, pkg: c.pkg, what: "requires of " + c.fn.Name()}
	for _, p := range c.fn.Params {
		env.names[p.Name()] = c.vals[p]
	}
	for _, fv := range c.fn.FreeVars {
		env.names[fv.Name()] = mkLoc(c.vals[fv])
	}
	return env
}

// condCell is a local variable whose address does escape (captured by a goroutine or stored), but only at the
// listed instructions: until one of them can have executed, no other code can reach the cell.
type condCell struct {
	term    string
	escapes []ssa.Instruction
}

// stillLocalCells: cells no callee can reach at the current program point.
func (c *FnCtx) stillLocalCells() []string {
	out := append([]string{}, c.localCells...)
	if len(c.inlineStack) > 0 || c.curBlock == nil {
		return out
	}
	for _, cc := range c.condCells {
		if !c.mayHaveExecuted(cc.escapes, c.curBlock, c.curIdx) {
			out = append(out, cc.term)
		}
	}
	return out
}

// mayHaveExecuted: some instruction of es can have run before the point (b, idx) on some path.
func (c *FnCtx) mayHaveExecuted(es []ssa.Instruction, b *ssa.BasicBlock, idx int) bool {
	for _, e := range es {
		eb := e.Block()
		if eb == nil || eb.Parent() != b.Parent() {
			return true
		}
		if eb == b {
			for i, in := range b.Instrs {
				if in == e && i < idx {
					return true
				}
			}
		}
		if c.blockReaches(eb, b) {
			return true
		}
	}
	return false
}

// blockReaches: there is a path of at least one edge from a to b.
func (c *FnCtx) blockReaches(a, b *ssa.BasicBlock) bool {
	if c.reachMemo == nil {
		c.reachMemo = map[*ssa.BasicBlock]map[*ssa.BasicBlock]bool{}
	}
	m, ok := c.reachMemo[a]
	if !ok {
		m = map[*ssa.BasicBlock]bool{}
		work := append([]*ssa.BasicBlock{}, a.Succs...)
		for len(work) > 0 {
			x := work[len(work)-1]
			work = work[:len(work)-1]
			if m[x] {
				continue
			}
			m[x] = true
			work = append(work, x.Succs...)
		}
		c.reachMemo[a] = m
	}
	return m[b]
}

// allocEscapes lists the instructions at which the address of a (or an interior pointer derived from it) leaves
// the load/store/addressing discipline. ok=false: cannot tell (treat as escaping from the start).
func allocEscapes(a ssa.Value, depth int) (esc []ssa.Instruction, ok bool) {
	if depth > 4 {
		return nil, false
	}
	refs := a.Referrers()
	if refs == nil {
		return nil, false
	}
	for _, r := range *refs {
		switch x := r.(type) {
		case *ssa.DebugRef:
		case *ssa.Store:
			if x.Val == a {
				esc = append(esc, x)
			}
		case *ssa.UnOp:
			if x.Op != token.MUL {
				esc = append(esc, x)
			}
		case *ssa.FieldAddr:
			e2, ok2 := allocEscapes(x, depth+1)
			if !ok2 {
				return nil, false
			}
			esc = append(esc, e2...)
		case *ssa.IndexAddr:
			e2, ok2 := allocEscapes(x, depth+1)
			if !ok2 {
				return nil, false
			}
			esc = append(esc, e2...)
		case *ssa.Phi:
			return nil, false
		case ssa.Instruction:
			// calls, closures, conversions, sends, ...: the address may be retained from here on
			esc = append(esc, x)
		default:
			return nil, false
		}
	}
	return esc, true
}

type interiorVal struct {
	v     Val
	store *ssa.Store
}

// singleAssignCell: the only store to the local variable a is st, and every other use is a load, a debug
// reference, or a capture by a closure that only loads it.
func singleAssignCell(a *ssa.Alloc, st *ssa.Store) bool {
	refs := a.Referrers()
	if refs == nil {
		return false
	}
	for _, r := range *refs {
		switch x := r.(type) {
		case *ssa.DebugRef:
		case *ssa.Store:
			if x != st || x.Val == ssa.Value(a) {
				return false
			}
		case *ssa.UnOp:
			if x.Op != token.MUL {
				return false
			}
		case *ssa.MakeClosure:
			fn, ok := x.Fn.(*ssa.Function)
			if !ok {
				return false
			}
			for i, b := range x.Bindings {
				if b != ssa.Value(a) {
					continue
				}
				frefs := fn.FreeVars[i].Referrers()
				if frefs == nil {
					return false
				}
				for _, fr := range *frefs {
					switch y := fr.(type) {
					case *ssa.DebugRef:
					case *ssa.UnOp:
						if y.Op != token.MUL {
							return false
						}
					default:
						return false
					}
				}
			}
		default:
			return false
		}
	}
	return true
}
