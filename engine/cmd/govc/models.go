package main

import (
	"fmt"
	"go/types"
	"strings"

	"golang.org/x/tools/go/ssa"
)

// sortSliceModel is the trusted model of sort.Slice(x, less): afterwards the slice holds the
// same set of elements, ordered so that less(b, a) is false for every a < b (less taken from the
// contract of the closure, which is itself verified against its body). Nothing outside the
// slice's elements changes.
func (c *FnCtx) sortSliceModel(cc *ssa.CallCommon) bool {
	mi, ok := cc.Args[0].(*ssa.MakeInterface)
	if !ok {
		return false
	}
	mc, ok := cc.Args[1].(*ssa.MakeClosure)
	if !ok {
		return false
	}
	st, ok := mi.X.Type().Underlying().(*types.Slice)
	if !ok {
		return false
	}
	lessFn := mc.Fn.(*ssa.Function)
	lfc := c.g.cs.Funcs[lessFn.String()]
	if lfc == nil {
		if c.abstract {
			// abstracting tier: the slice's elements become arbitrary
			c.havocSliceElems(c.val(mi.X), "", &Env{c: c})
			c.used["abstracting tier: sort.Slice with an uncontracted less closure leaves arbitrary elements"] = true
			return true
		}
		c.unsup("sort.Slice: the less closure %s has no contract", shortName(lessFn.String()))
	}
	c.used["model: sort.Slice leaves a permutation ordered by the (verified) contract of its less closure"] = true
	c.usedContracts[shortName(lessFn.String())] = true
	s := c.val(mi.X)
	et := st.Elem()
	I := c.mode.idxSort()
	z := c.mode.idxLit(0)
	n := "(s_len " + s.T + ")"
	pre := c.heap.clone()
	addr := func(i string) string { return "(elt (s_reg " + s.T + ") " + c.spos(s.T, i) + ")" }
	inRange := func(i string) string { return and(c.idxLe(z, i), c.idxLt(i, n)) }
	if c.discover {
		c.havocSliceElems(s, "", &Env{c: c})
		return true
	}
	var same func(newI, oldI string) string
	var patOld, patNew func(i string) string
	if isStruct(et) {
		su := et.Underlying().(*types.Struct)
		c.havocSliceElems(s, "", &Env{c: c})
		f0 := 0
		for isArray(su.Field(f0).Type()) {
			f0++
		}
		n0 := c.fieldHeap(et, f0)
		patOld = func(i string) string { return sel(pre[n0], addr(i)) }
		patNew = func(i string) string { return sel(c.heap[n0], addr(i)) }
		same = func(newI, oldI string) string {
			var eqs []string
			for f := 0; f < su.NumFields(); f++ {
				if isArray(su.Field(f).Type()) {
					continue
				}
				name := c.fieldHeap(et, f)
				eqs = append(eqs, eq(sel(c.heap[name], addr(newI)), sel(pre[name], addr(oldI))))
			}
			return and(eqs...)
		}
	} else {
		c.havocSliceElems(s, "", &Env{c: c})
		name := c.elemsHeap(et)
		patOld = func(i string) string { return sel(sel(pre[name], "(s_reg "+s.T+")"), c.spos(s.T, i)) }
		patNew = func(i string) string { return sel(sel(c.heap[name], "(s_reg "+s.T+")"), c.spos(s.T, i)) }
		same = func(newI, oldI string) string {
			return eq(sel(sel(c.heap[name], "(s_reg "+s.T+")"), c.spos(s.T, newI)), sel(sel(pre[name], "(s_reg "+s.T+")"), c.spos(s.T, oldI)))
		}
	}
	// same set of elements, both directions, with explicit skolem functions
	c.nfresh++
	fwd := sym(fmt.Sprintf("sortfwd!%d", c.nfresh))
	bwd := sym(fmt.Sprintf("sortbwd!%d", c.nfresh))
	c.decl("(declare-fun " + fwd + " (" + I + ") " + I + ")")
	c.decl("(declare-fun " + bwd + " (" + I + ") " + I + ")")
	c.assume("(forall ((b " + I + ")) (! (=> " + inRange("b") + " (and " + inRange("("+fwd+" b)") + " " + same("("+fwd+" b)", "b") + ")) :pattern ((" + fwd + " b)) :pattern (" + patOld("b") + ")))")
	c.assume("(forall ((b " + I + ")) (! (=> " + inRange("b") + " (and " + inRange("("+bwd+" b)") + " " + same("b", "("+bwd+" b)") + ")) :pattern ((" + bwd + " b)) :pattern (" + patNew("b") + ")))")
	c.sortWitness = append(c.sortWitness, [2]string{fwd, bwd})
	// ordering from the closure's contract
	c.nfresh++
	qa, qb, qr := sym(fmt.Sprintf("sa!%d", c.nfresh)), sym(fmt.Sprintf("sb!%d", c.nfresh)), sym(fmt.Sprintf("sr!%d", c.nfresh))
	env := &Env{c: c, names: map[string]Val{}, heap: c.heap, old: pre, pkg: c.pkg, what: "less contract in sort.Slice model"}
	if len(lessFn.Params) != 2 {
		c.unsup("sort.Slice less with %d params", len(lessFn.Params))
	}
	env.names[lessFn.Params[0].Name()] = Val{T: qb, Ty: intTy}
	env.names[lessFn.Params[1].Name()] = Val{T: qa, Ty: intTy}
	env.names["result"] = Val{T: qr, Ty: boolTy}
	for i, fv := range lessFn.FreeVars {
		env.names[fv.Name()] = mkLoc(c.val(mc.Bindings[i]))
	}
	var posts []string
	for _, cl := range lfc.Ensures {
		posts = append(posts, c.trClause(env, cl))
	}
	c.assume("(forall ((" + qa + " " + I + ") (" + qb + " " + I + ") (" + qr + " Bool)) (=> (and " + inRange(qa) + " " + inRange(qb) + " " + c.idxLt(qa, qb) + " " + and(posts...) + ") (not " + qr + ")))")
	return true
}

func trimBars(s string) string { return strings.Trim(s, "|") }

// binaryAppendModel: (encoding/binary.bigEndian).AppendUint16/32/64(b, v) == append(b, big-endian bytes of v).
func (c *FnCtx) binaryAppendModel(name string, cc *ssa.CallCommon, args []Val) (Val, bool) {
	var n int
	switch name {
	case "(encoding/binary.bigEndian).AppendUint16":
		n = 2
	case "(encoding/binary.bigEndian).AppendUint32":
		n = 4
	case "(encoding/binary.bigEndian).AppendUint64":
		n = 8
	default:
		return Val{}, false
	}
	c.used["model: encoding/binary.BigEndian.AppendUintN(b, v) == append(b, bytes of v most significant first)"] = true
	b, v := args[1], args[2]
	var bytes []string
	for i := n - 1; i >= 0; i-- {
		if c.mode == ModeBV {
			bytes = append(bytes, fmt.Sprintf("((_ extract %d %d) %s)", 8*i+7, 8*i, v.T))
		} else {
			bytes = append(bytes, "(mod (div "+v.T+" "+smtInt(pow2(8*i))+") 256)")
		}
	}
	return c.appendBytes(cc, b, cc.Args[1].Type(), bytes), true
}
