package main

import (
	"go/token"
	"fmt"
	"go/types"
	"strings"

	"golang.org/x/tools/go/ssa"
)

// no-op models: locks, logging, metrics. Listed in evidence as assumptions when used.
var noopFuncs = map[string]string{
	"(*sync.Mutex).Lock": "lock", "(*sync.Mutex).Unlock": "lock", "(*sync.RWMutex).Lock": "lock", "(*sync.RWMutex).Unlock": "lock",
	"(*sync.RWMutex).RLock": "lock", "(*sync.RWMutex).RUnlock": "lock", "(*sync.Mutex).TryLock": "",
	"(*sync.WaitGroup).Add": "wg", "(*sync.WaitGroup).Done": "wg",
	"runtime.KeepAlive": "rt", "runtime.Gosched": "rt",
	"(*sync.Pool).Put": "pool",
}

func isNoopCallee(name string) (string, bool) {
	if k, ok := noopFuncs[name]; ok && k != "" {
		return k, true
	}
	if strings.HasPrefix(name, "github.com/semihalev/zlog/v2.") || strings.HasPrefix(name, "(*github.com/semihalev/zlog/v2.") {
		return "zlog", true
	}
	if strings.HasPrefix(name, "(*github.com/semihalev/sdns/internal/metric.") || strings.HasPrefix(name, "github.com/semihalev/sdns/internal/metric.") {
		return "metrics", true
	}
	if strings.HasPrefix(name, "(github.com/prometheus/client_golang/prometheus.") || strings.HasPrefix(name, "(*github.com/prometheus/client_golang/prometheus.") {
		return "metrics", true
	}
	return "", false
}

func (c *FnCtx) calleeName(cc *ssa.CallCommon) (string, *ssa.Function) {
	if cc.IsInvoke() {
		return "(" + shortTypeFull(cc.Value.Type()) + ")." + cc.Method.Name(), nil
	}
	// call through a function-typed struct field: named "field <T>.<f>" so a contract can be attached
	if u, ok := cc.Value.(*ssa.UnOp); ok && u.Op.String() == "*" {
		if fa, ok := u.X.(*ssa.FieldAddr); ok {
			if pt, ok := fa.X.Type().Underlying().(*types.Pointer); ok {
				if st, ok := pt.Elem().Underlying().(*types.Struct); ok {
					return "field " + shortTypeFull(pt.Elem()) + "." + st.Field(fa.Field).Name(), nil
				}
			}
		}
	}
	// call through a function-typed PARAMETER: named "param <func>.<param>"; `self` in its contract is the function value
	if pv, ok := cc.Value.(*ssa.Parameter); ok && !cc.IsInvoke() {
		if _, isSig := pv.Type().Underlying().(*types.Signature); isSig {
			return "param " + c.fn.String() + "." + pv.Name(), nil
		}
	}
	// call through a captured function value: when every closure-creation site of this function binds the same
	// free-variable-less function literal there, the call is static
	if fv, ok := cc.Value.(*ssa.FreeVar); ok && !cc.IsInvoke() {
		if target := c.freeVarFunc(fv); target != nil {
			return target.String(), target
		}
	}
	if u, ok := cc.Value.(*ssa.UnOp); ok && u.Op == token.MUL && !cc.IsInvoke() {
		if fv, ok := u.X.(*ssa.FreeVar); ok {
			if target := c.freeVarFunc(fv); target != nil {
				return target.String(), target
			}
		}
	}
	if fn := cc.StaticCallee(); fn != nil {
		name := fn.String()
		if fn.Origin() != nil {
			// instantiated generic: keep instantiated name
		}
		return name, fn
	}
	return "", nil
}

func shortTypeFull(t types.Type) string {
	return types.TypeString(t, func(p *types.Package) string { return p.Path() })
}

// doCall handles a call instruction. res is the value receiving the result (nil for defers).
func (c *FnCtx) doCall(res *ssa.Call, cc *ssa.CallCommon, site ssa.Instruction) {
	var resTy types.Type
	if res != nil {
		resTy = res.Type()
	} else {
		resTy = cc.Signature().Results()
	}
	var afterKey, lastRetKey, lastRetSite string
	var afterArgs []Val
	setRes := func(vs []Val) {
		if afterKey != "" {
			c.afterCallAnchor(afterKey, afterArgs, vs)
		}
		if lastRetKey != "" && len(vs) > 0 && c.watch[lastRetSite] {
			// lastret("callee#k"): result of the k-th call site (source order) of that callee
			c.setGhost(lastRetSite, vs[0])
			for i := 1; i < len(vs); i++ {
				c.setGhost(fmt.Sprintf("%s#%d", lastRetSite, i), vs[i])
			}
		}
		if lastRetKey != "" && len(vs) > 0 && c.watch[lastRetKey] {
			// ghost: first result of the most recent call to this callee on the current path
			c.setGhost(lastRetKey, vs[0])
			for i := 1; i < len(vs); i++ {
				c.setGhost(fmt.Sprintf("%s#%d", lastRetKey, i), vs[i])
			}
		}
		if res == nil {
			return
		}
		if tt, ok := resTy.(*types.Tuple); ok {
			if tt.Len() == 0 {
				c.vals[res] = Val{T: "0", Ty: resTy}
				return
			}
			c.tuples[res] = vs
			c.vals[res] = Val{T: "0", Ty: resTy}
			return
		}
		c.setVal(res, vs[0])
	}
	freshResults := func(why string) []Val {
		var out []Val
		if tt, ok := resTy.(*types.Tuple); ok {
			for i := 0; i < tt.Len(); i++ {
				out = append(out, c.havocVal(tt.At(i).Type(), why))
			}
			return out
		}
		return []Val{c.havocVal(resTy, why)}
	}

	// builtins
	if b, ok := cc.Value.(*ssa.Builtin); ok {
		c.builtin(res, b, cc, setRes, freshResults)
		return
	}
	name, fn := c.calleeName(cc)
	var args []Val
	if cc.IsInvoke() {
		args = append(args, c.val(cc.Value))
	}
	for _, a := range cc.Args {
		args = append(args, c.val(a))
	}
	ord := 0
	if name != "" {
		ord = c.callOrdOf[site]
		if ord == 0 {
			c.calleeOrd[shortName(name)]++
			ord = 1000 + c.calleeOrd[shortName(name)]
		}
	}
	c.callAnchor(site, name, ord, args)
	if name != "" {
		afterKey = fmt.Sprintf("after call %s#%d", shortName(name), ord)
		afterArgs = args
		lastRetKey = "lastret " + normAnchor(shortName(name))
		lastRetSite = fmt.Sprintf("%s@%d", lastRetKey, ord)
	}

	// trivial field-address accessors (e.g. func (rr *OPT) Header() *RR_Header { return &rr.Hdr }) are inlined
	if fn != nil && len(args) >= 1 {
		if fi, ok := fieldAddrAccessor(fn); ok {
			x := args[0]
			c.nilCheck(x, true, "accessor "+fn.Name())
			pt := fn.Params[0].Type().Underlying().(*types.Pointer)
			r := Val{T: x.T, Ty: fn.Signature.Results().At(0).Type(), BaseTy: x.BaseTy}
			if len(x.Path) == 0 {
				r.BaseTy = pt.Elem()
			}
			r.Path = append(append([]step{}, x.Path...), step{field: fi})
			setRes([]Val{r})
			return
		}
	}
	if k, ok := isNoopCallee(name); ok {
		c.used["model: "+k+" calls are no-ops on verified state"] = true
		setRes(freshResults("noop"))
		return
	}
	if c.atomicCall(name, cc, args, setRes) {
		return
	}
	if name == "sort.Slice" && c.sortSliceModel(cc) {
		setRes(nil)
		return
	}
	if v, ok := c.binaryAppendModel(name, cc, args); ok {
		setRes([]Val{v})
		return
	}
	// closure created in this function and called directly / passed along: calling a closure
	if fn == nil && !cc.IsInvoke() {
		if mc, ok := cc.Value.(*ssa.MakeClosure); ok {
			fn = mc.Fn.(*ssa.Function)
			name = fn.String()
			_ = mc
		}
	}
	var fc *FuncContract
	if name != "" {
		fc = c.g.contractFor(name, fn)
		if fc != nil && c.fc != nil {
			for _, o := range c.fc.Opaque {
				if fc != nil && (o == fc.Short || o == shortName(name)) {
					fc = nil
				}
			}
		}
	}
	if fc != nil {
		vs := c.applyContract(fc, fn, cc, args, resTy, name, ord)
		setRes(vs)
		return
	}
	if fn != nil && c.canInline(fn) {
		if vs, ok := c.inlineCall(fn, args, resTy); ok {
			setRes(vs)
			return
		}
	}
	if fn != nil && c.g.isPure(fn) {
		c.usedPure[shortName(name)] = true
		// deterministic: results are a function of arguments and heap; modelled as fresh values
		setRes(freshResults("pure"))
		return
	}
	// a call of a context.CancelFunc value (defer cancel()): cancels a context and writes no program-visible memory.
	// Assumed, and listed in the evidence.
	if fn == nil && !cc.IsInvoke() {
		if nt, ok := cc.Value.Type().(*types.Named); ok && nt.Obj() != nil && nt.Obj().Pkg() != nil &&
			nt.Obj().Pkg().Path() == "context" && nt.Obj().Name() == "CancelFunc" {
			c.used["a call of a context.CancelFunc value writes no program-visible memory"] = true
			setRes(nil)
			return
		}
	}
	// unknown call: havoc everything
	if name == "" {
		name = "dynamic call"
	}
	if !c.discover {
		c.havocCalls[shortName(name)]++
	}
	c.frameCall(shortName(name))
	c.havocAll()
	setRes(freshResults("call"))
}

// applyContract uses a callee's contract at a call site and returns result values.
func (c *FnCtx) applyContract(fc *FuncContract, fn *ssa.Function, cc *ssa.CallCommon, args []Val, resTy types.Type, name string, ord int) []Val {
	if fc.Trusted {
		c.used["assumed contract: "+shortName(fc.Name)] = true
	} else {
		c.usedContracts[shortName(fc.Name)] = true
	}
	pnames := fc.Params
	if fn != nil && len(pnames) == 0 {
		for _, p := range fn.Params {
			pnames = append(pnames, p.Name())
		}
	}
	if len(pnames) != len(args) {
		c.unsup("contract %s: %d parameter names for %d arguments (add a 'params' clause)", fc.Name, len(pnames), len(args))
	}
	var cpkg *types.Package
	if fn != nil && fn.Pkg != nil {
		cpkg = fn.Pkg.Pkg
	} else if fc.Pkg != "" {
		cpkg = c.g.typesPkgs[fc.Pkg]
	}
	if cpkg == nil {
		cpkg = c.pkg
	}
	pre := c.heap.clone()
	env := &Env{c: c, names: map[string]Val{}, heap: pre, pkg: cpkg, what: "contract of " + shortName(fc.Name) + " at call"}
	if !cc.IsInvoke() {
		if _, isFn := cc.Value.(*ssa.Function); !isFn {
			if _, isB := cc.Value.(*ssa.Builtin); !isB {
				env.names["self"] = c.val(cc.Value)
			}
		}
	}
	for i, n := range pnames {
		v := args[i]
		env.names[n] = v
	}
	// free variables of closures: bind to the closure's bindings
	if mc, ok := cc.Value.(*ssa.MakeClosure); ok && fn != nil {
		for i, fv := range fn.FreeVars {
			env.names[fv.Name()] = mkLoc(c.val(mc.Bindings[i]))
		}
	}
	for k, cl := range fc.Requires {
		if c.fc != nil && c.fc.NoSafety["pre"] {
			// abstracting tier: the callee's precondition is assumed, and listed
			c.used["ASSUMED in "+shortName(c.fn.String())+" (nosafety pre): precondition of "+shortName(name)+": "+cl.Text] = true
			c.assume(c.trClause(env, cl))
			continue
		}
		c.checkClause(fmt.Sprintf("pre:%s#%d:%d", shortName(name), ord, k+1), "precondition of "+shortName(name)+": "+cl.Text, c.reach, env, cl)
	}
	// frame
	switch {
	case fc.ModAll || (!fc.HasMod && !(fn != nil && c.g.isPure(fn)) && !fc.Trusted):
		c.frameCall(shortName(name))
		c.havocAll()
	case fc.ModNone || !fc.HasMod:
	default:
		for _, m := range fc.Modifies {
			c.havocClause(env, m)
		}
	}
	// results
	var out []Val
	if tt, ok := resTy.(*types.Tuple); ok {
		for i := 0; i < tt.Len(); i++ {
			out = append(out, c.havocVal(tt.At(i).Type(), "res"))
		}
	} else {
		out = []Val{c.havocVal(resTy, "res")}
	}
	post := &Env{c: c, names: map[string]Val{}, heap: c.heap, old: pre, pkg: cpkg, what: "ensures of " + shortName(fc.Name) + " at call"}
	for k, v := range env.names {
		post.names[k] = v
	}
	var sig *types.Signature
	if fn != nil {
		sig = fn.Signature
	} else {
		sig = cc.Signature()
	}
	for i, v := range out {
		if len(out) == 1 {
			post.names["result"] = v
		}
		post.names[fmt.Sprintf("result%d", i)] = v
		if sig != nil && i < sig.Results().Len() {
			if n := sig.Results().At(i).Name(); n != "" && n != "_" {
				if _, clash := post.names[n]; !clash {
					post.names[n] = v
				}
			}
		}
	}
	for _, cl := range fc.Ensures {
		// effect clauses (calls()/lastret()) describe the callee's own execution; they are proved on the callee
		// and are not exported to callers, whose ghost counters are a different namespace
		w := map[string]bool{}
		collectWatches(cl.E, w)
		if len(w) > 0 {
			continue
		}
		c.assume(c.trClause(post, cl))
	}
	return out
}

// frameCall: a callee that may modify anything is only allowed in a function whose own frame is "*".
func (c *FnCtx) frameCall(callee string) {
	if c.fc == nil || c.discover || !c.fc.HasMod || c.fc.ModAll || c.abstract {
		return
	}
	c.check(fmt.Sprintf("frame:call:%d", c.ordinal("framecall")), "callee "+callee+" has no frame (may modify anything) but the function declares a modifies clause", "false")
}

// havocClause havocs the location(s) named by a modifies clause.
func (c *FnCtx) havocClause(env *Env, m Clause) {
	if m.Pkg != "" {
		if p := c.g.typesPkgs[m.Pkg]; p != nil && p != env.pkg {
			ne := *env
			ne.pkg = p
			env = &ne
		}
	}
	defer func() {
		if r := recover(); r != nil {
			if se, ok := r.(specErr); ok {
				panic(unsupported{fmt.Sprintf("%s:%d: modifies: %s", m.File, m.Line, se.msg)})
			}
			panic(r)
		}
	}()
	switch x := m.E.(type) {
	case *ECall:
		if id, ok := x.Fun.(*EIdent); ok {
			switch id.Name {
			case "elems": // elems(s): all elements of slice s (fields of struct elements included)
				s := env.tr(x.Args[0])
				c.frameCalleeElems(s)
				c.havocSliceElems(s, "", env)
				return
			case "heap": // heap(T.f): the whole field heap
				c.havocNamed(typeArgText(x.Args[0]), env)
				return
			case "allelems": // allelems(T): the elements of every slice of element type T
				t := env.typeOf(typeArgText(x.Args[0]))
				if isStruct(t) {
					st := t.Underlying().(*types.Struct)
					for i := 0; i < st.NumFields(); i++ {
						if !isArray(st.Field(i).Type()) {
							c.frameCalleeWhole(c.fieldHeap(t, i))
							c.havocHeap(c.fieldHeap(t, i))
						}
					}
				} else {
					c.frameCalleeWhole(c.elemsHeap(t))
					c.havocHeap(c.elemsHeap(t))
				}
				return
			case "pkgheap": // pkgheap("internal/cache"): every heap array of types declared in that package
				st, ok := x.Args[0].(*EStr)
				if !ok {
					env.fail("pkgheap needs a string literal")
				}
				c.frameCalleePkg(st.Val)
				for _, name := range heapNamesSorted(c.heap) {
					if heapInPkg(name, st.Val) {
						c.havocHeap(name)
					}
				}
				return
			case "ghost":
				n := typeArgText(x.Args[0])
				if gv, ok := c.ghost[n]; ok {
					c.setGhost(n, Val{T: c.fresh("ghost_"+n, c.sortOf(gv.Ty)), Ty: gv.Ty})
				}
				return
			}
		}
	}
	v := env.trRaw(m.E)
	if !env.isLoc(v) {
		env.fail("modifies clause is not a location: %s", m.Text)
	}
	v.Opaque, v.Num = false, nil
	l := c.resolve(v)
	if c.fc != nil && !c.discover && c.fc.HasMod && !c.fc.ModAll && !c.abstract {
		c.frameCheckLoc(l, "callee frame")
	}
	c.havocLoc(l)
}

// frameCalleeWhole: a callee that may rewrite a whole heap array needs the caller's frame to cover it wholesale.
func (c *FnCtx) frameCalleeWhole(name string) {
	if c.fc == nil || c.discover || !c.fc.HasMod || c.fc.ModAll || c.abstract {
		return
	}
	env := c.preEnv()
	ok := "false"
	for _, m := range c.fc.Modifies {
		if c.frameCoversWhole(env, m, location{arr: name, a1: "0", a2: "0"}) {
			ok = "true"
		}
	}
	c.check(fmt.Sprintf("frame:callee:%d", c.ordinal("framecallee")), "callee may rewrite "+name+", which must be within this function's modifies clause", ok)
}

// frameCalleePkg: a callee that modifies pkgheap(p) needs the caller's frame to include it.
func (c *FnCtx) frameCalleePkg(pkg string) {
	if c.fc == nil || c.discover || !c.fc.HasMod || c.fc.ModAll || c.abstract {
		return
	}
	ok := "false"
	for _, m := range c.fc.Modifies {
		if call, isCall := m.E.(*ECall); isCall {
			if id, isID := call.Fun.(*EIdent); isID && id.Name == "pkgheap" && len(call.Args) == 1 {
				if st, isStr := call.Args[0].(*EStr); isStr && st.Val == pkg {
					ok = "true"
				}
			}
		}
	}
	c.check(fmt.Sprintf("frame:callee:%d", c.ordinal("framecallee")), "callee modifies pkgheap("+pkg+"), which must be within this function's modifies clause", ok)
}

func (c *FnCtx) frameCalleeElems(s Val) {
	if c.fc == nil || c.discover || !c.fc.HasMod || c.fc.ModAll || c.abstract {
		return
	}
	reg := fold("(s_reg " + s.T + ")")
	var okc []string
	for _, a := range c.allocs {
		okc = append(okc, eq(reg, a))
	}
	env := c.preEnv()
	env.heap = c.entry
	// element type covered wholesale by heap(T.f) / pkgheap clauses of the caller?
	if st, ok := s.Ty.Underlying().(*types.Slice); ok && isStruct(st.Elem()) {
		su := st.Elem().Underlying().(*types.Struct)
		all := true
		for i := 0; i < su.NumFields(); i++ {
			if isArray(su.Field(i).Type()) {
				continue
			}
			l := location{arr: c.fieldHeap(st.Elem(), i), a1: "0"}
			cov := false
			for _, m := range c.fc.Modifies {
				if c.frameCoversWhole(env, m, l) {
					cov = true
				}
			}
			if !cov {
				all = false
			}
		}
		if all {
			okc = append(okc, "true")
		}
	}
	for _, m := range c.fc.Modifies {
		if call, isCall := m.E.(*ECall); isCall {
			if id, isID := call.Fun.(*EIdent); isID && id.Name == "elems" && len(call.Args) == 1 {
				t := env.tr(call.Args[0])
				okc = append(okc, eq(reg, "(s_reg "+t.T+")"))
			}
		}
	}
	c.check(fmt.Sprintf("frame:callee:%d", c.ordinal("framecallee")), "callee modifies elems(...) of a slice that must be within this function's modifies clause", or(okc...))
}

func (c *FnCtx) havocLoc(l location) {
	if l.cellTy != nil {
		// whole struct: every field
		nv := c.fresh("hv_cell", c.sortOf(l.cellTy))
		c.storeCell(l.cellAddr, l.cellTy, nv)
		return
	}
	nv := c.fresh("hv_loc", c.sortOf(l.ty))
	c.assume(c.typeFact(nv, l.ty))
	c.storeLoc(l, nv)
}

func (c *FnCtx) havocSliceElems(s Val, field string, env *Env) {
	st, ok := s.Ty.Underlying().(*types.Slice)
	if !ok {
		env.fail("elems() needs a slice")
	}
	et := st.Elem()
	if isStruct(et) {
		su := et.Underlying().(*types.Struct)
		for i := 0; i < su.NumFields(); i++ {
			if isArray(su.Field(i).Type()) {
				continue
			}
			name := c.fieldHeap(et, i)
			if c.discover {
				c.havocHeap(name)
				continue
			}
			old := c.heap[name]
			n := c.fresh(strings.Trim(name, "|"), c.heapSort(name))
			c.define("(forall ((a Int)) (! (=> (not (= (elt_r a) (s_reg " + s.T + "))) (= (select " + n + " a) (select " + old + " a))) :pattern ((select " + n + " a))))")
			c.heap[name] = n
		}
		return
	}
	name := c.elemsHeap(et)
	if c.discover {
		c.havocHeap(name)
		return
	}
	arr := c.fresh("hv_elems", "(Array "+c.mode.idxSort()+" "+c.sortOf(et)+")")
	I := c.mode.idxSort()
	old := c.regionArr(c.heap, name, "(s_reg "+s.T+")")
	// outside [off, off+len) unchanged
	c.define("(forall ((i " + I + ")) (! (=> (or " + c.idxLt("i", "(s_off "+s.T+")") + " " + c.idxLe(c.idxAdd("(s_off "+s.T+")", "(s_len "+s.T+")"), "i") + ") (= (select " + arr + " i) (select " + old + " i))) :pattern ((select " + arr + " i))))")
	c.setRegion(name, "(s_reg "+s.T+")", arr)
}

func (c *FnCtx) havocNamed(tf string, env *Env) {
	i := strings.LastIndex(tf, ".")
	if i < 0 {
		env.fail("heap(T.f) expected")
	}
	t := env.typeOf(tf[:i])
	st, ok := t.Underlying().(*types.Struct)
	if !ok {
		env.fail("heap(): %s is not a struct", tf[:i])
	}
	for k := 0; k < st.NumFields(); k++ {
		if st.Field(k).Name() == tf[i+1:] {
			c.frameCalleeWhole(c.fieldHeap(t, k))
			c.havocHeap(c.fieldHeap(t, k))
			return
		}
	}
	env.fail("heap(): no field %s", tf)
}

func (c *FnCtx) builtin(res *ssa.Call, b *ssa.Builtin, cc *ssa.CallCommon, setRes func([]Val), freshResults func(string) []Val) {
	switch b.Name() {
	case "len", "cap", "min", "max":
		v, _ := c.evalInstr(res, c.val, c.heap, true)
		setRes([]Val{v})
	case "append":
		setRes([]Val{c.appendOp(cc)})
	case "copy":
		setRes([]Val{c.copyOp(cc)})
	case "delete":
		m, k := c.val(cc.Args[0]), c.val(cc.Args[1])
		mt := cc.Args[0].Type()
		key := c.mapKey(k, mt.Underlying().(*types.Map).Key())
		has, ln := c.mapHasHeap(mt), c.mapLenHeap(mt)
		c.mapDeleteAnchor(res, m, key)
		hm := sel(c.heap[has], m.T)
		was := and(not(eq(m.T, "0")), sel(hm, key))
		c.setHeap(ln, sto(c.heap[ln], m.T, ite(was, c.idxSub(sel(c.heap[ln], m.T), c.mode.idxLit(1)), sel(c.heap[ln], m.T))))
		c.setHeap(has, sto(c.heap[has], m.T, sto(hm, key, "false")))
		setRes(nil)
	case "clear":
		x := c.val(cc.Args[0])
		switch u := cc.Args[0].Type().Underlying().(type) {
		case *types.Map:
			has, ln := c.mapHasHeap(cc.Args[0].Type()), c.mapLenHeap(cc.Args[0].Type())
			ks := c.sortOf(u.Key())
			c.setHeap(has, sto(c.heap[has], x.T, "((as const (Array "+ks+" Bool)) false)"))
			c.setHeap(ln, sto(c.heap[ln], x.T, c.mode.idxLit(0)))
		case *types.Slice:
			c.clearSlice(x, u.Elem())
		}
		setRes(nil)
	case "print", "println":
		setRes(nil)
	case "recover":
		if c.abstract {
			// abstracting tier: whether a panic is in flight is unknown; the recovered value is arbitrary
			c.used["abstracting tier: recover() returns an arbitrary value (panic or no panic)"] = true
			setRes(freshResults("recover"))
			return
		}
		c.unsup("recover")
	default:
		c.unsup("builtin %s", b.Name())
	}
}

func (c *FnCtx) clearSlice(s Val, et types.Type) {
	if isStruct(et) {
		c.havocSliceElems(s, "", &Env{c: c})
		c.notes = append(c.notes, "clear() of struct slice modelled as havoc of its elements")
		return
	}
	name := c.elemsHeap(et)
	if c.discover {
		c.havocHeap(name)
		return
	}
	I := c.mode.idxSort()
	arr := c.fresh("cleared", "(Array "+I+" "+c.sortOf(et)+")")
	old := c.regionArr(c.heap, name, "(s_reg "+s.T+")")
	lo := "(s_off " + s.T + ")"
	hi := c.idxAdd(lo, "(s_len "+s.T+")")
	c.define("(forall ((i " + I + ")) (! (= (select " + arr + " i) (ite (and " + c.idxLe(lo, "i") + " " + c.idxLt("i", hi) + ") " + c.zero(et) + " (select " + old + " i))) :pattern ((select " + arr + " i))))")
	c.setRegion(name, "(s_reg "+s.T+")", arr)
}

// appendOp models append(s, t...) exactly: in place when capacity suffices, else a fresh region.
func (c *FnCtx) appendOp(cc *ssa.CallCommon) Val {
	s := c.val(cc.Args[0])
	t := c.val(cc.Args[1])
	tIsString := false
	if b, ok := cc.Args[1].Type().Underlying().(*types.Basic); ok && b.Info()&types.IsString != 0 {
		tIsString = true
		c.declStrings()
	}
	return c.appendCore(cc, s, t, cc.Args[0].Type(), tIsString)
}

// appendBytes models appending the given byte terms to byte slice s (used by the models of
// encoding/binary's AppendUintNN).
func (c *FnCtx) appendBytes(cc *ssa.CallCommon, s Val, sTy types.Type, bytes []string) Val {
	r := c.allocRef("appendsrc")
	et := types.Typ[types.Uint8]
	arr := "((as const (Array " + c.mode.idxSort() + " " + c.sortOf(et) + ")) " + c.zero(et) + ")"
	for i, b := range bytes {
		arr = sto(arr, c.mode.idxLit(int64(i)), b)
	}
	c.setRegion(c.elemsHeap(et), r, arr)
	n := c.mode.idxLit(int64(len(bytes)))
	t := Val{T: "(mk_slice " + r + " " + c.mode.idxLit(0) + " " + n + " " + n + ")", Ty: sTy}
	return c.appendCore(cc, s, t, sTy, false)
}

func (c *FnCtx) appendCore(cc *ssa.CallCommon, s, t Val, sTy types.Type, tIsString bool) Val {
	st := sTy.Underlying().(*types.Slice)
	et := st.Elem()
	I := c.mode.idxSort()
	z := c.mode.idxLit(0)
	n := "(s_len " + t.T + ")"
	newLen := c.idxAdd("(s_len "+s.T+")", n)
	if c.mode == ModeInt {
		ii, _ := intInfoOf(types.Typ[types.Int])
		c.check(fmt.Sprintf("safety.ovf:%d", c.ordinal("ovf")), "append length stays in range", "(<= "+newLen+" "+smtInt(ii.max())+")")
	}
	fits := c.idxLe(newLen, "(s_cap "+s.T+")")
	freshReg := c.allocRef("append")
	newCap := c.fresh("newcap", I)
	c.assume(c.idxLe(newLen, newCap))
	c.appendAnchor(cc, s, t)
	r := c.fresh("app", "Slice")
	c.define(eq(r, ite(fits,
		"(mk_slice (s_reg "+s.T+") (s_off "+s.T+") "+newLen+" (s_cap "+s.T+"))",
		"(mk_slice "+freshReg+" "+z+" "+newLen+" "+newCap+")")))
	if c.mode == ModeBV {
		c.assume(c.typeFact(r, sTy))
	}
	// source element i (read in the state before the append)
	preHeap := c.heap.clone()
	srcElem := func(i string, field int) string {
		if tIsString {
			return "(sbyte " + t.T + " " + i + ")"
		}
		pos := c.spos(t.T, i)
		if isStruct(et) {
			return sel(c.heap[c.fieldHeap(et, field)], "(elt (s_reg "+t.T+") "+pos+")")
		}
		return sel(c.regionArr(preHeap, c.elemsHeap(et), "(s_reg "+t.T+")"), pos)
	}
	if isStruct(et) {
		su := et.Underlying().(*types.Struct)
		for f := 0; f < su.NumFields(); f++ {
			if isArray(su.Field(f).Type()) {
				c.unsup("append of structs with array fields")
			}
			name := c.fieldHeap(et, f)
			if c.discover {
				c.havocHeap(name)
				continue
			}
			old := c.heap[name]
			nh := c.fresh(strings.Trim(name, "|"), c.heapSort(name))
			// address a = elt(reg r, k) in result region
			k := "(elt_i a)"
			inNew := and(eq("(elt_r a)", "(s_reg "+r+")"), eq("a", "(elt (elt_r a) (elt_i a))"))
			rel := c.idxSub(k, "(s_off "+r+")")
			appended := and(c.idxLe("(s_len "+s.T+")", rel), c.idxLt(rel, newLen))
			copied := and(not(fits), c.idxLe(z, rel), c.idxLt(rel, "(s_len "+s.T+")"))
			srcOld := sel(old, "(elt (s_reg "+s.T+") "+c.idxAdd("(s_off "+s.T+")", rel)+")")
			c.define("(forall ((a Int)) (! (= (select " + nh + " a) (ite (and " + inNew + " " + appended + ") " + srcElemAt(c, old, t, et, f, c.idxSub(rel, "(s_len "+s.T+")"), tIsString) + " (ite (and " + inNew + " " + copied + ") " + srcOld + " (select " + old + " a)))) :pattern ((select " + nh + " a))))")
			c.heap[name] = nh
		}
		_ = srcElem
		return Val{T: r, Ty: sTy}
	}
	name := c.elemsHeap(et)
	if c.discover {
		c.havocHeap(name)
		return Val{T: r, Ty: sTy}
	}
	oldArr := c.regionArr(c.heap, name, "(s_reg "+s.T+")")
	arr := c.fresh("apparr", "(Array "+I+" "+c.sortOf(et)+")")
	rel := c.idxSub("i", "(s_off "+r+")")
	appended := and(c.idxLe("(s_len "+s.T+")", rel), c.idxLt(rel, newLen))
	base := ite(fits, sel(oldArr, "i"), ite(and(c.idxLe(z, rel), c.idxLt(rel, "(s_len "+s.T+")")), sel(oldArr, c.idxAdd("(s_off "+s.T+")", rel)), c.zero(et)))
	c.define("(forall ((i " + I + ")) (! (= (select " + arr + " i) (ite " + appended + " " + srcElem(c.idxSub(rel, "(s_len "+s.T+")"), 0) + " " + base + ")) :pattern ((select " + arr + " i))))")
	c.setRegion(name, "(s_reg "+r+")", arr)
	// element-wise consequences of the definition above, stated over slice positions so that
	// reads r[k] match them directly (no arithmetic inside the triggers)
	an := c.regionArr(c.heap, name, "(s_reg "+r+")")
	q := c.fresh("ai", I)
	_ = q
	elemR := "(select " + an + " (spos " + r + " i))"
	c.define("(forall ((i " + I + ")) (! (=> (and " + c.idxLe(z, "i") + " " + c.idxLt("i", "(s_len "+s.T+")") + ") (= " + elemR + " (select " + oldArr + " (spos " + s.T + " i)))) :pattern (" + elemR + ")))")
	c.define("(forall ((i " + I + ")) (! (=> (and " + c.idxLe("(s_len "+s.T+")", "i") + " " + c.idxLt("i", newLen) + ") (= " + elemR + " " + srcElem(c.idxSub("i", "(s_len "+s.T+")"), 0) + ")) :pattern (" + elemR + ")))")
	return Val{T: r, Ty: sTy}
}

func srcElemAt(c *FnCtx, old string, t Val, et types.Type, field int, i string, isStr bool) string {
	pos := c.spos(t.T, i)
	return sel(old, "(elt (s_reg "+t.T+") "+pos+")")
}

func (c *FnCtx) copyOp(cc *ssa.CallCommon) Val {
	d := c.val(cc.Args[0])
	s := c.val(cc.Args[1])
	et := cc.Args[0].Type().Underlying().(*types.Slice).Elem()
	srcStr := false
	if b, ok := cc.Args[1].Type().Underlying().(*types.Basic); ok && b.Info()&types.IsString != 0 {
		srcStr = true
		c.declStrings()
	}
	if isStruct(et) {
		c.unsup("copy of struct slices")
	}
	I := c.mode.idxSort()
	n := ite(c.idxLt("(s_len "+d.T+")", "(s_len "+s.T+")"), "(s_len "+d.T+")", "(s_len "+s.T+")")
	nn := c.fresh("ncopy", I)
	c.define(eq(nn, n))
	name := c.elemsHeap(et)
	if c.discover {
		c.havocHeap(name)
		return Val{T: nn, Ty: types.Typ[types.Int]}
	}
	c.copyAnchor(cc, d, s, nn)
	oldArr := c.regionArr(c.heap, name, "(s_reg "+d.T+")")
	arr := c.fresh("cparr", "(Array "+I+" "+c.sortOf(et)+")")
	rel := c.idxSub("i", "(s_off "+d.T+")")
	var src string
	if srcStr {
		src = "(sbyte " + s.T + " " + rel + ")"
	} else {
		src = sel(c.regionArr(c.heap, name, "(s_reg "+s.T+")"), c.idxAdd("(s_off "+s.T+")", rel))
	}
	c.define("(forall ((i " + I + ")) (! (= (select " + arr + " i) (ite (and " + c.idxLe(c.mode.idxLit(0), rel) + " " + c.idxLt(rel, nn) + ") " + src + " (select " + oldArr + " i))) :pattern ((select " + arr + " i))))")
	c.setRegion(name, "(s_reg "+d.T+")", arr)
	return Val{T: nn, Ty: types.Typ[types.Int]}
}

// heapInPkg: the heap array holds state of a type declared in package pkg (short path).
func heapInPkg(name, pkg string) bool {
	n := strings.Trim(name, "|")
	for _, pre := range []string{"H ", "Elems ", "Cell ", "MapHas ", "MapVal ", "MapLen "} {
		if strings.HasPrefix(n, pre) {
			rest := strings.TrimPrefix(n, pre)
			rest = strings.TrimLeft(rest, "*[]")
			return strings.HasPrefix(rest, pkg+".")
		}
	}
	return false
}

// fieldAddrAccessor recognises functions whose whole body is `return &recv.field`.
func fieldAddrAccessor(fn *ssa.Function) (int, bool) {
	if len(fn.Blocks) != 1 || len(fn.Params) != 1 || fn.Signature.Results().Len() != 1 {
		return 0, false
	}
	var fa *ssa.FieldAddr
	for _, in := range fn.Blocks[0].Instrs {
		switch x := in.(type) {
		case *ssa.DebugRef:
		case *ssa.FieldAddr:
			if fa != nil || x.X != ssa.Value(fn.Params[0]) {
				return 0, false
			}
			fa = x
		case *ssa.Return:
			if fa == nil || len(x.Results) != 1 || x.Results[0] != ssa.Value(fa) {
				return 0, false
			}
			return fa.Field, true
		default:
			return 0, false
		}
	}
	return 0, false
}

// canInline: small loop-free callees without a contract are executed in place (their real body),
// which is more precise than treating them as pure or as havoc.
func (c *FnCtx) canInline(fn *ssa.Function) bool {
	if c.g.noInline[fn] {
		return false
	}
	if fn.Blocks == nil || len(c.inlineStack) >= 3 || fn.Recover != nil || len(fn.FreeVars) > 0 {
		return false
	}
	for _, f := range c.inlineStack {
		if f == fn {
			return false
		}
	}
	if fn == c.fn {
		return false
	}
	n := 0
	for _, b := range fn.Blocks {
		for _, s := range b.Succs {
			if s.Dominates(b) {
				return false // loop
			}
		}
		for _, in := range b.Instrs {
			n++
			switch x := in.(type) {
			case *ssa.Defer, *ssa.Go, *ssa.Select, *ssa.Send, *ssa.MakeClosure, *ssa.RunDefers, *ssa.Range, *ssa.Next, *ssa.Panic:
				return false
			case *ssa.Call:
				// only leaf-like callees are inlined: their own calls must be builtins, no-ops, or again inlinable/pure
				if _, isB := x.Call.Value.(*ssa.Builtin); isB {
					continue
				}
				callee := x.Call.StaticCallee()
				if callee == nil {
					return false
				}
				if _, noop := isNoopCallee(callee.String()); noop {
					continue
				}
				if _, isAtomic := atomicKind(callee.String()); isAtomic {
					continue // modelled precisely by atomicCall
				}
				if c.g.cs.Funcs[callee.String()] != nil {
					return false
				}
				if _, acc := fieldAddrAccessor(callee); acc {
					continue
				}
				c.inlineStack = append(c.inlineStack, fn)
				ok := c.canInline(callee)
				c.inlineStack = c.inlineStack[:len(c.inlineStack)-1]
				if !ok && !c.g.isPure(callee) {
					return false
				}
			}
		}
	}
	if c.fc != nil {
		for _, o := range c.fc.Opaque {
			if o == shortName(fn.String()) {
				return false
			}
		}
	}
	return n <= 60
}

func (c *FnCtx) inlineCall(fn *ssa.Function, args []Val, resTy types.Type) (out []Val, ok bool) {
	if len(args) != len(fn.Params) {
		return nil, false
	}
	// save caller context
	sFn, sBlock, sIdx, sLoops, sReach, sEntry := c.fn, c.curBlock, c.curIdx, c.loops, c.reach, c.entryReach
	sRets, sPkg := c.inlineRets, c.pkg
	// checkpoint: a callee body the generator cannot interpret is abandoned and the call falls back to havoc
	nItems, nObs, nAllocs, nRefs := len(c.items), len(c.obs), len(c.allocs), len(c.refVals)
	sHeap, sGhost := c.heap, c.ghost
	sOrd := map[string]int{}
	for k, v := range c.ord {
		sOrd[k] = v
	}
	defer func() {
		if r := recover(); r != nil {
			if _, isUnsup := r.(unsupported); !isUnsup {
				panic(r)
			}
			c.items, c.obs, c.allocs, c.refVals = c.items[:nItems], c.obs[:nObs], c.allocs[:nAllocs], c.refVals[:nRefs]
			c.heap, c.ghost, c.ord, c.reach = sHeap, sGhost, sOrd, sReach
			c.g.noInline[fn] = true
			out, ok = nil, false
		}
	}()
	defer func() {
		c.fn, c.curBlock, c.curIdx, c.loops, c.entryReach = sFn, sBlock, sIdx, sLoops, sEntry
		c.inlineStack = c.inlineStack[:len(c.inlineStack)-1]
		c.pkg = sPkg
		c.inlineRets = sRets
	}()
	if len(c.inlineStack) == 0 {
		c.outerBlock = sBlock
	}
	c.inlineStack = append(c.inlineStack, fn)
	c.inlineRets = nil
	c.fn = fn
	if fn.Pkg != nil {
		c.pkg = fn.Pkg.Pkg
	}
	for i, p := range fn.Params {
		c.vals[p] = args[i]
	}
	c.entryReach = sReach
	c.runBody()
	rets := c.inlineRets
	c.usedInlined[shortName(fn.String())] = true
	if len(rets) == 0 {
		// callee never returns normally
		c.reach = "false"
		var vs []Val
		if tt, isT := resTy.(*types.Tuple); isT {
			for i := 0; i < tt.Len(); i++ {
				vs = append(vs, c.havocVal(tt.At(i).Type(), "noret"))
			}
		} else {
			vs = []Val{c.havocVal(resTy, "noret")}
		}
		return vs, true
	}
	// merge return states
	var conds []string
	for _, r := range rets {
		conds = append(conds, r.reach)
	}
	c.reach = or(conds...)
	if len(c.reach) > 40 && !c.discover {
		rn := c.fresh("R", "Bool")
		c.define(eq(rn, c.reach))
		c.reach = rn
	}
	nres := len(rets[0].results)
	for i := 0; i < nres; i++ {
		t := rets[len(rets)-1].results[i].T
		for k := len(rets) - 2; k >= 0; k-- {
			if len(rets[k].results[i].Path) > 0 {
				c.unsup("inlined callee %s returns an interior pointer on several paths", fn.Name())
			}
			t = ite(rets[k].reach, rets[k].results[i].T, t)
		}
		v := rets[0].results[i]
		if len(rets) > 1 {
			v = Val{T: t, Ty: rets[0].results[i].Ty}
			if len(t) > 60 && !c.discover {
				n := c.fresh("inl_"+fn.Name(), c.sortOf(v.Ty))
				c.define(eq(n, t))
				v.T = n
			}
		}
		out = append(out, v)
	}
	// heap
	if len(rets) == 1 {
		c.heap, c.ghost = rets[0].heap, rets[0].ghost
	} else {
		nh := Heap{}
		var hs []Heap
		for _, r := range rets {
			hs = append(hs, r.heap)
		}
		for _, name := range heapNamesSorted(hs...) {
			t0 := c.heapTerm(rets[0].heap, name)
			same := true
			for _, r := range rets[1:] {
				if c.heapTerm(r.heap, name) != t0 {
					same = false
				}
			}
			if same {
				nh[name] = t0
				continue
			}
			if c.discover {
				nh[name] = name
				continue
			}
			m := c.heapTerm(rets[len(rets)-1].heap, name)
			for k := len(rets) - 2; k >= 0; k-- {
				m = ite(rets[k].reach, c.heapTerm(rets[k].heap, name), m)
			}
			n := c.fresh(strings.Trim(name, "|"), c.heapSort(name))
			c.define(eq(n, m))
			nh[name] = n
			var vers []string
			for _, r := range rets {
				vers = append(vers, c.heapTerm(r.heap, name))
			}
			hsrt := c.heapSort(name)
			valSort := strings.TrimSuffix(strings.TrimPrefix(hsrt, "(Array Int "), ")")
			c.mergeKnown(n, conds, vers, strings.HasPrefix(strings.Trim(name, "|"), "Elems "), valSort)
		}
		c.heap = nh
		c.ghost = rets[0].ghost
	}
	return out, true
}

// freeVarFunc resolves a function-typed free variable to the function it is always bound to, if that is decidable:
// the enclosing function creates this closure only with a binding that is a plain function (no captures) stored
// once into the captured variable, or the function value itself.
func (c *FnCtx) freeVarFunc(fv *ssa.FreeVar) *ssa.Function {
	fn := fv.Parent()
	parent := fn.Parent()
	if parent == nil {
		return nil
	}
	idx := -1
	for i, x := range fn.FreeVars {
		if x == fv {
			idx = i
		}
	}
	if idx < 0 {
		return nil
	}
	var target *ssa.Function
	for _, b := range parent.Blocks {
		for _, in := range b.Instrs {
			mc, ok := in.(*ssa.MakeClosure)
			if !ok || mc.Fn != ssa.Value(fn) {
				continue
			}
			var f *ssa.Function
			funcOf := func(v ssa.Value) *ssa.Function {
				switch bv := v.(type) {
				case *ssa.Function:
					return bv
				case *ssa.MakeClosure:
					if len(bv.Bindings) == 0 {
						g, _ := bv.Fn.(*ssa.Function)
						return g
					}
				}
				return nil
			}
			switch bv := mc.Bindings[idx].(type) {
			case *ssa.Alloc:
				// a captured variable cell: assigned exactly once, with a plain function, and only read otherwise
				refs := bv.Referrers()
				if refs == nil {
					return nil
				}
				var st *ssa.Store
				for _, r := range *refs {
					if x, ok := r.(*ssa.Store); ok && x.Addr == ssa.Value(bv) {
						if st != nil {
							return nil
						}
						st = x
					}
				}
				if st == nil || !singleAssignCell(bv, st) {
					return nil
				}
				f = funcOf(st.Val)
			default:
				f = funcOf(bv)
			}
			if f == nil || len(f.FreeVars) > 0 || (target != nil && target != f) {
				return nil
			}
			target = f
		}
	}
	return target
}
