package main

import (
	"fmt"
	"go/constant"
	"go/token"
	"go/types"
	"math/big"
	"strings"

	"golang.org/x/tools/go/ssa"
)

func (c *FnCtx) constVal(k *ssa.Const) Val {
	t := k.Type()
	if k.Value == nil {
		return Val{T: c.zero(t), Ty: t}
	}
	switch k.Value.Kind() {
	case constant.Bool:
		if constant.BoolVal(k.Value) {
			return Val{T: "true", Ty: t}
		}
		return Val{T: "false", Ty: t}
	case constant.Int:
		if ii, ok := intInfoOf(t); ok {
			n, _ := new(big.Int).SetString(k.Value.ExactString(), 10)
			return Val{T: c.mode.lit(n, ii), Ty: t}
		}
		// integer constant of float type etc.
		return c.opaqueVal(t, "const")
	case constant.String:
		return Val{T: c.strLit(constant.StringVal(k.Value)), Ty: t}
	}
	return c.opaqueVal(t, "const")
}

func (c *FnCtx) opaqueVal(t types.Type, why string) Val {
	return Val{T: c.fresh("opq_"+why, c.sortOf(t)), Ty: t, Opaque: true}
}

func (c *FnCtx) byteSort() string { return c.mode.intSort(8) }

func (c *FnCtx) declStrings() {
	I := c.mode.idxSort()
	B := c.byteSort()
	c.decl("(declare-const SB (Array Int (Array " + I + " " + B + ")))")
	c.decl("(declare-fun sbyte (Slice " + I + ") " + B + ")")
	plus := "+"
	if c.mode == ModeBV {
		plus = "bvadd"
	}
	c.decl("(assert (forall ((s Slice) (i " + I + ")) (! (= (sbyte s i) (select (select SB (s_reg s)) (" + plus + " (s_off s) i))) :pattern ((sbyte s i)))))")
	if c.mode == ModeInt {
		c.decl("(assert (forall ((s Slice) (i Int)) (! (and (<= 0 (sbyte s i)) (<= (sbyte s i) 255)) :pattern ((sbyte s i)))))")
	}
	c.decl("(declare-fun streq (Slice Slice) Bool)")
	c.decl("(declare-fun sdiff (Slice Slice) " + I + ")")
	c.decl("(assert (forall ((a Slice) (b Slice)) (! (=> (streq a b) (= (s_len a) (s_len b))) :pattern ((streq a b)))))")
	z := c.mode.idxLit(0)
	c.decl("(assert (forall ((a Slice) (b Slice) (i " + I + ")) (! (=> (and (streq a b) " + c.idxLe(z, "i") + " " + c.idxLt("i", "(s_len a)") + ") (= (sbyte a i) (sbyte b i))) :pattern ((streq a b) (sbyte a i)))))")
	c.decl("(assert (forall ((a Slice) (b Slice) (i " + I + ")) (! (=> (and (streq a b) " + c.idxLe(z, "i") + " " + c.idxLt("i", "(s_len a)") + ") (= (sbyte a i) (sbyte b i))) :pattern ((streq a b) (sbyte b i)))))")
	c.decl("(assert (forall ((a Slice) (b Slice)) (! (=> (and (not (streq a b)) (= (s_len a) (s_len b))) (and " + c.idxLe(z, "(sdiff a b)") + " " + c.idxLt("(sdiff a b)", "(s_len a)") + " (not (= (sbyte a (sdiff a b)) (sbyte b (sdiff a b)))))) :pattern ((streq a b)))))")
	c.decl("(assert (forall ((a Slice) (b Slice)) (! (= (streq a b) (streq b a)) :pattern ((streq a b)))))")
}

func (c *FnCtx) strLit(s string) string {
	c.declStrings()
	if n, ok := c.strLits[s]; ok {
		return n
	}
	c.nfresh++
	n := sym(fmt.Sprintf("strlit!%d", c.nfresh))
	c.decl("(declare-const " + n + " Slice)")
	facts := []string{eq("(s_len "+n+")", c.mode.idxLit(int64(len(s)))), eq("(s_off "+n+")", c.mode.idxLit(0))}
	if len(s) <= 80 {
		for i := 0; i < len(s); i++ {
			facts = append(facts, eq("(sbyte "+n+" "+c.mode.idxLit(int64(i))+")", c.mode.lit(big.NewInt(int64(s[i])), intInfo{8, false})))
		}
	}
	c.decl("(assert " + and(facts...) + ")")
	c.strLits[s] = n
	return n
}

func (c *FnCtx) val(v ssa.Value) Val {
	if x, ok := c.vals[v]; ok {
		return x
	}
	switch k := v.(type) {
	case *ssa.Const:
		return c.constVal(k)
	case *ssa.Global:
		name := sym("global " + shortName(k.String()))
		c.decl("(declare-const " + name + " Int)")
		c.decl("(assert (not (= " + name + " 0)))")
		return Val{T: name, Ty: k.Type()}
	case *ssa.Function:
		name := sym("func " + shortName(k.String()))
		c.decl("(declare-const " + name + " Int)")
		c.decl("(assert (not (= " + name + " 0)))")
		return Val{T: name, Ty: k.Type()}
	case *ssa.Builtin:
		return Val{T: "0", Ty: k.Type()}
	}
	c.unsup("value %s (%T) used before definition", v.Name(), v)
	return Val{}
}

func (c *FnCtx) setVal(v ssa.Value, x Val) {
	c.vals[v] = x
	if _, isPtr := v.Type().Underlying().(*types.Pointer); isPtr && len(x.Path) == 0 {
		c.refVals = append(c.refVals, x)
	}
	if c.sortOfSafe(v.Type()) == "Slice" {
		if r := fold("(s_reg " + x.T + ")"); !isAllocConst(r) {
			c.refVals = append(c.refVals, Val{T: r})
		}
	}
}

// ------------------------------------------------------------------ integer ops

// valEq is Go's == on values of type t: strings compare by content, structs and arrays field-wise.
func (c *FnCtx) valEq(x, y string, t types.Type) string {
	switch u := t.Underlying().(type) {
	case *types.Basic:
		if u.Info()&types.IsString != 0 {
			c.declStrings()
			return "(streq " + x + " " + y + ")"
		}
	case *types.Struct:
		if !typeHasString(t, 0) {
			return eq(x, y)
		}
		c.sortOf(t)
		var fs []string
		for i := 0; i < u.NumFields(); i++ {
			acc := c.fieldAcc(t, i)
			fs = append(fs, c.valEq("("+acc+" "+x+")", "("+acc+" "+y+")", u.Field(i).Type()))
		}
		return and(fs...)
	case *types.Array:
		if typeHasString(u.Elem(), 0) {
			if u.Len() > 8 {
				c.unsup("comparison of large arrays of strings")
			}
			var fs []string
			for i := int64(0); i < u.Len(); i++ {
				fs = append(fs, c.valEq(sel(x, c.mode.idxLit(i)), sel(y, c.mode.idxLit(i)), u.Elem()))
			}
			return and(fs...)
		}
	case *types.Slice:
		// Go code can only compare a slice with nil (a nil slice has region 0); specs compare headers
		z := c.zero(t)
		if x == z {
			return eq("(s_reg "+y+")", "0")
		}
		if y == z {
			return eq("(s_reg "+x+")", "0")
		}
		return eq(x, y)
	}
	return eq(x, y)
}

func typeHasString(t types.Type, depth int) bool {
	if depth > 6 {
		return false
	}
	switch u := t.Underlying().(type) {
	case *types.Basic:
		return u.Info()&types.IsString != 0
	case *types.Struct:
		for i := 0; i < u.NumFields(); i++ {
			if typeHasString(u.Field(i).Type(), depth+1) {
				return true
			}
		}
	case *types.Array:
		return typeHasString(u.Elem(), depth+1)
	}
	return false
}

func (c *FnCtx) cmpOp(op token.Token, x, y string, t types.Type) string {
	ii, isInt := intInfoOf(t)
	switch op {
	case token.EQL:
		return c.valEq(x, y, t)
	case token.NEQ:
		return not(c.valEq(x, y, t))
	}
	if !isInt {
		c.unsup("ordering comparison on %s", t)
	}
	if c.mode == ModeInt {
		m := map[token.Token]string{token.LSS: "<", token.LEQ: "<=", token.GTR: ">", token.GEQ: ">="}
		return "(" + m[op] + " " + x + " " + y + ")"
	}
	var m map[token.Token]string
	if ii.signed {
		m = map[token.Token]string{token.LSS: "bvslt", token.LEQ: "bvsle", token.GTR: "bvsgt", token.GEQ: "bvsge"}
	} else {
		m = map[token.Token]string{token.LSS: "bvult", token.LEQ: "bvule", token.GTR: "bvugt", token.GEQ: "bvuge"}
	}
	return "(" + m[op] + " " + x + " " + y + ")"
}

func pow2(k int) *big.Int { return new(big.Int).Lsh(big.NewInt(1), uint(k)) }

// constInt extracts an integer literal from an SMT term if it is one.
func constInt(t string) (*big.Int, bool) {
	if strings.HasPrefix(t, "(_ bv") {
		f := strings.Fields(strings.TrimPrefix(t, "(_ bv"))
		n, ok := new(big.Int).SetString(f[0], 10)
		return n, ok
	}
	if strings.HasPrefix(t, "(- ") {
		n, ok := new(big.Int).SetString(strings.TrimSuffix(strings.TrimPrefix(t, "(- "), ")"), 10)
		if ok {
			return n.Neg(n), true
		}
		return nil, false
	}
	n, ok := new(big.Int).SetString(t, 10)
	return n, ok
}

// arith translates a Go arithmetic BinOp. yTy is the type of y (for shifts).
func (c *FnCtx) arith(op token.Token, x, y string, t, yTy types.Type, checks bool) string {
	ii, ok := intInfoOf(t)
	if !ok {
		if b, isB := t.Underlying().(*types.Basic); isB && b.Info()&types.IsString != 0 && op == token.ADD {
			return c.strConcat(x, y)
		}
		c.sortOf(t)
		return c.fresh("opq_arith", c.sortOf(t))
	}
	if c.mode == ModeBV {
		switch op {
		case token.ADD:
			return "(bvadd " + x + " " + y + ")"
		case token.SUB:
			return "(bvsub " + x + " " + y + ")"
		case token.MUL:
			return "(bvmul " + x + " " + y + ")"
		case token.QUO:
			if checks {
				c.check(fmt.Sprintf("safety.div:%d", c.ordinal("div")), "division by zero", not(eq(y, c.mode.lit(big.NewInt(0), ii))))
			}
			if ii.signed {
				return "(bvsdiv " + x + " " + y + ")"
			}
			return "(bvudiv " + x + " " + y + ")"
		case token.REM:
			if checks {
				c.check(fmt.Sprintf("safety.div:%d", c.ordinal("div")), "division by zero", not(eq(y, c.mode.lit(big.NewInt(0), ii))))
			}
			if ii.signed {
				return "(bvsrem " + x + " " + y + ")"
			}
			return "(bvurem " + x + " " + y + ")"
		case token.AND:
			return "(bvand " + x + " " + y + ")"
		case token.OR:
			return "(bvor " + x + " " + y + ")"
		case token.XOR:
			return "(bvxor " + x + " " + y + ")"
		case token.AND_NOT:
			return "(bvand " + x + " (bvnot " + y + "))"
		case token.SHL, token.SHR:
			yi, _ := intInfoOf(yTy)
			if yi.signed && checks {
				c.check(fmt.Sprintf("safety.shift:%d", c.ordinal("shift")), "negative shift count", "(bvsge "+y+" "+smtBV(big.NewInt(0), yi.bits)+")")
			}
			// bring count to width of x
			cnt := y
			big_ := "false"
			if yi.bits > ii.bits {
				big_ = "(bvuge " + y + " " + smtBV(big.NewInt(int64(ii.bits)), yi.bits) + ")"
				cnt = fmt.Sprintf("((_ extract %d 0) %s)", ii.bits-1, y)
			} else if yi.bits < ii.bits {
				cnt = fmt.Sprintf("((_ zero_extend %d) %s)", ii.bits-yi.bits, y)
			}
			if yi.bits <= ii.bits {
				big_ = "(bvuge " + cnt + " " + smtBV(big.NewInt(int64(ii.bits)), ii.bits) + ")"
			}
			if op == token.SHL {
				return ite(big_, smtBV(big.NewInt(0), ii.bits), "(bvshl "+x+" "+cnt+")")
			}
			if ii.signed {
				return ite(big_, "(bvashr "+x+" "+smtBV(big.NewInt(int64(ii.bits-1)), ii.bits)+")", "(bvashr "+x+" "+cnt+")")
			}
			return ite(big_, smtBV(big.NewInt(0), ii.bits), "(bvlshr "+x+" "+cnt+")")
		}
		c.unsup("bv op %s", op)
	}
	// int mode
	inRange := func(r string) string {
		return "(and (<= " + smtInt(ii.min()) + " " + r + ") (<= " + r + " " + smtInt(ii.max()) + "))"
	}
	ovf := func(r string) string {
		if checks {
			if c.fc != nil && (c.fc.NoSafety["ovf"] || c.fc.NoSafety["all"]) {
				// no overflow obligation is generated here, so the result must be the machine result: wrap around
				if a, okA := smtConstInt(x); okA {
					if b, okB := smtConstInt(y); okB {
						// both operands are literals: fold (keeps index terms inside quantifier triggers simple)
						v := new(big.Int)
						switch op {
						case token.ADD:
							v.Add(a, b)
						case token.SUB:
							v.Sub(a, b)
						case token.MUL:
							v.Mul(a, b)
						default:
							v = nil
						}
						if v != nil {
							mod := pow2(ii.bits)
							if ii.signed {
								h := pow2(ii.bits - 1)
								v.Add(v, h)
								v.Mod(v, mod)
								v.Sub(v, h)
							} else {
								v.Mod(v, mod)
							}
							return smtInt(v)
						}
					}
				}
				m := smtInt(pow2(ii.bits))
				w := "(mod " + r + " " + m + ")"
				if ii.signed {
					h := smtInt(pow2(ii.bits - 1))
					w = "(- (mod (+ " + r + " " + h + ") " + m + ") " + h + ")"
				}
				// name the machine result so that quantifier triggers built from it stay ite-free
				n := c.fresh("wrap", "Int")
				c.define(eq(n, "(ite "+inRange(r)+" "+r+" "+w+")"))
				return n
			}
			c.check(fmt.Sprintf("safety.ovf:%d", c.ordinal("ovf")), "arithmetic stays in range of "+t.String(), inRange(r))
		}
		return r
	}
	switch op {
	case token.ADD:
		return ovf("(+ " + x + " " + y + ")")
	case token.SUB:
		return ovf("(- " + x + " " + y + ")")
	case token.MUL:
		return ovf("(* " + x + " " + y + ")")
	case token.QUO, token.REM:
		if checks {
			c.check(fmt.Sprintf("safety.div:%d", c.ordinal("div")), "division by zero", not(eq(y, "0")))
		}
		if op == token.QUO {
			if !ii.signed {
				return "(div " + x + " " + y + ")"
			}
			return ovf("(tdiv " + x + " " + y + ")")
		}
		if !ii.signed {
			return "(mod " + x + " " + y + ")"
		}
		return "(tmod " + x + " " + y + ")"
	case token.SHL, token.SHR:
		if k, ok := constInt(y); ok && k.Sign() >= 0 && k.Int64() < 64 {
			p := smtInt(pow2(int(k.Int64())))
			if op == token.SHL {
				return ovf("(* " + x + " " + p + ")")
			}
			return "(div " + x + " " + p + ")"
		}
		return c.bitUF(op.String(), x, y, ii)
	case token.AND:
		// x & (2^k - 1)
		if k, ok := constInt(y); ok && k.Sign() >= 0 {
			k1 := new(big.Int).Add(k, big.NewInt(1))
			// x & (2^k-1) == x mod 2^k, for signed x as well (two's complement)
			if new(big.Int).And(k, k1).Sign() == 0 {
				return "(mod " + x + " " + smtInt(k1) + ")"
			}
			// x & (2^a - 2^b): a contiguous run of ones from bit b to bit a-1 keeps exactly those bits:
			// (x mod 2^a) - (x mod 2^b); exact for two's-complement x as well
			if k.Sign() > 0 {
				b := k.TrailingZeroBits()
				hi := new(big.Int).Add(k, new(big.Int).Lsh(big.NewInt(1), b))
				if hi.BitLen() > 0 && new(big.Int).And(hi, new(big.Int).Sub(hi, big.NewInt(1))).Sign() == 0 {
					lo := new(big.Int).Lsh(big.NewInt(1), b)
					return "(- (mod " + x + " " + smtInt(hi) + ") (mod " + x + " " + smtInt(lo) + "))"
				}
			}
		}
		return c.bitUF("and", x, y, ii)
	case token.OR:
		return c.bitUF("or", x, y, ii)
	case token.XOR:
		return c.bitUF("xor", x, y, ii)
	case token.AND_NOT:
		return c.bitUF("andnot", x, y, ii)
	}
	c.unsup("int op %s", op)
	return ""
}

// bitUF: uninterpreted bit operation in int mode with range axioms only.
func (c *FnCtx) bitUF(op, x, y string, ii intInfo) string {
	s := "u"
	if ii.signed {
		s = "s"
	}
	f := fmt.Sprintf("bit_%s_%s%d", op, s, ii.bits)
	c.decl("(declare-fun " + f + " (Int Int) Int)")
	inr := func(v string) string { return "(and (<= " + smtInt(ii.min()) + " " + v + ") (<= " + v + " " + smtInt(ii.max()) + "))" }
	c.decl("(assert (forall ((x Int) (y Int)) (! (=> (and " + inr("x") + " " + inr("y") + ") " + inr("("+f+" x y)") + ") :pattern ((" + f + " x y)))))")
	if op == "or" {
		// x | y == x + y when x >= 0 is a multiple of 2^k and 0 <= y < 2^k (byte-assembly idiom b0<<8 | b1)
		top := ii.bits
		if ii.signed {
			top = ii.bits - 1
		}
		for k := 8; k < top; k += 8 {
			p := smtInt(pow2(k))
			c.decl("(assert (forall ((x Int) (y Int)) (! (=> (and (>= x 0) (<= (+ x y) " + smtInt(ii.max()) + ") (= (mod x " + p + ") 0) (<= 0 y) (< y " + p + ")) (= (" + f + " x y) (+ x y))) :pattern ((" + f + " x y)))))")
		}
	}
	if op == "and" && !ii.signed {
		c.decl("(assert (forall ((x Int) (y Int)) (! (=> (and (>= x 0) (>= y 0)) (and (<= (" + f + " x y) x) (<= (" + f + " x y) y))) :pattern ((" + f + " x y)))))")
	}
	return "(" + f + " " + x + " " + y + ")"
}

func (c *FnCtx) strConcat(x, y string) string {
	c.declStrings()
	r := c.fresh("concat", "Slice")
	I := c.mode.idxSort()
	z := c.mode.idxLit(0)
	c.define(and(eq("(s_len "+r+")", c.idxAdd("(s_len "+x+")", "(s_len "+y+")")), eq("(s_off "+r+")", z),
		"(forall ((i "+I+")) (! (=> (and "+c.idxLe(z, "i")+" "+c.idxLt("i", "(s_len "+x+")")+") (= (sbyte "+r+" i) (sbyte "+x+" i))) :pattern ((sbyte "+r+" i))))",
		"(forall ((i "+I+")) (! (=> (and "+c.idxLe(z, "i")+" "+c.idxLt("i", "(s_len "+y+")")+") (= (sbyte "+r+" "+c.idxAdd("(s_len "+x+")", "i")+") (sbyte "+y+" i))) :pattern ((sbyte "+y+" i))))"))
	return r
}

// convert integer x from type ft to tt.
func (c *FnCtx) convInt(x string, ft, tt types.Type, checks bool) string {
	fi, ok1 := intInfoOf(ft)
	ti, ok2 := intInfoOf(tt)
	if !ok1 || !ok2 {
		c.unsup("convInt %s -> %s", ft, tt)
	}
	if c.mode == ModeBV {
		switch {
		case ti.bits == fi.bits:
			return x
		case ti.bits < fi.bits:
			return fmt.Sprintf("((_ extract %d 0) %s)", ti.bits-1, x)
		default:
			if fi.signed {
				return fmt.Sprintf("((_ sign_extend %d) %s)", ti.bits-fi.bits, x)
			}
			return fmt.Sprintf("((_ zero_extend %d) %s)", ti.bits-fi.bits, x)
		}
	}
	// int mode: value preserved iff it fits; otherwise wrap (exact modular semantics).
	if fi.min().Cmp(ti.min()) >= 0 && fi.max().Cmp(ti.max()) <= 0 {
		return x
	}
	if k, ok := constInt(x); ok && k.Cmp(ti.min()) >= 0 && k.Cmp(ti.max()) <= 0 {
		return x
	}
	m := smtInt(pow2(ti.bits))
	if !ti.signed {
		return "(mod " + x + " " + m + ")"
	}
	h := smtInt(pow2(ti.bits - 1))
	return "(- (mod (+ " + x + " " + h + ") " + m + ") " + h + ")"
}

// ------------------------------------------------------------------ pure instruction evaluation

type getter func(ssa.Value) Val

func (c *FnCtx) nilCheck(p Val, checks bool, what string) {
	if !checks || len(p.Path) > 0 {
		return
	}
	if strings.HasPrefix(p.T, "|alloc!") || strings.HasPrefix(p.T, "alloc!") || strings.HasPrefix(p.T, "|global ") || strings.HasPrefix(p.T, "(elt ") {
		return
	}
	c.check(fmt.Sprintf("safety.nil:%d", c.ordinal("nil")), "nil dereference ("+what+")", not(eq(p.T, "0")))
}

func (c *FnCtx) load(p Val, h Heap, checks bool) Val {
	c.nilCheck(p, checks, "load")
	l := c.resolve(p)
	return Val{T: c.loadLoc(l, h), Ty: l.ty}
}

// evalInstr evaluates a value-producing instruction without side effects on the heap.
// It returns ok=false for instructions that are not pure.
func (c *FnCtx) evalInstr(v ssa.Value, get getter, h Heap, checks bool) (Val, bool) {
	switch in := v.(type) {
	case *ssa.BinOp:
		x, y := get(in.X), get(in.Y)
		switch in.Op {
		case token.EQL, token.NEQ, token.LSS, token.LEQ, token.GTR, token.GEQ:
			if x.Opaque || y.Opaque {
				return Val{T: c.fresh("opq_cmp", "Bool"), Ty: in.Type()}, true
			}
			if _, isIface := in.X.Type().Underlying().(*types.Interface); isIface {
				// interface comparison: only nil tests are interpreted
				return Val{T: c.cmpOp(in.Op, x.T, y.T, in.X.Type()), Ty: in.Type()}, true
			}
			if len(x.Path) > 0 || len(y.Path) > 0 {
				// interior pointers are never nil; compare with nil only
				if in.Op == token.EQL {
					return Val{T: "false", Ty: in.Type()}, true
				}
				return Val{T: "true", Ty: in.Type()}, true
			}
			return Val{T: c.cmpOp(in.Op, x.T, y.T, in.X.Type()), Ty: in.Type()}, true
		}
		if x.Opaque || y.Opaque {
			return c.opaqueVal(in.Type(), "arith"), true
		}
		return Val{T: c.arith(in.Op, x.T, y.T, in.Type(), in.Y.Type(), checks), Ty: in.Type()}, true
	case *ssa.UnOp:
		x := get(in.X)
		switch in.Op {
		case token.MUL:
			c.refuseAbsPtr(x)
			return c.load(x, h, checks), true
		case token.NOT:
			return Val{T: not(x.T), Ty: in.Type()}, true
		case token.SUB:
			if x.Opaque {
				return c.opaqueVal(in.Type(), "neg"), true
			}
			ii, _ := intInfoOf(in.Type())
			if c.mode == ModeBV {
				return Val{T: "(bvneg " + x.T + ")", Ty: in.Type()}, true
			}
			r := "(- " + x.T + ")"
			if checks {
				c.check(fmt.Sprintf("safety.ovf:%d", c.ordinal("ovf")), "negation stays in range", "(and (<= "+smtInt(ii.min())+" "+r+") (<= "+r+" "+smtInt(ii.max())+"))")
			}
			return Val{T: r, Ty: in.Type()}, true
		case token.XOR:
			ii, _ := intInfoOf(in.Type())
			if c.mode == ModeBV {
				return Val{T: "(bvnot " + x.T + ")", Ty: in.Type()}, true
			}
			if ii.signed {
				return Val{T: "(- (- " + x.T + ") 1)", Ty: in.Type()}, true
			}
			return Val{T: "(- " + smtInt(ii.max()) + " " + x.T + ")", Ty: in.Type()}, true
		case token.ARROW:
			return Val{}, false
		}
	case *ssa.Convert:
		x := get(in.X)
		ft, tt := in.X.Type(), in.Type()
		_, fi := intInfoOf(ft)
		_, ti := intInfoOf(tt)
		if fi && ti {
			return Val{T: c.convInt(x.T, ft, tt, checks), Ty: tt}, true
		}
		fb, _ := ft.Underlying().(*types.Basic)
		tb, _ := tt.Underlying().(*types.Basic)
		// string <-> []byte
		if fb != nil && fb.Info()&types.IsString != 0 {
			if ts, ok := tt.Underlying().(*types.Slice); ok {
				if b, ok := ts.Elem().Underlying().(*types.Basic); ok && b.Kind() == types.Uint8 {
					return Val{}, false // allocates: handled in exec
				}
			}
		}
		if tb != nil && tb.Info()&types.IsString != 0 {
			if fs, ok := ft.Underlying().(*types.Slice); ok {
				if b, ok := fs.Elem().Underlying().(*types.Basic); ok && b.Kind() == types.Uint8 {
					return Val{T: c.bytesToString(x.T, h), Ty: tt}, true
				}
			}
			if fi {
				return Val{T: c.fresh("runestr", "Slice"), Ty: tt}, true
			}
		}
		// float <-> integer conversions: deterministic uninterpreted functions (floats are opaque)
		if fb != nil && tb != nil && (fb.Info()&types.IsFloat != 0 || tb.Info()&types.IsFloat != 0) && (fi || ti || (fb.Info()&types.IsFloat != 0 && tb.Info()&types.IsFloat != 0)) {
			return Val{T: c.floatConv(x.T, ft, tt), Ty: tt}, true
		}
		if _, isPtr := tt.Underlying().(*types.Pointer); isPtr {
			if tb2, ok := ft.Underlying().(*types.Basic); ok && tb2.Kind() == types.UnsafePointer {
				c.unsup("unsafe.Pointer conversion")
			}
		}
		if tb != nil && tb.Kind() == types.UnsafePointer {
			c.unsup("unsafe.Pointer conversion")
		}
		return c.opaqueVal(tt, "conv"), true
	case *ssa.ChangeType:
		x := get(in.X)
		x.Ty = in.Type()
		if isStruct(in.Type()) && !types.Identical(in.X.Type(), in.Type()) {
			// struct datatypes are keyed by type name: rebuild
			st := in.Type().Underlying().(*types.Struct)
			var fs []string
			c.sortOf(in.X.Type())
			c.sortOf(in.Type())
			for i := 0; i < st.NumFields(); i++ {
				fs = append(fs, "("+c.fieldAcc(in.X.Type(), i)+" "+x.T+")")
			}
			if len(fs) == 0 {
				fs = []string{"true"}
			}
			x.T = "(" + c.structCtor(in.Type()) + " " + strings.Join(fs, " ") + ")"
		}
		if pt, ok := in.Type().Underlying().(*types.Pointer); ok {
			if xp, ok := in.X.Type().Underlying().(*types.Pointer); ok && !types.Identical(pt.Elem(), xp.Elem()) && isStruct(pt.Elem()) {
				c.unsup("pointer ChangeType between distinct struct types %s -> %s", in.X.Type(), in.Type())
			}
		}
		return x, true
	case *ssa.FieldAddr:
		x := get(in.X)
		c.refuseAbsPtr(x)
		c.nilCheck(x, checks, "field address")
		pt := in.X.Type().Underlying().(*types.Pointer)
		r := Val{T: x.T, Ty: in.Type(), BaseTy: x.BaseTy}
		if len(x.Path) == 0 {
			r.BaseTy = pt.Elem()
		}
		r.Path = append(append([]step{}, x.Path...), step{field: in.Field})
		return r, true
	case *ssa.IndexAddr:
		x, i := get(in.X), get(in.Index)
		idx := c.toIdx(i.T, in.Index.Type())
		switch u := in.X.Type().Underlying().(type) {
		case *types.Slice:
			if checks {
				c.check(fmt.Sprintf("safety.index:%d", c.ordinal("index")), "slice index in range", and(c.idxLe(c.mode.idxLit(0), idx), c.idxLt(idx, "(s_len "+x.T+")")))
			}
			pos := c.spos(x.T, idx)
			et := u.Elem()
			if isStruct(et) {
				return Val{T: "(elt (s_reg " + x.T + ") " + pos + ")", Ty: in.Type()}, true
			}
			arrT := types.NewArray(et, 1<<40)
			return Val{T: "(s_reg " + x.T + ")", Ty: in.Type(), BaseTy: arrT, Path: []step{{isIdx: true, idx: pos}}}, true
		case *types.Pointer:
			at := u.Elem().Underlying().(*types.Array)
			c.nilCheck(x, checks, "array index")
			if checks {
				c.check(fmt.Sprintf("safety.index:%d", c.ordinal("index")), "array index in range", and(c.idxLe(c.mode.idxLit(0), idx), c.idxLt(idx, c.mode.idxLit(at.Len()))))
			}
			r := Val{T: x.T, Ty: in.Type(), BaseTy: x.BaseTy}
			if len(x.Path) == 0 {
				r.BaseTy = u.Elem()
			}
			r.Path = append(append([]step{}, x.Path...), step{isIdx: true, idx: idx})
			return r, true
		}
	case *ssa.Field:
		x := get(in.X)
		c.sortOf(in.X.Type())
		return Val{T: "(" + c.fieldAcc(in.X.Type(), in.Field) + " " + x.T + ")", Ty: in.Type()}, true
	case *ssa.Index:
		x, i := get(in.X), get(in.Index)
		idx := c.toIdx(i.T, in.Index.Type())
		switch u := in.X.Type().Underlying().(type) {
		case *types.Array:
			if checks {
				c.check(fmt.Sprintf("safety.index:%d", c.ordinal("index")), "array index in range", and(c.idxLe(c.mode.idxLit(0), idx), c.idxLt(idx, c.mode.idxLit(u.Len()))))
			}
			return Val{T: sel(x.T, idx), Ty: in.Type()}, true
		case *types.Basic: // string (generic code)
			return c.strIndex(x, idx, in.Type(), checks), true
		}
	case *ssa.Lookup:
		if b, ok := in.X.Type().Underlying().(*types.Basic); ok && b.Info()&types.IsString != 0 {
			x, i := get(in.X), get(in.Index)
			return c.strIndex(x, c.toIdx(i.T, in.Index.Type()), in.Type(), checks), true
		}
		return c.mapLookup(in, get, h), true
	case *ssa.Slice:
		return c.sliceOp(in, get, h, checks), true
	case *ssa.Extract:
		t := get(in.Tuple)
		_ = t
		if tv, ok := c.tuples[in.Tuple]; ok {
			return tv[in.Index], true
		}
		c.unsup("extract from unknown tuple %s", in.Tuple.Name())
	case *ssa.MakeInterface:
		x := get(in.X)
		return c.makeIface(x, in.X.Type(), in.Type()), true
	case *ssa.ChangeInterface:
		x := get(in.X)
		x.Ty = in.Type()
		return x, true
	case *ssa.Call:
		if b, ok := in.Call.Value.(*ssa.Builtin); ok {
			switch b.Name() {
			case "len", "cap":
				x := get(in.Call.Args[0])
				return c.lenCap(b.Name(), x, in.Call.Args[0].Type(), h), true
			case "min", "max":
				r := get(in.Call.Args[0])
				for _, a := range in.Call.Args[1:] {
					y := get(a)
					cmp := token.LSS
					if b.Name() == "max" {
						cmp = token.GTR
					}
					r = Val{T: ite(c.cmpOp(cmp, r.T, y.T, in.Type()), r.T, y.T), Ty: in.Type()}
				}
				return r, true
			}
		}
		return Val{}, false
	case *ssa.Phi:
		return get(in), true
	case *ssa.SliceToArrayPointer:
		x := get(in.X)
		at := in.Type().Underlying().(*types.Pointer).Elem().Underlying().(*types.Array)
		if checks {
			c.check(fmt.Sprintf("safety.slice:%d", c.ordinal("slice")), "slice long enough for array conversion", c.idxLe(c.mode.idxLit(at.Len()), "(s_len "+x.T+")"))
		}
		// pointer to region only expressible when offset is zero
		c.unsup("SliceToArrayPointer")
	}
	return Val{}, false
}

func (c *FnCtx) toIdx(t string, ty types.Type) string {
	ii, ok := intInfoOf(ty)
	if !ok {
		c.unsup("index of type %s", ty)
	}
	if c.mode == ModeInt {
		return t
	}
	if ii.bits == 64 {
		return t
	}
	if ii.signed {
		return fmt.Sprintf("((_ sign_extend %d) %s)", 64-ii.bits, t)
	}
	return fmt.Sprintf("((_ zero_extend %d) %s)", 64-ii.bits, t)
}

func (c *FnCtx) strIndex(x Val, idx string, rt types.Type, checks bool) Val {
	c.declStrings()
	if checks {
		c.check(fmt.Sprintf("safety.index:%d", c.ordinal("index")), "string index in range", and(c.idxLe(c.mode.idxLit(0), idx), c.idxLt(idx, "(s_len "+x.T+")")))
	}
	return Val{T: "(sbyte " + x.T + " " + idx + ")", Ty: rt}
}

func (c *FnCtx) lenCap(which string, x Val, t types.Type, h Heap) Val {
	it := types.Typ[types.Int]
	switch u := t.Underlying().(type) {
	case *types.Slice:
		if which == "len" {
			return Val{T: "(s_len " + x.T + ")", Ty: it}
		}
		return Val{T: "(s_cap " + x.T + ")", Ty: it}
	case *types.Basic:
		return Val{T: "(s_len " + x.T + ")", Ty: it}
	case *types.Array:
		return Val{T: c.mode.idxLit(u.Len()), Ty: it}
	case *types.Pointer:
		if at, ok := u.Elem().Underlying().(*types.Array); ok {
			return Val{T: c.mode.idxLit(at.Len()), Ty: it}
		}
	case *types.Map:
		lenH, hasH := c.heapTerm(h, c.mapLenHeap(t)), c.heapTerm(h, c.mapHasHeap(t))
		ks := c.sortOf(u.Key())
		key := "lenmap:" + lenH + hasH + x.T
		if !c.declSet[key] && !c.discover {
			c.declSet[key] = true
			// well-formed maps: length is non-negative, and an empty (or nil) map has no keys
			c.define("(and (" + map[bool]string{true: "bvsge", false: ">="}[c.mode == ModeBV] + " " + sel(lenH, x.T) + " " + c.mode.idxLit(0) + ") (forall ((k " + ks + ")) (! (=> (= " + sel(lenH, x.T) + " " + c.mode.idxLit(0) + ") (not " + sel(sel(hasH, x.T), "k") + ")) :pattern (" + sel(sel(hasH, x.T), "k") + "))))")
		}
		return Val{T: sel(lenH, x.T), Ty: it}
	case *types.Chan:
		return Val{T: c.fresh("chanlen", c.mode.idxSort()), Ty: it}
	}
	c.unsup("len of %s", t)
	return Val{}
}

func (c *FnCtx) bytesToString(x string, h Heap) string {
	c.declStrings()
	r := c.fresh("str", "Slice")
	I := c.mode.idxSort()
	z := c.mode.idxLit(0)
	el := c.heapTerm(h, c.elemsHeap(types.Typ[types.Uint8]))
	c.define(and(eq("(s_len "+r+")", "(s_len "+x+")"), eq("(s_off "+r+")", z),
		"(forall ((i "+I+")) (! (=> (and "+c.idxLe(z, "i")+" "+c.idxLt("i", "(s_len "+x+")")+") (= (sbyte "+r+" i) (select (select "+el+" (s_reg "+x+")) "+c.spos(x, "i")+"))) :pattern ((sbyte "+r+" i))))"))
	return r
}

func (c *FnCtx) sliceOp(in *ssa.Slice, get getter, h Heap, checks bool) Val {
	x := get(in.X)
	z := c.mode.idxLit(0)
	lo := z
	if in.Low != nil {
		lo = c.toIdx(get(in.Low).T, in.Low.Type())
	}
	ck := func(cond string) {
		if checks {
			c.check(fmt.Sprintf("safety.slice:%d", c.ordinal("slice")), "slice bounds in range", cond)
		}
	}
	switch u := in.X.Type().Underlying().(type) {
	case *types.Slice:
		hi := "(s_len " + x.T + ")"
		if in.High != nil {
			hi = c.toIdx(get(in.High).T, in.High.Type())
		}
		mx := "(s_cap " + x.T + ")"
		if in.Max != nil {
			mx = c.toIdx(get(in.Max).T, in.Max.Type())
			ck(and(c.idxLe(z, lo), c.idxLe(lo, hi), c.idxLe(hi, mx), c.idxLe(mx, "(s_cap "+x.T+")")))
		} else {
			ck(and(c.idxLe(z, lo), c.idxLe(lo, hi), c.idxLe(hi, "(s_cap "+x.T+")")))
		}
		return Val{T: "(mk_slice (s_reg " + x.T + ") " + c.idxAdd("(s_off "+x.T+")", lo) + " " + c.idxSub(hi, lo) + " " + c.idxSub(mx, lo) + ")", Ty: in.Type()}
	case *types.Basic: // string
		c.declStrings()
		hi := "(s_len " + x.T + ")"
		if in.High != nil {
			hi = c.toIdx(get(in.High).T, in.High.Type())
		}
		ck(and(c.idxLe(z, lo), c.idxLe(lo, hi), c.idxLe(hi, "(s_len "+x.T+")")))
		return Val{T: c.ssub(x.T, lo, hi), Ty: in.Type()}
	case *types.Pointer:
		at := u.Elem().Underlying().(*types.Array)
		c.nilCheck(x, checks, "slice of array")
		n := c.mode.idxLit(at.Len())
		hi := n
		if in.High != nil {
			hi = c.toIdx(get(in.High).T, in.High.Type())
		}
		mx := n
		if in.Max != nil {
			mx = c.toIdx(get(in.Max).T, in.Max.Type())
		}
		ck(and(c.idxLe(z, lo), c.idxLe(lo, hi), c.idxLe(hi, mx), c.idxLe(mx, n)))
		reg := c.arrayRegion(x)
		if isStruct(at.Elem()) || true {
			return Val{T: "(mk_slice " + reg + " " + lo + " " + c.idxSub(hi, lo) + " " + c.idxSub(mx, lo) + ")", Ty: in.Type()}
		}
	}
	c.unsup("slice of %s", in.X.Type())
	return Val{}
}

// arrayRegion returns the region term for a pointer to array.
func (c *FnCtx) arrayRegion(p Val) string {
	if len(p.Path) == 0 {
		return p.T
	}
	addr := p.T
	ty := p.BaseTy
	for _, s := range p.Path {
		switch u := ty.Underlying().(type) {
		case *types.Struct:
			ft := u.Field(s.field).Type()
			if !isArray(ft) {
				c.unsup("array region through value field %s", ft)
			}
			addr = "(" + c.aregFn(ty, s.field) + " " + addr + ")"
			ty = ft
		case *types.Array:
			if !isStruct(u.Elem()) {
				c.unsup("array region through non-struct array element")
			}
			addr = "(elt " + addr + " " + s.idx + ")"
			ty = u.Elem()
		}
	}
	return addr
}

// ------------------------------------------------------------------ interfaces & maps

func (c *FnCtx) typeTag(t types.Type) string {
	name := sym("tag " + typeName(t))
	c.decl("(declare-const " + name + " Int)")
	c.g.tagMu.Lock()
	id, ok := c.g.tagIDs[name]
	if !ok {
		id = len(c.g.tagIDs) + 1
		c.g.tagIDs[name] = id
	}
	c.g.tagMu.Unlock()
	c.decl(fmt.Sprintf("(assert (= %s %d))", name, id))
	return name
}

func (c *FnCtx) declIface() {
	c.decl("(declare-fun dyn_tag (Int) Int)")
	c.decl("(declare-fun dyn_ptr (Int) Int)")
	c.decl("(declare-fun mk_iface (Int Int) Int)")
	c.decl("(assert (forall ((t Int) (p Int)) (! (and (= (dyn_tag (mk_iface t p)) t) (= (dyn_ptr (mk_iface t p)) p) (not (= (mk_iface t p) 0))) :pattern ((mk_iface t p)))))")
	c.decl("(assert (= (dyn_tag 0) 0))")
}

func (c *FnCtx) makeIface(x Val, from, to types.Type) Val {
	c.declIface()
	switch from.Underlying().(type) {
	case *types.Pointer, *types.Map, *types.Chan, *types.Signature:
		if len(x.Path) > 0 {
			if c.abstract {
				// abstracting tier: the interface holds an opaque non-nil payload of that dynamic type; the callee
				// it is handed to is havoced or under its own contract, and the payload is never dereferenced here
				n := c.fresh("absptr_iface", "Int")
				c.define("(not (= " + n + " 0))")
				c.used["abstracting tier: an interior pointer boxed into an interface is an opaque payload (never dereferenced)"] = true
				return Val{T: "(mk_iface " + c.typeTag(from) + " " + n + ")", Ty: to}
			}
			c.unsup("interior pointer boxed into interface")
		}
		return Val{T: "(mk_iface " + c.typeTag(from) + " " + x.T + ")", Ty: to}
	}
	// non-pointer payload: box through an uninterpreted injection per type
	f := sym("box " + typeName(from))
	c.decl("(declare-fun " + f + " (" + c.sortOf(from) + ") Int)")
	u := sym("unbox " + typeName(from))
	c.decl("(declare-fun " + u + " (Int) " + c.sortOf(from) + ")")
	c.decl("(assert (forall ((v " + c.sortOf(from) + ")) (! (= (" + u + " (" + f + " v)) v) :pattern ((" + f + " v)))))")
	return Val{T: "(mk_iface " + c.typeTag(from) + " (" + f + " " + x.T + "))", Ty: to}
}

func (c *FnCtx) mapHasHeap(t types.Type) string {
	mt := t.Underlying().(*types.Map)
	name := sym("MapHas " + typeName(t))
	if _, ok := c.heap[name]; !ok {
		c.decl("(declare-const " + name + " (Array Int (Array " + c.sortOf(mt.Key()) + " Bool)))")
		c.heap[name] = name
		if c.entry != nil {
			c.entry[name] = name
		}
	}
	return name
}
func (c *FnCtx) mapValHeap(t types.Type) string {
	mt := t.Underlying().(*types.Map)
	name := sym("MapVal " + typeName(t))
	if _, ok := c.heap[name]; !ok {
		c.decl("(declare-const " + name + " (Array Int (Array " + c.sortOf(mt.Key()) + " " + c.sortOf(mt.Elem()) + ")))")
		c.heap[name] = name
		if c.entry != nil {
			c.entry[name] = name
		}
	}
	return name
}
func (c *FnCtx) mapLenHeap(t types.Type) string {
	name := sym("MapLen " + typeName(t))
	if _, ok := c.heap[name]; !ok {
		c.decl("(declare-const " + name + " (Array Int " + c.mode.idxSort() + "))")
		c.heap[name] = name
		if c.entry != nil {
			c.entry[name] = name
		}
	}
	return name
}

func (c *FnCtx) mapKey(k Val, kt types.Type) string {
	if b, ok := kt.Underlying().(*types.Basic); ok && b.Info()&types.IsString != 0 {
		// map keys on strings compare by content: canonicalise through an uninterpreted function
		c.declStrings()
		c.decl("(declare-fun strcanon (Slice) Slice)")
		c.decl("(assert (forall ((a Slice) (b Slice)) (! (= (streq a b) (= (strcanon a) (strcanon b))) :pattern ((streq a b)))))")
		c.decl("(assert (forall ((a Slice)) (! (streq a (strcanon a)) :pattern ((strcanon a)))))")
		return "(strcanon " + k.T + ")"
	}
	return k.T
}

func (c *FnCtx) mapLookup(in *ssa.Lookup, get getter, h Heap) Val {
	m, k := get(in.X), get(in.Index)
	mt := in.X.Type().Underlying().(*types.Map)
	key := c.mapKey(k, mt.Key())
	has := sel(sel(c.heapTerm(h, c.mapHasHeap(in.X.Type())), m.T), key)
	val := sel(sel(c.heapTerm(h, c.mapValHeap(in.X.Type())), m.T), key)
	has = and(not(eq(m.T, "0")), has)
	v := ite(has, val, c.zero(mt.Elem()))
	if in.CommaOk {
		c.tuples[in] = []Val{{T: v, Ty: mt.Elem()}, {T: has, Ty: types.Typ[types.Bool]}}
		return Val{T: "0", Ty: in.Type()}
	}
	return Val{T: v, Ty: mt.Elem()}
}

func (c *FnCtx) sortOfSafe(t types.Type) (s string) {
	defer func() {
		if r := recover(); r != nil {
			s = ""
		}
	}()
	if _, ok := t.(*types.Tuple); ok {
		return ""
	}
	return c.sortOf(t)
}

// floatConv: conversions involving floats are uninterpreted but deterministic functions.
func (c *FnCtx) floatConv(x string, ft, tt types.Type) string {
	f := sym("conv " + typeName(ft.Underlying()) + "->" + typeName(tt.Underlying()))
	c.decl("(declare-fun " + f + " (" + c.sortOf(ft) + ") " + c.sortOf(tt) + ")")
	if ii, ok := intInfoOf(tt); ok && c.mode == ModeInt {
		c.decl("(assert (forall ((x " + c.sortOf(ft) + ")) (! (and (<= " + smtInt(ii.min()) + " (" + f + " x)) (<= (" + f + " x) " + smtInt(ii.max()) + ")) :pattern ((" + f + " x)))))")
	}
	return "(" + f + " " + x + ")"
}

// ssub is the substring s[lo:hi] as a function symbol (defined by an axiom), so that quantifier patterns
// over substrings contain no arithmetic.
func (c *FnCtx) ssub(s, lo, hi string) string {
	c.declStrings()
	I := c.mode.idxSort()
	plus, minus := "+", "-"
	if c.mode == ModeBV {
		plus, minus = "bvadd", "bvsub"
	}
	c.decl("(declare-fun ssub (Slice " + I + " " + I + ") Slice)")
	c.decl("(assert (forall ((s Slice) (lo " + I + ") (hi " + I + ")) (! (= (ssub s lo hi) (mk_slice (s_reg s) (" + plus + " (s_off s) lo) (" + minus + " hi lo) (" + minus + " hi lo))) :pattern ((ssub s lo hi)))))")
	return "(ssub " + s + " " + lo + " " + hi + ")"
}

// smtConstInt parses an SMT integer literal ("5" or "(- 5)").
func smtConstInt(s string) (*big.Int, bool) {
	neg := false
	if strings.HasPrefix(s, "(- ") && strings.HasSuffix(s, ")") {
		neg = true
		s = s[3 : len(s)-1]
	}
	if s == "" {
		return nil, false
	}
	for _, ch := range s {
		if ch < '0' || ch > '9' {
			return nil, false
		}
	}
	v, ok := new(big.Int).SetString(s, 10)
	if !ok {
		return nil, false
	}
	if neg {
		v.Neg(v)
	}
	return v, true
}

// refuseAbsPtr: an opaque merged interior pointer (abstracting tier) must not be dereferenced.
func (c *FnCtx) refuseAbsPtr(x Val) {
	if strings.Contains(x.T, "absptr_") {
		c.unsup("dereference of a merged interior pointer")
	}
}
