package main

import (
	"fmt"
	"go/token"
	"go/types"
	"sort"
	"strings"

	"golang.org/x/tools/go/ssa"
)

type loopInfo struct {
	head   *ssa.BasicBlock
	body   map[*ssa.BasicBlock]bool
	latch  []*ssa.BasicBlock
	ord    int
	writes map[string]bool
}

type blockState struct {
	heap  Heap
	reach string
	ghost map[string]Val
}

// analyseLoops finds natural loops; returns error text for irreducible CFGs.
func (c *FnCtx) analyseLoops() {
	c.loops = map[*ssa.BasicBlock]*loopInfo{}
	for _, b := range c.fn.Blocks {
		for _, s := range b.Succs {
			if s.Dominates(b) { // back edge b -> s
				li := c.loops[s]
				if li == nil {
					li = &loopInfo{head: s, body: map[*ssa.BasicBlock]bool{s: true}, writes: map[string]bool{}}
					c.loops[s] = li
				}
				li.latch = append(li.latch, b)
				// collect body: nodes reaching b without passing s
				stack := []*ssa.BasicBlock{b}
				for len(stack) > 0 {
					n := stack[len(stack)-1]
					stack = stack[:len(stack)-1]
					if li.body[n] {
						continue
					}
					li.body[n] = true
					for _, p := range n.Preds {
						stack = append(stack, p)
					}
				}
			}
		}
	}
	// ordinals in source order of the loop header position
	var heads []*ssa.BasicBlock
	for h := range c.loops {
		heads = append(heads, h)
	}
	sort.Slice(heads, func(i, j int) bool {
		pi, pj := c.blockPos(heads[i], c.loops[heads[i]]), c.blockPos(heads[j], c.loops[heads[j]])
		if pi != pj {
			return pi < pj
		}
		return heads[i].Index < heads[j].Index
	})
	for i, h := range heads {
		c.loops[h].ord = i + 1
	}
	for _, li := range c.loops {
		for blk := range li.body {
			for w := range c.writes[blk] {
				li.writes[w] = true
			}
		}
	}
}

func (c *FnCtx) blockPos(b *ssa.BasicBlock, li *loopInfo) token.Pos {
	// smallest source position among instructions of the loop
	var best token.Pos
	for blk := range li.body {
		for _, in := range blk.Instrs {
			if _, isPhi := in.(*ssa.Phi); isPhi {
				continue // a phi carries the position of the variable's declaration, which may precede the loop
			}
			if p := in.Pos(); p.IsValid() && (best == 0 || p < best) {
				best = p
			}
			if d, ok := in.(*ssa.DebugRef); ok {
				if p := d.Expr.Pos(); p.IsValid() && (best == 0 || p < best) {
					best = p
				}
			}
		}
	}
	return best
}

func (c *FnCtx) isBackEdge(from, to *ssa.BasicBlock) bool {
	li := c.loops[to]
	if li == nil {
		return false
	}
	return to.Dominates(from)
}

// topo orders blocks with back edges removed.
func (c *FnCtx) topo() []*ssa.BasicBlock {
	seen := map[*ssa.BasicBlock]bool{}
	var post []*ssa.BasicBlock
	var dfs func(b *ssa.BasicBlock)
	dfs = func(b *ssa.BasicBlock) {
		seen[b] = true
		for _, s := range b.Succs {
			if c.isBackEdge(b, s) || seen[s] {
				continue
			}
			dfs(s)
		}
		post = append(post, b)
	}
	dfs(c.fn.Blocks[0])
	if c.fn.Recover != nil && !seen[c.fn.Recover] {
		// recover block: not modelled (only reachable through panics)
	}
	for i, j := 0, len(post)-1; i < j; i, j = i+1, j-1 {
		post[i], post[j] = post[j], post[i]
	}
	return post
}

// checkReducible panics with unsupported if a cycle remains after removing back edges.
func (c *FnCtx) checkReducible(order []*ssa.BasicBlock) {
	pos := map[*ssa.BasicBlock]int{}
	for i, b := range order {
		pos[b] = i
	}
	for _, b := range order {
		for _, s := range b.Succs {
			if c.isBackEdge(b, s) {
				continue
			}
			if ps, ok := pos[s]; ok && ps <= pos[b] {
				c.unsup("irreducible control flow")
			}
		}
	}
}

// edgeCond returns the condition under which control flows from p to b.
func (c *FnCtx) edgeCond(p, b *ssa.BasicBlock, st *blockState) string {
	if len(p.Instrs) == 0 {
		return st.reach
	}
	if iff, ok := p.Instrs[len(p.Instrs)-1].(*ssa.If); ok {
		cond := c.val(iff.Cond).T
		if p.Succs[0] == b && p.Succs[1] == b {
			return st.reach
		}
		if p.Succs[0] == b {
			return and(st.reach, cond)
		}
		return and(st.reach, not(cond))
	}
	return st.reach
}

// run executes the function body symbolically, producing items and obligations.
func (c *FnCtx) run() {
	c.entryReach = "true"
	c.runBody()
}

// runBody executes the blocks of c.fn starting from the current heap with reach condition c.entryReach.
func (c *FnCtx) runBody() {
	c.analyseLoops()
	order := c.topo()
	c.checkReducible(order)
	out := map[*ssa.BasicBlock]*blockState{}
	edgeC := map[[2]*ssa.BasicBlock]string{}

	for _, b := range order {
		c.curBlock = b
		c.curIdx = 0
		li := c.loops[b]
		// collect incoming forward edges
		type inEdge struct {
			p    *ssa.BasicBlock
			cond string
			st   *blockState
		}
		var ins []inEdge
		for _, p := range b.Preds {
			if c.isBackEdge(p, b) {
				continue
			}
			st := out[p]
			if st == nil {
				continue // unreachable predecessor (e.g. recover)
			}
			ec := edgeC[[2]*ssa.BasicBlock{p, b}]
			if pl := c.loops[p]; pl != nil && !pl.body[b] {
				// the exit edge of loop pl's own head: the loop ran out (as opposed to a break out of its body)
				if k := fmt.Sprintf("loopdone %d", pl.ord); c.watch[k] {
					g := map[string]Val{}
					for a, v := range st.ghost {
						g[a] = v
					}
					g[k] = Val{T: "true", Ty: boolTy}
					st = &blockState{heap: st.heap, reach: st.reach, ghost: g}
				}
			}
			ins = append(ins, inEdge{p, ec, st})
		}
		if b == c.fn.Blocks[0] {
			c.reach = c.entryReach
		} else {
			if len(ins) == 0 {
				// unreachable in the model
				c.reach = "false"
				c.heap = c.heap.clone()
				out[b] = &blockState{heap: c.heap, reach: "false", ghost: c.ghost}
				// still need to define values to keep later lookups working: skip
				continue
			}
			var conds []string
			for _, e := range ins {
				conds = append(conds, e.cond)
			}
			r := or(conds...)
			if len(r) > 40 {
				rn := c.fresh("R", "Bool")
				c.define(eq(rn, r))
				r = rn
			}
			c.reach = r
			// merge heaps
			nh := Heap{}
			var hs []Heap
			for _, e := range ins {
				hs = append(hs, e.st.heap)
			}
			for _, name := range heapNamesSorted(hs...) {
				t0 := c.heapTerm(ins[0].st.heap, name)
				same := true
				for _, e := range ins[1:] {
					if c.heapTerm(e.st.heap, name) != t0 {
						same = false
					}
				}
				if same {
					nh[name] = t0
					continue
				}
				m := c.heapTerm(ins[len(ins)-1].st.heap, name)
				for i := len(ins) - 2; i >= 0; i-- {
					m = ite(ins[i].cond, c.heapTerm(ins[i].st.heap, name), m)
				}
				if c.discover {
					nh[name] = name
				} else {
					n := c.fresh(strings.Trim(name, "|"), c.heapSort(name))
					c.define(eq(n, m))
					nh[name] = n
					var conds, vers []string
					for _, e := range ins {
						conds = append(conds, e.cond)
						vers = append(vers, c.heapTerm(e.st.heap, name))
					}
					hs := c.heapSort(name)
					valSort := strings.TrimSuffix(strings.TrimPrefix(hs, "(Array Int "), ")")
					c.mergeKnown(n, conds, vers, strings.HasPrefix(strings.Trim(name, "|"), "Elems "), valSort)
				}
			}
			c.heap = nh
			// merge ghost state
			ng := map[string]Val{}
			// a ghost missing on some incoming edge (lastret before any call) is an arbitrary value there
			for i := range ins {
				for k, gv := range ins[i].st.ghost {
					for j := range ins {
						if _, ok := ins[j].st.ghost[k]; !ok {
							cp := map[string]Val{}
							for a, b := range ins[j].st.ghost {
								cp[a] = b
							}
							cp[k] = Val{T: c.fresh("ghost_unset", c.sortOf(gv.Ty)), Ty: gv.Ty}
							ins[j].st.ghost = cp
						}
					}
				}
			}
			for k, v0 := range ins[0].st.ghost {
				m := v0.T
				for i := 1; i < len(ins); i++ {
					if gv, ok := ins[i].st.ghost[k]; ok && gv.T != m {
						m = "" // differs
						break
					}
				}
				if m != "" {
					ng[k] = v0
					continue
				}
				t := ins[len(ins)-1].st.ghost[k].T
				for i := len(ins) - 2; i >= 0; i-- {
					t = ite(ins[i].cond, ins[i].st.ghost[k].T, t)
				}
				ng[k] = Val{T: t, Ty: v0.Ty}
			}
			c.ghost = ng
		}

		// phis (non-loop-header): ite over incoming edges
		if li == nil {
			for _, in := range b.Instrs {
				phi, ok := in.(*ssa.Phi)
				if !ok {
					break
				}
				var t string
				var first Val
				if c.abstract {
					// abstracting tier: a merge of interior pointers becomes an arbitrary non-nil reference that may
					// be copied and compared but never dereferenced (exec refuses a load/store/field address of it)
					interior := false
					for i := range ins {
						if v := c.val(phi.Edges[predIndex(b, ins[i].p)]); len(v.Path) > 0 {
							interior = true
						}
					}
					if interior {
						n := c.fresh("absptr_"+phi.Name(), "Int")
						c.define("(not (= " + n + " 0))")
						c.setVal(phi, Val{T: n, Ty: phi.Type()})
						c.used["abstracting tier: a merge of interior pointers is an opaque reference (never dereferenced)"] = true
						continue
					}
				}
				for i := len(ins) - 1; i >= 0; i-- {
					pi := predIndex(b, ins[i].p)
					v := c.val(phi.Edges[pi])
					if len(v.Path) > 0 {
						c.unsup("interior pointer flows into phi %s", phi.Name())
					}
					first = v
					if t == "" {
						t = v.T
					} else {
						t = ite(ins[i].cond, v.T, t)
					}
				}
				nv := Val{T: t, Ty: phi.Type(), Opaque: first.Opaque && len(ins) == 1}
				if len(t) > 60 || strings.HasPrefix(t, "(ite ") {
					n := c.fresh(phi.Name(), c.sortOf(phi.Type()))
					c.define(eq(n, t))
					nv.T = n
				}
				c.setVal(phi, nv)
			}
		} else {
			c.loopHead(b, li, func() []loopEdge {
				var es []loopEdge
				for _, e := range ins {
					es = append(es, loopEdge{e.p, e.cond, e.st.heap})
				}
				return es
			}())
		}

		// instructions
		for i, in := range b.Instrs {
			c.curIdx = i
			if _, ok := in.(*ssa.Phi); ok {
				continue
			}
			c.exec(in)
		}
		st := &blockState{heap: c.heap, reach: c.reach, ghost: c.ghost}
		out[b] = st
		for _, s := range b.Succs {
			ec := c.edgeCond(b, s, st)
			if c.isBackEdge(b, s) {
				c.backEdge(b, s, ec, st)
				continue
			}
			edgeC[[2]*ssa.BasicBlock{b, s}] = ec
		}
	}
}

func predIndex(b, p *ssa.BasicBlock) int {
	for i, x := range b.Preds {
		if x == p {
			return i
		}
	}
	return -1
}

type loopEdge struct {
	p    *ssa.BasicBlock
	cond string
	heap Heap
}

// loopHead handles a loop header: assert invariants on entry, havoc, assume.
func (c *FnCtx) loopHead(b *ssa.BasicBlock, li *loopInfo, ins []loopEdge) {
	var spec *LoopSpec
	if c.fc != nil {
		spec = c.fc.Loops[li.ord]
	}
	if c.discover {
		// give phis placeholder values
		for _, in := range b.Instrs {
			phi, ok := in.(*ssa.Phi)
			if !ok {
				break
			}
			c.setVal(phi, Val{T: c.zeroOrFresh(phi.Type()), Ty: phi.Type()})
		}
		return
	}
	// 1. invariant on entry edges
	if spec != nil {
		for _, e := range ins {
			subst := map[ssa.Value]Val{}
			for _, in := range b.Instrs {
				phi, ok := in.(*ssa.Phi)
				if !ok {
					break
				}
				subst[phi] = c.val(phi.Edges[predIndex(b, e.p)])
			}
			env := c.loopEnv(b, subst, e.heap)
			for k, inv := range spec.Invariants {
				c.checkClause(fmt.Sprintf("loop%d.init:%d%s", li.ord, k+1, entrySuffix(ins, e.p)), "invariant holds on entry: "+inv.Text, e.cond, env, inv)
			}
		}
	}
	// 2. havoc phis and written heap
	preHeap := c.heap.clone()
	for _, in := range b.Instrs {
		phi, ok := in.(*ssa.Phi)
		if !ok {
			break
		}
		if _, isPtr := phi.Type().Underlying().(*types.Pointer); isPtr {
			// fine: plain pointer
		}
		n := c.fresh(phi.Name()+"_"+phi.Comment, c.sortOf(phi.Type()))
		c.setVal(phi, Val{T: n, Ty: phi.Type()})
		c.assume(c.typeFact(n, phi.Type()))
	}
	// range-over-slice loops: the hidden index satisfies -1 <= idx and idx+1 <= len (trivially inductive:
	// it starts at -1 and advances by one only after idx+1 < len was tested)
	for _, in := range b.Instrs {
		phi, ok := in.(*ssa.Phi)
		if !ok {
			break
		}
		if phi.Comment != "rangeindex" {
			continue
		}
		pv := c.vals[phi].T
		c.assume(c.idxLe(c.mode.idxLit(-1), pv))
		for _, in2 := range b.Instrs {
			if add, ok := in2.(*ssa.BinOp); ok && add.X == phi && add.Op == token.ADD {
				for _, in3 := range b.Instrs {
					if lt, ok := in3.(*ssa.BinOp); ok && lt.X == add && lt.Op == token.LSS {
						if _, known := c.vals[lt.Y]; known || isConst(lt.Y) {
							c.assume(c.idxLe(c.idxAdd(pv, c.mode.idxLit(1)), c.val(lt.Y).T))
							c.used["range loops: hidden index idx satisfies -1 <= idx and idx+1 <= len (inductive by construction)"] = true
						}
					}
				}
			}
		}
	}
	c.heap = c.heap.clone()
	var ws []string
	for w := range li.writes {
		ws = append(ws, w)
	}
	sort.Strings(ws)
	for _, w := range ws {
		if _, ok := c.heap[w]; ok {
			c.heap[w] = c.fresh(strings.Trim(w, "|"), c.heapSort(w))
		}
	}
	// local cells that the loop itself never writes keep their content across the havoc
	if !c.discover {
		for _, a := range c.stillLocalCells() {
			written := false
			for blk := range li.body {
				if c.cellWrites[blk][c.allocOf[a]] {
					written = true
				}
			}
			if written {
				continue
			}
			for _, w := range ws {
				n := strings.Trim(w, "|")
				if !(strings.HasPrefix(n, "H ") || strings.HasPrefix(n, "Cell ") || strings.HasPrefix(n, "Elems ")) {
					continue
				}
				old, cur := preHeap[w], c.heap[w]
				if old == "" || old == cur {
					continue
				}
				c.define(eq(sel(cur, a), sel(old, a)))
				if kv, ok := c.known[old][a]; ok {
					if c.known[cur] == nil {
						c.known[cur] = map[string]string{}
					}
					c.known[cur][a] = kv
				}
				if kv, ok := c.known2[old][a]; ok {
					if c.known2[cur] == nil {
						c.known2[cur] = map[string]string{}
					}
					c.known2[cur][a] = kv
				}
			}
		}
	}
	for k, gv := range c.ghost {
		if li.writes["ghost:"+k] {
			c.ghost[k] = Val{T: c.fresh("ghost_"+k, c.sortOf(gv.Ty)), Ty: gv.Ty}
		}
	}
	if c.headHeap == nil {
		c.headHeap = map[*ssa.BasicBlock]Heap{}
	}
	c.headHeap[b] = c.heap
	if k := fmt.Sprintf("loopdone %d", li.ord); c.watch[k] {
		ng := map[string]Val{}
		for a, v := range c.ghost {
			ng[a] = v
		}
		ng[k] = Val{T: "false", Ty: boolTy}
		c.ghost = ng
	}
	_ = preHeap
	// 3. assume invariants in the havoced state
	if spec != nil {
		subst := map[ssa.Value]Val{}
		env := c.loopEnv(b, subst, c.heap)
		var all []string
		for _, inv := range spec.Invariants {
			t := c.trClause(env, inv)
			c.assume(t)
			all = append(all, t)
		}
		c.cover(fmt.Sprintf("cover:loop%d.head", li.ord), and(c.reach, and(all...)))
		if spec.Decreases != nil {
			d := env.mat(env.tr(spec.Decreases.E))
			c.loopDec[b] = d
		}
	} else if !c.abstract {
		c.notes = append(c.notes, fmt.Sprintf("loop %d has no invariant (treated as invariant true)", li.ord))
	}
}

func (c *FnCtx) zeroOrFresh(t types.Type) string {
	defer func() { recover() }()
	return c.zero(t)
}

// backEdge checks invariant preservation along the edge p -> head.
func (c *FnCtx) backEdge(p, head *ssa.BasicBlock, cond string, st *blockState) {
	li := c.loops[head]
	if c.discover || c.fc == nil {
		return
	}
	spec := c.fc.Loops[li.ord]
	if spec == nil {
		return
	}
	subst := map[ssa.Value]Val{}
	for _, in := range head.Instrs {
		phi, ok := in.(*ssa.Phi)
		if !ok {
			break
		}
		subst[phi] = c.val(phi.Edges[predIndex(head, p)])
	}
	save := c.ghost
	c.ghost = st.ghost
	env := c.loopEnv(head, subst, st.heap)
	if hh, ok := c.headHeap[head]; ok {
		env.headEnv = c.loopEnv(head, map[ssa.Value]Val{}, hh)
	}
	edge := ""
	if len(li.latch) > 1 {
		for n, l := range li.latch {
			if l == p {
				edge = fmt.Sprintf("@edge%d", n+1)
			}
		}
	}
	for k, inv := range spec.Invariants {
		c.checkClause(fmt.Sprintf("loop%d.preserve:%d%s", li.ord, k+1, edge), "invariant preserved: "+inv.Text, cond, env, inv)
	}
	if spec.Decreases != nil {
		d := env.mat(env.tr(spec.Decreases.E))
		old := c.loopDec[head]
		lt, ge := "(< "+d.T+" "+old.T+")", "(>= "+old.T+" 0)"
		if c.mode == ModeBV {
			lt, ge = "(bvslt "+d.T+" "+old.T+")", "(bvsge "+old.T+" (_ bv0 64))"
		}
		c.checkG(fmt.Sprintf("loop%d.decreases%s", li.ord, edge), "variant decreases and is bounded: "+spec.Decreases.Text, cond, and(lt, ge))
	}
	c.ghost = save
}

// loopEnv builds the environment in which a loop invariant is evaluated:
// phis of the header are replaced by subst; other header-block values are recomputed.
func (c *FnCtx) loopEnv(head *ssa.BasicBlock, subst map[ssa.Value]Val, h Heap) *Env {
	memo := map[ssa.Value]Val{}
	var get getter
	get = func(v ssa.Value) Val {
		if x, ok := subst[v]; ok {
			return x
		}
		if x, ok := memo[v]; ok {
			return x
		}
		if in, ok := v.(ssa.Instruction); ok && in.Block() == head {
			if _, isPhi := v.(*ssa.Phi); !isPhi {
				r, ok := c.evalInstr(v, get, h, false)
				if !ok {
					c.unsup("loop invariant depends on impure header value %s", v.Name())
				}
				memo[v] = r
				return r
			}
		}
		return c.val(v)
	}
	env := &Env{c: c, names: map[string]Val{}, heap: h, old: c.entry, pkg: c.pkg, what: "loop invariant of " + c.fn.Name()}
	for _, p := range c.fn.Params {
		env.names["entry_"+p.Name()] = c.vals[p]
	}
	env.lookup = func(name string) (Val, bool) {
		v, isAddr, ok := c.resolveName(name, head, 0, true)
		if !ok {
			return Val{}, false
		}
		x := get(v)
		if isAddr {
			return mkLoc(x), true
		}
		return x, true
	}
	return env
}

func (c *FnCtx) trClause(env *Env, cl Clause) (t string) {
	defer func() {
		if r := recover(); r != nil {
			if se, ok := r.(specErr); ok {
				if c.discover && strings.HasPrefix(se.msg, "lastret-unset") {
					t = "true" // discovery pass: the callee's result type is learnt when its call is reached
					return
				}
				panic(unsupported{fmt.Sprintf("%s:%d: %s", cl.File, cl.Line, se.msg)})
			}
			panic(r)
		}
	}()
	return env.boolT(cl.E)
}

// resolveName maps a source-level variable name to an SSA value at a program point.
func (c *FnCtx) resolveName(name string, b *ssa.BasicBlock, idx int, atLoopHead bool) (ssa.Value, bool, bool) {
	if atLoopHead {
		for _, in := range b.Instrs {
			phi, ok := in.(*ssa.Phi)
			if !ok {
				break
			}
			if phi.Comment == name {
				return phi, false, true
			}
			// rangeidx: the index of the next iteration of a `for … range` loop without a named index
			if name == "rangeidx" && phi.Comment == "rangeindex" {
				for _, in2 := range b.Instrs {
					if bo, ok := in2.(*ssa.BinOp); ok && bo.X == phi && bo.Op == token.ADD {
						return bo, false, true
					}
				}
			}
		}
		// forward search in the loop for a header-defined value bound to the name
		if li := c.loops[b]; li != nil {
			var blocks []*ssa.BasicBlock
			for blk := range li.body {
				blocks = append(blocks, blk)
			}
			sort.Slice(blocks, func(i, j int) bool { return blocks[i].Index < blocks[j].Index })
			for _, blk := range blocks {
				for _, in := range blk.Instrs {
					if d, ok := in.(*ssa.DebugRef); ok && !d.IsAddr && debugName(d) == name {
						if di, ok := d.X.(ssa.Instruction); ok && di.Block() == b {
							// a value computed in the header, or a header phi the compiler named differently
							// (e.g. the hidden iterator of `for i := range n`)
							return d.X, false, true
						}
					}
				}
			}
		}
	}
	// address-taken variables (captured by closures, or whose address escapes) live in an Alloc cell:
	// the name denotes the cell's CURRENT content, not some earlier loaded value
	var cellAlloc *ssa.Alloc
	for _, blk0 := range c.fn.Blocks {
		for _, in := range blk0.Instrs {
			if a, ok := in.(*ssa.Alloc); ok && a.Comment == name && (blk0.Dominates(b)) && (blk0 != b || instrIndex(blk0, a) < idx || atLoopHead) {
				cellAlloc = a
			}
		}
	}
	if cellAlloc != nil {
		return cellAlloc, true, true
	}
	// walk up the dominator tree
	blk := b
	end := idx
	for blk != nil {
		for i := end - 1; i >= 0; i-- {
			if i >= len(blk.Instrs) {
				continue
			}
			switch in := blk.Instrs[i].(type) {
			case *ssa.DebugRef:
				if debugName(in) == name {
					return in.X, in.IsAddr, true
				}
			}
		}
		for _, in := range blk.Instrs {
			phi, ok := in.(*ssa.Phi)
			if !ok {
				break
			}
			if phi.Comment == name && (blk != b || end > 0 || true) {
				return phi, false, true
			}
		}
		blk = blk.Idom()
		if blk != nil {
			end = len(blk.Instrs)
		}
	}
	for _, p := range c.fn.Params {
		if p.Name() == name {
			return p, false, true
		}
	}
	for _, fv := range c.fn.FreeVars {
		if fv.Name() == name {
			return fv, true, true
		}
	}
	// allocs named after variables (address-taken locals)
	for _, blk := range c.fn.Blocks {
		for _, in := range blk.Instrs {
			if a, ok := in.(*ssa.Alloc); ok && a.Comment == name && (blk.Dominates(b)) {
				return a, true, true
			}
		}
	}
	return nil, false, false
}

func debugName(d *ssa.DebugRef) string {
	if id, ok := d.Expr.(interface{ String() string }); ok {
		_ = id
	}
	switch e := d.Expr.(type) {
	case interface{ Name() string }:
		return e.Name()
	}
	return exprIdentName(d)
}

func entrySuffix(ins []loopEdge, p *ssa.BasicBlock) string {
	if len(ins) <= 1 {
		return ""
	}
	for n, e := range ins {
		if e.p == p {
			return fmt.Sprintf("@entry%d", n+1)
		}
	}
	return ""
}

func isConst(v ssa.Value) bool { _, ok := v.(*ssa.Const); return ok }

func instrIndex(b *ssa.BasicBlock, in ssa.Instruction) int {
	for i, x := range b.Instrs {
		if x == in {
			return i
		}
	}
	return -1
}
