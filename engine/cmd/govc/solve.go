package main

import (
	"bytes"
	"context"
	"fmt"
	"os"
	"os/exec"
	"path/filepath"
	"strings"
	"sync"
	"time"
)

type solverSpec struct {
	name string
	args func(timeoutS int, file string) []string
}

var solvers = []solverSpec{
	{"z3-5.1.0", func(t int, f string) []string { return []string{"z3-new", fmt.Sprintf("-T:%d", t), "-smt2", f} }},
	{"cvc5-1.0", func(t int, f string) []string {
		return []string{"cvc5", fmt.Sprintf("--tlimit=%d", t*1000), "--lang=smt2", f}
	}},
	{"z3-4.8.12", func(t int, f string) []string { return []string{"/usr/bin/z3", fmt.Sprintf("-T:%d", t), "-smt2", f} }},
}

type solveResult struct {
	status string // unsat sat unknown timeout error
	out    string
	dur    float64
	solver string
}

func runSolver(s solverSpec, file string, timeoutS int) solveResult {
	ctx, cancel := context.WithTimeout(context.Background(), time.Duration(timeoutS+2)*time.Second)
	defer cancel()
	a := s.args(timeoutS, file)
	cmd := exec.CommandContext(ctx, a[0], a[1:]...)
	var out bytes.Buffer
	cmd.Stdout = &out
	cmd.Stderr = &out
	t0 := time.Now()
	cmd.Run()
	d := time.Since(t0).Seconds()
	text := out.String()
	first := ""
	for _, ln := range strings.Split(text, "\n") {
		ln = strings.TrimSpace(ln)
		if ln == "" || strings.HasPrefix(ln, "WARNING") || strings.HasPrefix(ln, "(warning") {
			continue
		}
		first = ln
		break
	}
	st := "error"
	switch {
	case first == "unsat":
		st = "unsat"
	case first == "sat":
		st = "sat"
	case first == "unknown":
		st = "unknown"
	case first == "timeout" || strings.Contains(text, "timeout") || ctx.Err() != nil:
		st = "timeout"
	case strings.Contains(text, "interrupted"):
		st = "timeout"
	}
	if len(text) > 4000 {
		text = text[:4000]
	}
	return solveResult{status: st, out: text, dur: d, solver: s.name}
}

// discharge runs the solvers on one obligation.
// quick: primary solver first; on anything but a definite answer, race the others.
// agree: require a second solver to confirm unsat (thorough tier).
func discharge(ob *Obligation, workDir string, timeoutS int, agree bool) {
	if ob.Result == "error" {
		return
	}
	if ob.Solver == "syntactic" {
		// decided by the generator over the SSA body (frame.readsglobals): nothing to ask a solver
		return
	}
	if ob.Timeout > 0 && ob.Timeout > timeoutS {
		timeoutS = ob.Timeout
	}
	if ob.Size > 4<<20 {
		ob.Result = "error"
		ob.Output = fmt.Sprintf("query of %d bytes exceeds the 4 MB cap (generator error, not a slow proof)", ob.Size)
		return
	}
	file := filepath.Join(workDir, sanitize(ob.Name)+".smt2")
	if err := os.WriteFile(file, []byte(ob.Script), 0o644); err != nil {
		ob.Result = "error"
		ob.Output = err.Error()
		return
	}
	want := "unsat"
	if ob.Cover {
		want = "sat"
	}
	first := timeoutS
	if first > 4 {
		first = 4
	}
	if ob.Timeout > 0 && ob.Timeout/3 > first {
		// a function that declares a larger budget gets a longer first attempt, so that a query that is merely
		// slowed down by the other solver processes is not restarted three-fold
		first = ob.Timeout / 3
	}
	if ob.Cover {
		// a vacuity probe is refuted if ANY back end proves the assumptions contradictory (an inconsistent axiom
		// set was once found by cvc5 in a second where z3 saw nothing): ask z3 and cvc5 side by side
		var r, r2 solveResult
		var wg sync.WaitGroup
		wg.Add(2)
		go func() { defer wg.Done(); r = runSolver(solvers[0], file, 2) }()
		go func() { defer wg.Done(); r2 = runSolver(solvers[1], file, 3) }()
		wg.Wait()
		if r2.status == "unsat" && r.status != "unsat" {
			r = r2
		}
		ob.Solver, ob.TimeS, ob.Output = r.solver, r.dur, r.out
		ob.Result = r.status
		if r.status != "unsat" && r.status != "error" {
			ob.Result = "sat" // satisfiable or not refuted within the budget: not vacuous as far as the solver can tell
			if r.status != "sat" {
				ob.Output = "not refuted (" + r.status + ")"
			}
			os.Remove(file)
		}
		return
	}
	r := runSolver(solvers[0], file, first)
	total := r.dur
	results := []solveResult{r}
	if r.status != "unsat" && r.status != "sat" {
		// race the remaining solvers (and the primary again with the full budget)
		var mu sync.Mutex
		var wg sync.WaitGroup
		cands := []solverSpec{solvers[1], solvers[2]}
		if timeoutS > first {
			cands = append(cands, solvers[0])
		}
		for _, s := range cands {
			wg.Add(1)
			go func(s solverSpec) {
				defer wg.Done()
				rr := runSolver(s, file, timeoutS)
				mu.Lock()
				results = append(results, rr)
				mu.Unlock()
			}(s)
		}
		wg.Wait()
	}
	var best *solveResult
	for i := range results {
		rr := &results[i]
		if rr.status == want {
			if best == nil || rr.dur < best.dur {
				best = rr
			}
		}
	}
	if best == nil {
		// a definite opposite answer beats unknown
		for i := range results {
			rr := &results[i]
			if rr.status == "sat" || rr.status == "unsat" {
				best = rr
				break
			}
		}
	}
	if best == nil {
		best = &results[0]
		for i := range results {
			if results[i].status == "unknown" {
				best = &results[i]
			}
		}
	}
	ob.Result = best.status
	ob.Solver = best.solver
	ob.TimeS = best.dur
	for _, rr := range results {
		if rr.dur > total {
			total = rr.dur
		}
	}
	ob.Output = best.out
	if agree && best.status == want && !ob.Cover {
		// second opinion from a different back end
		for _, s := range solvers {
			if s.name == best.solver {
				continue
			}
			rr := runSolver(s, file, timeoutS)
			if rr.status == "unsat" {
				ob.Solver = best.solver + "+" + s.name
				break
			}
			if rr.status == "sat" {
				ob.Result = "disagree"
				ob.Output = "back ends disagree: " + best.solver + " unsat, " + s.name + " sat"
				break
			}
		}
	}
	if ob.Result == want && os.Getenv("GOVC_KEEPALL") == "" {
		os.Remove(file)
	}
}

func sanitize(s string) string {
	var sb strings.Builder
	for _, c := range s {
		if c >= 'a' && c <= 'z' || c >= 'A' && c <= 'Z' || c >= '0' && c <= '9' || c == '.' || c == '-' || c == '_' {
			sb.WriteRune(c)
		} else {
			sb.WriteByte('_')
		}
	}
	r := sb.String()
	if len(r) > 180 {
		r = r[:180]
	}
	return r
}

func dischargeAll(obs []*Obligation, workDir string, timeoutS int, agree bool, par int) {
	os.MkdirAll(workDir, 0o755)
	sem := make(chan struct{}, par)
	var wg sync.WaitGroup
	for _, ob := range obs {
		wg.Add(1)
		sem <- struct{}{}
		go func(ob *Obligation) {
			defer wg.Done()
			defer func() { <-sem }()
			discharge(ob, workDir, timeoutS, agree)
		}(ob)
	}
	wg.Wait()
}

// getModel reruns z3 on a failed obligation asking for the values of the given terms.
func getModel(ob *Obligation, workDir string, terms []string) string {
	if len(terms) == 0 {
		return ""
	}
	file := filepath.Join(workDir, sanitize(ob.Name)+".model.smt2")
	script := ob.Script + "(get-value (" + strings.Join(terms, " ") + "))\n"
	os.WriteFile(file, []byte(script), 0o644)
	r := runSolver(solvers[0], file, 20)
	os.Remove(file)
	if r.status != "sat" {
		return ""
	}
	i := strings.Index(r.out, "\n")
	if i < 0 {
		return ""
	}
	return strings.TrimSpace(r.out[i+1:])
}
