package main

import (
	"fmt"
	"go/types"
	"regexp"
	"strings"

	"golang.org/x/tools/go/ssa"
)

var pathPrefixRe = regexp.MustCompile(`[A-Za-z0-9_.\-]+/`)

func normAnchor(s string) string {
	return strings.Join(strings.Fields(pathPrefixRe.ReplaceAllString(s, "")), " ")
}

// pointEnv builds an environment resolving source names at the current program point.
func (c *FnCtx) pointEnv(what string) *Env {
	b, idx := c.curBlock, c.curIdx
	env := &Env{c: c, names: map[string]Val{}, heap: c.heap, old: c.entry, pkg: c.pkg, what: what}
	for _, p := range c.fn.Params {
		env.names["entry_"+p.Name()] = c.vals[p]
	}
	env.lookup = func(name string) (Val, bool) {
		v, isAddr, ok := c.resolveName(name, b, idx, false)
		if !ok {
			return Val{}, false
		}
		x := c.val(v)
		if isAddr {
			return mkLoc(x), true
		}
		return x, true
	}
	return env
}

func (c *FnCtx) anchorAsserts(key string, bind func(env *Env)) {
	if c.fc == nil || c.discover {
		return
	}
	nk := normAnchor(key)
	for i, a := range c.fc.Asserts {
		if normAnchor(a.Anchor) != nk {
			continue
		}
		c.anchorsHit[a.Anchor] = true
		env := c.pointEnv("assert at " + a.Anchor)
		bind(env)
		if a.Possible {
			// a possibility claim: this point stays reachable with the condition true (refuted => violation)
			c.cover(fmt.Sprintf("cover:possible:%s:%d", normAnchor(a.Anchor), i+1), and(c.reach, c.trClause(env, a.Clause)))
			continue
		}
		c.checkClause(fmt.Sprintf("assert:%s:%d", normAnchor(a.Anchor), i+1), "assert at "+a.Anchor+": "+a.Text, c.reach, env, a.Clause)
	}
}

// afterCallAnchor handles "assert at after call X#k" and "assume at after call X#k" clauses:
// result0.. are the call's results, arg0.. its arguments.
func (c *FnCtx) afterCallAnchor(key string, args, results []Val) {
	if c.fc == nil || c.discover {
		return
	}
	bind := func(env *Env) {
		for i, a := range args {
			env.names[fmt.Sprintf("arg%d", i)] = a
		}
		for i, r := range results {
			env.names[fmt.Sprintf("result%d", i)] = r
			if len(results) == 1 {
				env.names["result"] = r
			}
		}
	}
	c.anchorAsserts(key, bind)
	nk := normAnchor(key)
	for _, a := range c.fc.Assumes {
		if normAnchor(a.Anchor) != nk {
			continue
		}
		c.anchorsHit["assume:"+a.Anchor] = true
		env := c.pointEnv("assume at " + a.Anchor)
		bind(env)
		c.assume(c.trClause(env, a.Clause))
		c.used["ASSUMED in contract of "+shortName(c.fn.String())+" ("+a.Anchor+"): "+a.Text] = true
	}
}

func (c *FnCtx) callAnchor(site ssa.Instruction, name string, ord int, args []Val) {
	if name == "" {
		return
	}
	key := fmt.Sprintf("call %s#%d", shortName(name), ord)
	c.anchorAsserts(key, func(env *Env) {
		for i, a := range args {
			env.names[fmt.Sprintf("arg%d", i)] = a
		}
	})
	// effect counters: count calls to watched callees
	if c.fc != nil {
		n := normAnchor(shortName(name))
		for g := range c.ghost {
			if strings.HasPrefix(g, "calls_") {
				_ = n
			}
		}
	}
	c.countCall(name)
}

// countCall maintains ghost counters "calls(<callee>)" used by effect assertions.
func (c *FnCtx) countCall(name string) {
	k := "calls " + normAnchor(shortName(name))
	if c.watch[k] {
		cur, ok := c.ghost[k]
		if !ok {
			cur = Val{T: c.mode.idxLit(0), Ty: intTy}
		}
		c.setGhost(k, Val{T: c.idxAdd(cur.T, c.mode.idxLit(1)), Ty: intTy})
	}
}

func (c *FnCtx) setGhost(k string, v Val) {
	if strings.HasPrefix(k, "lastret ") {
		if c.lastretTy == nil {
			c.lastretTy = map[string]types.Type{}
		}
		c.lastretTy[k] = v.Ty
	}
	if c.discover {
		if c.writes[c.wblk()] == nil {
			c.writes[c.wblk()] = map[string]bool{}
		}
		c.writes[c.wblk()]["ghost:"+k] = true
		if !strings.HasPrefix(k, "lastret ") {
			return
		}
	}
	ng := map[string]Val{}
	for a, b := range c.ghost {
		ng[a] = b
	}
	if len(v.T) > 40 {
		n := c.fresh("ghost", c.sortOf(v.Ty))
		c.define(eq(n, v.T))
		v.T = n
	}
	ng[k] = v
	c.ghost = ng
}

func (c *FnCtx) storeAnchor(in *ssa.Store, p Val, l location, v Val) {
	if c.fc == nil || len(c.fc.Asserts) == 0 {
		return
	}
	// name: T.f of the innermost field step
	name := ""
	if len(p.Path) > 0 && !p.Path[len(p.Path)-1].isIdx {
		bt := p.BaseTy
		for _, s := range p.Path[:len(p.Path)-1] {
			switch u := bt.Underlying().(type) {
			case *types.Struct:
				bt = u.Field(s.field).Type()
			case *types.Array:
				bt = u.Elem()
			}
		}
		if st, ok := bt.Underlying().(*types.Struct); ok {
			name = typeName(bt) + "." + st.Field(p.Path[len(p.Path)-1].field).Name()
		}
	}
	if name == "" {
		return
	}
	ord := c.storeOrdOf[in]
	if ord == 0 {
		c.storeOrd[name]++
		ord = 1000 + c.storeOrd[name]
	}
	key := fmt.Sprintf("store %s#%d", name, ord)
	c.anchorAsserts(key, func(env *Env) {
		env.names["value"] = v
		env.names["target"] = Val{T: p.T, Ty: types.NewPointer(p.BaseTy)}
	})
}

// miscOrd: source-order ordinal of a builtin/map-update site (dynamic counter for sites inside inlined callees).
func (c *FnCtx) miscOrd(kind string, in ssa.Instruction, cc *ssa.CallCommon) int {
	if in != nil {
		if n, ok := c.miscOrdOf[in]; ok && len(c.inlineStack) == 0 {
			return n
		}
	}
	if cc != nil {
		if n, ok := c.miscOrdCC[cc]; ok && len(c.inlineStack) == 0 {
			return n
		}
	}
	c.storeOrd[kind]++
	return 1000 + c.storeOrd[kind]
}

func (c *FnCtx) mapStoreAnchor(in *ssa.MapUpdate, m Val, key string, v Val) {
	c.anchorAsserts(fmt.Sprintf("mapupdate#%d", c.miscOrd("mapupdate", in, nil)), func(env *Env) {
		env.names["value"] = v
		env.names["themap"] = m
	})
}
func (c *FnCtx) mapDeleteAnchor(res *ssa.Call, m Val, key string) {
	var in ssa.Instruction
	if res != nil {
		in = res
	}
	c.anchorAsserts(fmt.Sprintf("mapdelete#%d", c.miscOrd("mapdelete", in, nil)), func(env *Env) { env.names["themap"] = m })
}
func (c *FnCtx) appendAnchor(cc *ssa.CallCommon, s, t Val) {
	c.anchorAsserts(fmt.Sprintf("append#%d", c.miscOrd("append", nil, cc)), func(env *Env) {
		env.names["dst"] = s
		env.names["src"] = t
	})
}
func (c *FnCtx) copyAnchor(cc *ssa.CallCommon, d, s Val, n string) {
	c.anchorAsserts(fmt.Sprintf("copy#%d", c.miscOrd("copy", nil, cc)), func(env *Env) {
		env.names["dst"] = d
		env.names["src"] = s
	})
}

func (c *FnCtx) returnAnchor(in *ssa.Return, env *Env) {
	if c.fc == nil || c.discover {
		return
	}
	key := fmt.Sprintf("return#%d", c.retCount)
	nk := normAnchor(key)
	for i, a := range c.fc.Asserts {
		na := normAnchor(a.Anchor)
		if na != nk && na != "return" {
			continue
		}
		c.anchorsHit[a.Anchor] = true
		pe := c.pointEnv("assert at " + a.Anchor)
		for k, v := range env.names {
			if strings.HasPrefix(k, "result") {
				pe.names[k] = v
			}
		}
		// parameters by name resolve to current values through lookup; entry values as old-style names
		for _, p := range c.fn.Params {
			pe.names["entry_"+p.Name()] = c.vals[p]
		}
		if a.Possible {
			c.cover(fmt.Sprintf("cover:possible:%s:%d", key, i+1), and(c.reach, c.trClause(pe, a.Clause)))
			continue
		}
		c.checkClause(fmt.Sprintf("assert:%s:%d", key, i+1), "assert at "+key+": "+a.Text, c.reach, pe, a.Clause)
	}
}

// ------------------------------------------------------------------ frames

// frameCheck emits the obligation that a written location is permitted by the modifies clause.
func (c *FnCtx) frameCheck(p Val, l location) {
	if c.fc == nil || c.discover || !c.fc.HasMod || c.fc.ModAll || c.abstract {
		return
	}
	c.frameCheckLoc(l, "store")
}

func (c *FnCtx) frameCheckLoc(l location, what string) {
	addr := l.a1
	if l.cellTy != nil {
		addr = l.cellAddr
	}
	var okc []string
	for _, a := range c.allocs {
		okc = append(okc, eq(addr, a))
		okc = append(okc, eq("(elt_r "+addr+")", a))
	}
	if !c.fc.ModNone || len(c.fc.Modifies) > 0 {
		env := c.preEnv()
		env.heap = c.entry
		for _, m := range c.fc.Modifies {
			okc = append(okc, c.frameCovers(env, m, l, addr))
		}
	}
	c.check(fmt.Sprintf("frame:%d", c.ordinal("frame")), what+" target permitted by modifies clause", or(okc...))
}

// frameCoversWhole: clause m covers the whole heap array of location l (heap(T.f) or pkgheap).
func (c *FnCtx) frameCoversWhole(env *Env, m Clause, l location) bool {
	call, ok := m.E.(*ECall)
	if !ok {
		return false
	}
	id, ok := call.Fun.(*EIdent)
	if !ok || (id.Name != "heap" && id.Name != "pkgheap" && id.Name != "allelems") {
		return false
	}
	return c.frameCovers(env, m, l, l.a1) == "true"
}

func (c *FnCtx) frameCovers(env *Env, m Clause, l location, addr string) (res string) {
	if m.Pkg != "" {
		if p := c.g.typesPkgs[m.Pkg]; p != nil && p != env.pkg {
			ne := *env
			ne.pkg = p
			env = &ne
		}
	}
	defer func() {
		if r := recover(); r != nil {
			if se, ok := r.(specErr); ok {
				panic(unsupported{fmt.Sprintf("%s:%d: modifies: %s", m.File, m.Line, se.msg)})
			}
			panic(r)
		}
	}()
	if call, ok := m.E.(*ECall); ok {
		if id, ok := call.Fun.(*EIdent); ok {
			switch id.Name {
			case "elems":
				s := env.tr(call.Args[0])
				et := s.Ty.Underlying().(*types.Slice).Elem()
				if isStruct(et) {
					if l.cellTy != nil && types.Identical(l.cellTy, et) || strings.HasPrefix(l.arr, "|H "+typeName(et)+".") {
						return eq("(elt_r "+addr+")", "(s_reg "+s.T+")")
					}
					return "false"
				}
				if l.arr == c.elemsHeap(et) {
					if l.a2 == "" {
						return "false"
					}
					return and(eq(l.a1, "(s_reg "+s.T+")"), c.idxLe("(s_off "+s.T+")", l.a2), c.idxLt(l.a2, c.idxAdd("(s_off "+s.T+")", "(s_cap "+s.T+")")))
				}
				return "false"
			case "heap":
				tf := typeArgText(call.Args[0])
				if l.arr == sym("H "+typeNameOfText(env, tf)) {
					return "true"
				}
				return "false"
			case "ghost":
				return "false"
			case "allelems":
				t := env.typeOf(typeArgText(call.Args[0]))
				if isStruct(t) {
					if strings.HasPrefix(l.arr, "|H "+typeName(t)+".") || (l.cellTy != nil && types.Identical(l.cellTy, t)) {
						return "true"
					}
					return "false"
				}
				if l.arr == c.elemsHeap(t) {
					return "true"
				}
				return "false"
			case "pkgheap":
				st, ok := call.Args[0].(*EStr)
				if !ok {
					env.fail("pkgheap needs a string literal")
				}
				if l.arr != "" && heapInPkg(l.arr, st.Val) {
					return "true"
				}
				if l.cellTy != nil && strings.HasPrefix(typeName(l.cellTy), st.Val+".") {
					return "true"
				}
				return "false"
			}
		}
	}
	v := env.trRaw(m.E)
	if !env.isLoc(v) {
		env.fail("modifies clause is not a location: %s", m.Text)
	}
	v.Opaque, v.Num = false, nil
	ml := c.resolve(v)
	if ml.cellTy != nil {
		// whole cell: any field of that cell
		if l.cellTy != nil {
			return eq(addr, ml.cellAddr)
		}
		if strings.HasPrefix(l.arr, "|H "+typeName(ml.cellTy)+".") {
			return eq(l.a1, ml.cellAddr)
		}
		return "false"
	}
	if l.cellTy != nil || ml.arr != l.arr {
		return "false"
	}
	r := eq(l.a1, ml.a1)
	if ml.a2 != "" {
		r = and(r, eq(l.a2, ml.a2))
	}
	return r
}

func typeNameOfText(env *Env, tf string) string {
	i := strings.LastIndex(tf, ".")
	t := env.typeOf(tf[:i])
	return typeName(t) + "." + tf[i+1:]
}

func (c *FnCtx) finalFrame() {}

// ------------------------------------------------------------------ atomics

func atomicKind(name string) (op string, ok bool) {
	// typed atomics: (*sync/atomic.Uint32).Add etc.; function forms: sync/atomic.AddUint32
	if strings.HasPrefix(name, "(*sync/atomic.") {
		i := strings.Index(name, ").")
		return name[i+2:], true
	}
	if strings.HasPrefix(name, "sync/atomic.") {
		f := strings.TrimPrefix(name, "sync/atomic.")
		for _, p := range []string{"CompareAndSwap", "Load", "Store", "Add", "Swap", "And", "Or"} {
			if strings.HasPrefix(f, p) {
				return p, true
			}
		}
	}
	return "", false
}

// atomicCall models sync/atomic operations. Locations with a declared atomic invariant get
// interference semantics; others are sequential.
func (c *FnCtx) atomicCall(name string, cc *ssa.CallCommon, args []Val, setRes func([]Val)) bool {
	op, ok := atomicKind(name)
	if !ok || len(args) == 0 {
		return false
	}
	p := args[0]
	pt, isPtr := p.Ty.Underlying().(*types.Pointer)
	if !isPtr {
		return false
	}
	// typed atomics wrap a struct with field v
	target := p
	if st, ok := pt.Elem().Underlying().(*types.Struct); ok {
		fi := -1
		for i := 0; i < st.NumFields(); i++ {
			if st.Field(i).Name() == "v" {
				fi = i
			}
		}
		if fi < 0 {
			if strings.Contains(name, "atomic.Value") || strings.Contains(name, "atomic.Pointer") {
				return c.atomicOpaque(op, p, cc, setRes)
			}
			return false
		}
		if strings.Contains(name, "atomic.Pointer[") {
			return c.atomicOpaque(op, p, cc, setRes)
		}
		target = Val{T: p.T, Ty: types.NewPointer(st.Field(fi).Type()), BaseTy: p.BaseTy}
		if len(p.Path) == 0 {
			target.BaseTy = pt.Elem()
		}
		target.Path = append(append([]step{}, p.Path...), step{field: fi})
	}
	c.nilCheck(p, true, "atomic")
	l := c.resolve(target)
	vt := l.ty
	inv := c.atomicInvFor(p)
	cur := Val{T: c.loadLoc(l, c.heap), Ty: vt}
	c.assume(c.typeFact(cur.T, vt)) // a value read from memory carries its type's range
	if inv != nil {
		// interference: the value read is arbitrary but satisfies the invariant
		hv := c.havocVal(vt, "atomic")
		c.assume(c.atomicInvTerm(inv, p, hv))
		cur = hv
		c.used["atomic single-location invariant on "+inv.Loc+" (Owicki-Gries style, one location)"] = true
	} else {
		c.used["sequential semantics for atomics without declared invariant (no interference)"] = true
	}
	publish := func(nv Val) {
		if inv != nil {
			c.check(fmt.Sprintf("atomic.%s:%d", inv.Loc, c.ordinal("atomic")), "published value satisfies the atomic invariant of "+inv.Loc, c.atomicInvTerm(inv, p, nv))
		}
		c.frameCheck(target, l)
		c.storeLoc(l, nv.T)
	}
	isBool := strings.Contains(name, "atomic.Bool")
	conv := func(v Val) Val {
		if isBool {
			// atomic.Bool stores uint32
			ii, _ := intInfoOf(vt)
			return Val{T: ite(v.T, c.mode.lit(bigOne, ii), c.mode.lit(bigZero, ii)), Ty: vt}
		}
		return v
	}
	unconv := func(v Val) Val {
		if isBool {
			ii, _ := intInfoOf(vt)
			return Val{T: not(eq(v.T, c.mode.lit(bigZero, ii))), Ty: boolTy}
		}
		return v
	}
	switch op {
	case "Load":
		setRes([]Val{unconv(cur)})
	case "Store":
		publish(conv(args[1]))
		setRes(nil)
	case "Add":
		nv := Val{T: c.arithWrap("+", cur.T, args[1].T, vt), Ty: vt}
		publish(nv)
		setRes([]Val{nv})
	case "Swap":
		publish(conv(args[1]))
		setRes([]Val{unconv(cur)})
	case "CompareAndSwap":
		old, nw := conv(args[1]), conv(args[2])
		ok := c.fresh("cas_ok", "Bool")
		if inv == nil {
			c.define(eq(ok, eq(cur.T, old.T)))
		} else {
			c.assume(implies(ok, eq(cur.T, old.T)))
		}
		// publish only on success
		if inv != nil {
			c.checkG(fmt.Sprintf("atomic.%s:%d", inv.Loc, c.ordinal("atomic")), "CAS publishes a value satisfying the atomic invariant of "+inv.Loc, and(c.reach, ok), c.atomicInvTerm(inv, p, nw))
		}
		c.frameCheck(target, l)
		c.storeLoc(l, ite(ok, nw.T, cur.T))
		setRes([]Val{{T: ok, Ty: boolTy}})
	default:
		return false
	}
	return true
}

func (c *FnCtx) atomicOpaque(op string, p Val, cc *ssa.CallCommon, setRes func([]Val)) bool {
	// atomic.Value / atomic.Pointer: loads return arbitrary values, stores have no modelled effect
	c.used["atomic.Value/Pointer contents are opaque (loads return arbitrary values)"] = true
	rt := cc.Signature().Results()
	var out []Val
	for i := 0; i < rt.Len(); i++ {
		out = append(out, c.havocVal(rt.At(i).Type(), "atomicptr"))
	}
	setRes(out)
	return true
}

func (c *FnCtx) arithWrap(op, x, y string, t types.Type) string {
	ii, _ := intInfoOf(t)
	if c.mode == ModeBV {
		return "(bvadd " + x + " " + y + ")"
	}
	m := smtInt(pow2(ii.bits))
	if !ii.signed {
		return "(mod (+ " + x + " " + y + ") " + m + ")"
	}
	h := smtInt(pow2(ii.bits - 1))
	return "(- (mod (+ (+ " + x + " " + y + ") " + h + ") " + m + ") " + h + ")"
}

// atomicInvFor finds the declared invariant for the location p points to (by T.f of the last field step).
func (c *FnCtx) atomicInvFor(p Val) *AtomicInv {
	if len(p.Path) == 0 || p.Path[len(p.Path)-1].isIdx {
		return nil
	}
	bt := p.BaseTy
	for _, s := range p.Path[:len(p.Path)-1] {
		switch u := bt.Underlying().(type) {
		case *types.Struct:
			bt = u.Field(s.field).Type()
		case *types.Array:
			bt = u.Elem()
		}
	}
	st, ok := bt.Underlying().(*types.Struct)
	if !ok {
		return nil
	}
	nt, ok := bt.(*types.Named)
	if !ok {
		return nil
	}
	loc := nt.Obj().Name() + "." + st.Field(p.Path[len(p.Path)-1].field).Name()
	for _, a := range c.g.cs.Atomics {
		if a.Loc == loc && nt.Obj().Pkg() != nil && a.Pkg == nt.Obj().Pkg().Path() {
			return a
		}
	}
	return nil
}

// atomicInvTerm instantiates the invariant for the owner object of p and value v.
func (c *FnCtx) atomicInvTerm(a *AtomicInv, p Val, v Val) string {
	owner := Val{T: p.T, Ty: types.NewPointer(p.BaseTy)}
	if len(p.Path) > 1 {
		c.unsup("atomic invariant on nested location")
	}
	env := &Env{c: c, names: map[string]Val{"self": owner, a.Var: v}, heap: c.heap, old: c.entry, pkg: c.g.typesPkgs[a.Pkg], what: "atomic invariant " + a.Loc}
	return c.trClause(env, a.Clause)
}
