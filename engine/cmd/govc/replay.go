package main

import (
	"fmt"
)

// replayObligation writes the replay file of a failed obligation and tries to reproduce
// the failure on the real code. It returns the replay path and whether the real code reproduced it.
func replayObligation(g *Gen, repo, verif, prop string, ob *Obligation, work string) (string, bool) {
	extra := map[string]any{}
	if ob.Result == "sat" && g != nil {
		if m := modelFor(g, ob, work); m != "" {
			extra["model"] = m
		}
	}
	rp := writeReplay(verif, prop, ob, extra)
	return rp, false
}

func modelFor(g *Gen, ob *Obligation, work string) string {
	fn := g.funcs[ob.Fn]
	if fn == nil {
		return ""
	}
	var terms []string
	for _, p := range fn.Params {
		terms = append(terms, sym("p_"+p.Name()))
	}
	return getModel(ob, work, terms)
}

func cmdReplay(args []string) int {
	fmt.Println("replay: see the replay file; re-run the check to re-evaluate the obligation")
	return 0
}
