package main

// Counterexample replay.
//
// A failed obligation is only a failed proof. To turn it into a demonstrated violation the engine
//   1. asks the solver for a candidate input of the function (the failing query itself, and the same query with
//      every quantified assertion dropped — a relaxation that is decidable and always yields a model),
//   2. runs the REAL function on that input: an in-package Go test injected with `go test -overlay`, nothing is
//      written to the repository,
//   3. evaluates the contract on the observed run with the solver: the precondition must be PROVED to hold for the
//      concrete input, and the postcondition must be PROVED impossible for the concrete input/output pair
//      (so uninterpreted or assumed symbols can never produce a "reproduced" verdict), or the real code panicked
//      although the contract promises no panic.
// Only then does the VIOLATION line lose its "no-failing-input-found" suffix. Everything else stays a failed
// obligation reported as before. Functions outside the replayable class (see shapeOf) are never replayed.

import (
	"encoding/json"
	"fmt"
	"go/types"
	"math/big"
	"os"
	"os/exec"
	"path/filepath"
	"regexp"
	"sort"
	"strconv"
	"strings"
	"sync"
	"time"

	"golang.org/x/tools/go/ssa"
)

var replayMu sync.Mutex

// replayRunDeadline bounds the time one check run spends replaying (set by cmdCheck; far future otherwise).
var replayRunDeadline = time.Now().Add(24 * time.Hour)

// ---------------------------------------------------------------- shapes and concrete values

type rshape struct {
	kind   string // int bool string bytes array struct ptr error
	ty     types.Type
	n      int
	fields []rfield
	elem   *rshape
}

type rfield struct {
	idx  int
	name string
	sh   *rshape
}

type cval struct {
	N   string  `json:"n,omitempty"` // decimal integer
	B   bool    `json:"b,omitempty"`
	S   []int   `json:"s,omitempty"` // bytes of a string / []byte / elements of an integer array
	Len int     `json:"len,omitempty"`
	Nil bool    `json:"nil,omitempty"`
	F   []*cval `json:"f,omitempty"`
	Set bool    `json:"set,omitempty"` // value known (false: unobserved / default)
}

const maxReplayLen = 48

func nameable(t types.Type, pkg *types.Package) bool {
	n, ok := t.(*types.Named)
	if !ok {
		_, basic := t.(*types.Basic)
		return basic
	}
	if n.TypeArgs() != nil && n.TypeArgs().Len() > 0 {
		return false
	}
	o := n.Obj()
	if o.Pkg() == nil {
		return true
	}
	if o.Parent() != o.Pkg().Scope() {
		return false // local type
	}
	return o.Pkg() == pkg || o.Exported()
}

func shapeOf(t types.Type, pkg *types.Package, depth int, result bool) *rshape {
	if depth > 3 {
		return nil
	}
	if types.Identical(t, types.Universe.Lookup("error").Type()) {
		if result {
			return &rshape{kind: "error", ty: t}
		}
		return nil
	}
	switch u := t.Underlying().(type) {
	case *types.Basic:
		if !nameable(t, pkg) {
			return nil
		}
		if u.Kind() == types.Bool {
			return &rshape{kind: "bool", ty: t}
		}
		if u.Kind() == types.String {
			return &rshape{kind: "string", ty: t}
		}
		if _, ok := intInfoOf(t); ok && u.Info()&types.IsUntyped == 0 {
			return &rshape{kind: "int", ty: t}
		}
	case *types.Slice:
		if b, ok := u.Elem().(*types.Basic); ok && b.Kind() == types.Uint8 {
			if _, named := t.(*types.Named); named && !nameable(t, pkg) {
				return nil
			}
			return &rshape{kind: "bytes", ty: t}
		}
	case *types.Array:
		if _, ok := intInfoOf(u.Elem()); ok && u.Len() <= 32 && nameable(u.Elem(), pkg) {
			if _, named := t.(*types.Named); named && !nameable(t, pkg) {
				return nil
			}
			return &rshape{kind: "array", ty: t, n: int(u.Len()), elem: &rshape{kind: "int", ty: u.Elem()}}
		}
	case *types.Struct:
		if _, named := t.(*types.Named); !named || !nameable(t, pkg) {
			return nil
		}
		sh := &rshape{kind: "struct", ty: t}
		for i := 0; i < u.NumFields(); i++ {
			f := u.Field(i)
			if f.Name() == "_" || !(f.Exported() || f.Pkg() == pkg) {
				continue
			}
			fs := shapeOf(f.Type(), pkg, depth+1, result)
			if fs == nil || fs.kind == "ptr" || fs.kind == "error" {
				continue // left at its zero value / unobserved
			}
			sh.fields = append(sh.fields, rfield{idx: i, name: f.Name(), sh: fs})
		}
		return sh
	case *types.Pointer:
		if depth > 0 {
			return nil
		}
		if _, ok := u.Elem().Underlying().(*types.Struct); !ok {
			return nil
		}
		es := shapeOf(u.Elem(), pkg, depth+1, result)
		if es == nil {
			return nil
		}
		return &rshape{kind: "ptr", ty: t, elem: es}
	}
	return nil
}

// ---------------------------------------------------------------- plan

type replayPlan struct {
	g       *Gen
	fn      *ssa.Function
	fc      *FuncContract
	params  []*rshape
	results []*rshape // nil entries: unobserved
	pkg     *types.Package
	dir     string
	pure    bool
}

func (g *Gen) planReplay(fnName string) (*replayPlan, string) {
	fn := g.funcs[fnName]
	if fn == nil {
		return nil, "no such function"
	}
	fc := g.contractFor(fn.String(), fn)
	if fc == nil {
		return nil, "no contract"
	}
	if fn.Parent() != nil {
		return nil, "closure"
	}
	if fn.Pkg == nil || fn.TypeParams().Len() > 0 || len(fn.TypeArgs()) > 0 || fn.Signature.Variadic() {
		return nil, "generic, variadic or synthetic function"
	}
	if fc.Abstract {
		return nil, "abstracting tier (effects on shared state, not a function of its inputs)"
	}
	p := &replayPlan{g: g, fn: fn, fc: fc, pkg: fn.Pkg.Pkg}
	// pure: the call cannot change caller-visible state (syntactic), so one heap describes both states
	p.pure = g.isPure(fn)
	for _, prm := range fn.Params {
		sh := shapeOf(prm.Type(), p.pkg, 0, false)
		if sh == nil {
			return nil, fmt.Sprintf("parameter %s of type %s cannot be constructed from a model", prm.Name(), prm.Type())
		}
		p.params = append(p.params, sh)
	}
	rs := fn.Signature.Results()
	for i := 0; i < rs.Len(); i++ {
		p.results = append(p.results, shapeOf(rs.At(i).Type(), p.pkg, 0, true))
	}
	pos := fn.Prog.Fset.Position(fn.Pos())
	if !pos.IsValid() {
		return nil, "no source position"
	}
	p.dir = filepath.Dir(pos.Filename)
	return p, ""
}

// ---------------------------------------------------------------- SMT terms of a shape

type leaf struct {
	term string
	dst  func(v string)
}

func declared(script, name string) bool {
	return strings.Contains(script, "(declare-const "+name+" ") || strings.Contains(script, "(declare-fun "+name+" ") || strings.Contains(script, "(define-fun "+name+" ")
}

// collect lists the model terms still needed to complete cv. script == "" means "everything is declared".
func (c *FnCtx) collect(sh *rshape, term string, cv *cval, script string, out *[]leaf) {
	I := func(i int) string { return c.mode.idxLit(int64(i)) }
	switch sh.kind {
	case "int":
		if !cv.Set {
			ii, _ := intInfoOf(sh.ty)
			*out = append(*out, leaf{term, func(v string) { cv.N = decodeInt(v, ii).String(); cv.Set = true }})
		}
	case "bool":
		if !cv.Set {
			*out = append(*out, leaf{term, func(v string) { cv.B = strings.TrimSpace(v) == "true"; cv.Set = true }})
		}
	case "string", "bytes":
		if !cv.Set {
			*out = append(*out, leaf{"(s_len " + term + ")", func(v string) {
				n := decodeInt(v, intInfo{64, true})
				if n.Sign() < 0 || n.Cmp(big.NewInt(maxReplayLen)) > 0 {
					cv.Len = -1
				} else {
					cv.Len = int(n.Int64())
				}
				cv.Set = true
			}})
			if sh.kind == "bytes" {
				*out = append(*out, leaf{"(s_reg " + term + ")", func(v string) { cv.Nil = decodeInt(v, intInfo{64, true}).Sign() == 0 }})
			}
			return
		}
		if cv.Len > 0 && len(cv.S) == 0 {
			cv.S = make([]int, cv.Len)
			for i := 0; i < cv.Len; i++ {
				i := i
				var t string
				if sh.kind == "string" {
					if script != "" && !declared(script, "sbyte") {
						continue
					}
					t = "(sbyte " + term + " " + I(i) + ")"
				} else {
					h := sym("Elems uint8")
					if script != "" && !declared(script, h) {
						continue
					}
					t = "(select (select " + h + " (s_reg " + term + ")) " + c.spos(term, I(i)) + ")"
				}
				*out = append(*out, leaf{t, func(v string) {
					cv.S[i] = int(new(big.Int).And(decodeInt(v, intInfo{8, false}), big.NewInt(255)).Int64())
				}})
			}
		}
	case "array":
		if !cv.Set {
			cv.S = make([]int, sh.n)
			cv.Set = true
			ii, _ := intInfoOf(sh.elem.ty)
			if cv.F == nil {
				cv.F = make([]*cval, sh.n)
			}
			for i := 0; i < sh.n; i++ {
				i := i
				cv.F[i] = &cval{}
				*out = append(*out, leaf{"(select " + term + " " + I(i) + ")", func(v string) { cv.F[i].N = decodeInt(v, ii).String(); cv.F[i].Set = true }})
			}
		}
	case "struct":
		if cv.F == nil {
			cv.F = make([]*cval, len(sh.fields))
			for i := range cv.F {
				cv.F[i] = &cval{}
			}
		}
		cv.Set = true
		for i, f := range sh.fields {
			c.collect(f.sh, "("+c.fieldAcc(sh.ty, f.idx)+" "+term+")", cv.F[i], script, out)
		}
	case "ptr":
		if !cv.Set {
			*out = append(*out, leaf{term, func(v string) { cv.Nil = decodeInt(v, intInfo{64, true}).Sign() == 0; cv.Set = true }})
			return
		}
		if cv.Nil {
			return
		}
		es := sh.elem
		if cv.F == nil {
			cv.F = make([]*cval, len(es.fields))
			for i := range cv.F {
				cv.F[i] = &cval{}
			}
		}
		for i, f := range es.fields {
			h := sym("H " + typeName(es.ty) + "." + f.name)
			if script != "" && !declared(script, h) {
				continue
			}
			if script == "" {
				h = c.fieldHeap(es.ty, f.idx)
			}
			c.collect(f.sh, "(select "+h+" "+term+")", cv.F[i], script, out)
		}
	}
}

// facts equates term with the concrete value.
func (c *FnCtx) facts(sh *rshape, term string, cv *cval) []string { return c.factsH(sh, term, cv, nil) }

// factsH: as facts, reading heap arrays through the given view (nil: the entry heap).
func (c *FnCtx) factsH(sh *rshape, term string, cv *cval, hv Heap) []string {
	if cv == nil {
		return nil
	}
	H := func(name string) string {
		if t, ok := hv[name]; ok {
			return t
		}
		return name
	}
	I := func(i int) string { return c.mode.idxLit(int64(i)) }
	var fs []string
	switch sh.kind {
	case "int":
		if cv.Set {
			ii, _ := intInfoOf(sh.ty)
			n, _ := new(big.Int).SetString(cv.N, 10)
			fs = append(fs, eq(term, c.mode.lit(n, ii)))
		}
	case "bool":
		if cv.Set {
			if cv.B {
				fs = append(fs, term)
			} else {
				fs = append(fs, "(not "+term+")")
			}
		}
	case "string", "bytes":
		if !cv.Set {
			return nil
		}
		fs = append(fs, eq("(s_len "+term+")", I(cv.Len)))
		if sh.kind == "bytes" {
			if cv.Nil {
				fs = append(fs, eq("(s_reg "+term+")", "0"))
			} else {
				fs = append(fs, "(not "+eq("(s_reg "+term+")", "0")+")")
			}
		} else {
			c.declStrings()
		}
		for i := 0; i < cv.Len && i < len(cv.S); i++ {
			lit := c.mode.lit(big.NewInt(int64(cv.S[i])), intInfo{8, false})
			if sh.kind == "string" {
				fs = append(fs, eq("(sbyte "+term+" "+I(i)+")", lit))
			} else {
				h := H(c.elemsHeap(types.Typ[types.Uint8]))
				fs = append(fs, eq("(select (select "+h+" (s_reg "+term+")) "+c.spos(term, I(i))+")", lit))
			}
		}
	case "array":
		if !cv.Set {
			return nil
		}
		for i := 0; i < sh.n && i < len(cv.F); i++ {
			fs = append(fs, c.factsH(sh.elem, "(select "+term+" "+I(i)+")", cv.F[i], hv)...)
		}
	case "struct":
		c.sortOf(sh.ty)
		for i, f := range sh.fields {
			if i < len(cv.F) {
				fs = append(fs, c.factsH(f.sh, "("+c.fieldAcc(sh.ty, f.idx)+" "+term+")", cv.F[i], hv)...)
			}
		}
	case "ptr":
		if !cv.Set {
			return nil
		}
		if cv.Nil {
			return []string{eq(term, "0")}
		}
		fs = append(fs, "(not "+eq(term, "0")+")")
		for i, f := range sh.elem.fields {
			if i < len(cv.F) {
				fs = append(fs, c.factsH(f.sh, "(select "+H(c.fieldHeap(sh.elem.ty, f.idx))+" "+term+")", cv.F[i], hv)...)
			}
		}
	case "error":
		if !cv.Set {
			return nil
		}
		if cv.Nil {
			return []string{eq(term, "0")}
		}
		return []string{"(not " + eq(term, "0") + ")"}
	}
	return fs
}

func decodeInt(v string, ii intInfo) *big.Int {
	v = strings.TrimSpace(v)
	n := new(big.Int)
	switch {
	case strings.HasPrefix(v, "#x"):
		n.SetString(v[2:], 16)
		bits := 4 * (len(v) - 2)
		if ii.signed && bits == ii.bits && n.Bit(bits-1) == 1 {
			n.Sub(n, new(big.Int).Lsh(big.NewInt(1), uint(bits)))
		}
	case strings.HasPrefix(v, "#b"):
		n.SetString(v[2:], 2)
		bits := len(v) - 2
		if ii.signed && bits == ii.bits && n.Bit(bits-1) == 1 {
			n.Sub(n, new(big.Int).Lsh(big.NewInt(1), uint(bits)))
		}
	case strings.HasPrefix(v, "(_ bv"):
		f := strings.Fields(strings.Trim(v, "()"))
		if len(f) >= 3 {
			n.SetString(strings.TrimPrefix(f[1], "bv"), 10)
			bits, _ := strconv.Atoi(f[2])
			if ii.signed && bits == ii.bits && n.Bit(bits-1) == 1 {
				n.Sub(n, new(big.Int).Lsh(big.NewInt(1), uint(bits)))
			}
		}
	case strings.HasPrefix(v, "(-"):
		n.SetString(strings.TrimSpace(strings.Trim(v[2:], "() ")), 10)
		n.Neg(n)
	default:
		n.SetString(v, 10)
	}
	return n
}

// ---------------------------------------------------------------- s-expressions

// topForms splits a script into its top-level parenthesised forms.
func topForms(s string) []string {
	var out []string
	depth, start := 0, -1
	inBar, inStr := false, false
	for i := 0; i < len(s); i++ {
		ch := s[i]
		if inBar {
			if ch == '|' {
				inBar = false
			}
			continue
		}
		if inStr {
			if ch == '"' {
				inStr = false
			}
			continue
		}
		switch ch {
		case '|':
			inBar = true
		case '"':
			inStr = true
		case ';':
			for i < len(s) && s[i] != '\n' {
				i++
			}
		case '(':
			if depth == 0 {
				start = i
			}
			depth++
		case ')':
			depth--
			if depth == 0 && start >= 0 {
				out = append(out, s[start:i+1])
				start = -1
			}
		}
	}
	return out
}

// pairValues parses the answer of (get-value (t1 t2 ...)): the value of each pair, in order.
func pairValues(out string) []string {
	forms := topForms(out)
	if len(forms) == 0 {
		return nil
	}
	inner := forms[0]
	inner = inner[1 : len(inner)-1]
	var vals []string
	for _, p := range topForms(inner) {
		// p = (term value): value is the last element
		body := strings.TrimSpace(p[1 : len(p)-1])
		el := splitElems(body)
		if len(el) < 2 {
			vals = append(vals, "")
			continue
		}
		vals = append(vals, el[len(el)-1])
	}
	return vals
}

func splitElems(s string) []string {
	var out []string
	i := 0
	for i < len(s) {
		for i < len(s) && (s[i] == ' ' || s[i] == '\n' || s[i] == '\t') {
			i++
		}
		if i >= len(s) {
			break
		}
		st := i
		switch s[i] {
		case '(':
			d := 0
			inBar := false
			for ; i < len(s); i++ {
				if inBar {
					if s[i] == '|' {
						inBar = false
					}
					continue
				}
				if s[i] == '|' {
					inBar = true
				} else if s[i] == '(' {
					d++
				} else if s[i] == ')' {
					d--
					if d == 0 {
						i++
						break
					}
				}
			}
		case '|':
			i++
			for i < len(s) && s[i] != '|' {
				i++
			}
			i++
		default:
			for i < len(s) && s[i] != ' ' && s[i] != '\n' && s[i] != '\t' && s[i] != '(' && s[i] != ')' {
				i++
			}
		}
		out = append(out, s[st:i])
	}
	return out
}

var quantRe = regexp.MustCompile(`\((forall|exists) `)
var bitUFRe = regexp.MustCompile(`^\(declare-fun \|?bit_(and|or|xor|andnot|<<|>>)_([us])(\d+)\|? `)

// relax drops every assertion that contains a quantifier: fewer constraints, so every model of the original query
// is still a model, and the remainder is (mostly) decidable.
func relax(script string) string {
	var sb strings.Builder
	for _, f := range topForms(script) {
		if strings.HasPrefix(f, "(check-sat") || strings.HasPrefix(f, "(get-") {
			continue
		}
		if strings.HasPrefix(f, "(assert") && quantRe.MatchString(f) {
			continue
		}
		sb.WriteString(f + "\n")
	}
	return sb.String()
}

func stripCheck(script string) string {
	var sb strings.Builder
	for _, f := range topForms(script) {
		if strings.HasPrefix(f, "(check-sat") || strings.HasPrefix(f, "(get-") {
			continue
		}
		sb.WriteString(f + "\n")
	}
	return sb.String()
}

// ---------------------------------------------------------------- candidates

// entryCtx declares the parameters as verifyFunc does (same symbol names), without assuming the precondition.
func (p *replayPlan) entryCtx() (*FnCtx, []Val) {
	c := p.g.newCtx(p.fn, p.fc, modeOf(p.fc))
	c.evalMode = true
	c.discover = false
	if len(p.fn.Blocks) > 0 {
		c.curBlock = p.fn.Blocks[0]
	}
	var vals []Val
	for _, prm := range p.fn.Params {
		n := sym("p_" + prm.Name())
		c.decl("(declare-const " + n + " " + c.sortOf(prm.Type()) + ")")
		v := Val{T: n, Ty: prm.Type()}
		c.setVal(prm, v)
		c.define(c.typeFact(n, prm.Type()))
		vals = append(vals, v)
	}
	return c, vals
}

func solveValues(base string, terms []string, file string, timeoutS int) ([]string, string) {
	script := base + "(check-sat)\n(get-value (" + strings.Join(terms, " ") + "))\n"
	os.WriteFile(file, []byte(script), 0o644)
	defer os.Remove(file)
	r := runSolver(solvers[0], file, timeoutS)
	if os.Getenv("GOVC_REPLAY_DEBUG") != "" {
		o := r.out
		if len(o) > 600 {
			o = o[:600]
		}
		fmt.Fprintf(os.Stderr, "replay-debug solveValues %d terms: %s\n", len(terms), strings.ReplaceAll(o, "\n", " | "))
	}
	if r.status != "sat" && r.status != "unknown" {
		return nil, r.status
	}
	i := strings.Index(r.out, "\n")
	if i < 0 {
		return nil, r.status
	}
	rest := strings.TrimSpace(r.out[i+1:])
	if !strings.HasPrefix(rest, "((") {
		return nil, r.status
	}
	vals := pairValues(rest)
	if len(vals) != len(terms) {
		return nil, r.status
	}
	return vals, r.status
}

// candidate extracts one input from the (possibly relaxed) failing query. block lists assertions excluding
// earlier candidates.
func (p *replayPlan) candidate(base string, block []string, work, tag string) ([]*cval, string) {
	// short strings and slices first: the real run and the concrete evaluation both want small inputs
	hasLen := false
	for _, sh := range p.params {
		if sh.kind == "string" || sh.kind == "bytes" {
			hasLen = true
		}
	}
	if !hasLen {
		b := base
		if strings.HasPrefix(base, concretiseMark) {
			b = concretise(strings.TrimPrefix(base, concretiseMark), 3)
		}
		return p.candidateB(b, block, work, tag, -1)
	}
	for _, k := range []int{3, 8, 24, maxReplayLen} {
		b := base
		if strings.HasPrefix(base, concretiseMark) {
			b = concretise(strings.TrimPrefix(base, concretiseMark), k)
		}
		if cvs, blk := p.candidateB(b, block, work, tag, k); cvs != nil {
			return cvs, blk
		}
	}
	return nil, ""
}

const concretiseMark = "; concretise\n"

func (p *replayPlan) candidateB(base string, block []string, work, tag string, lenBound int) ([]*cval, string) {
	c, vals := p.entryCtx()
	cvs := make([]*cval, len(p.params))
	for i := range cvs {
		cvs[i] = &cval{}
	}
	script := base + strings.Join(block, "\n") + "\n"
	if lenBound >= 0 {
		for i, sh := range p.params {
			if sh.kind == "string" || sh.kind == "bytes" {
				script += "(assert " + c.idxLe("(s_len "+vals[i].T+")", c.mode.idxLit(int64(lenBound))) + ")\n"
			}
		}
	}
	var blockEq []string
	for round := 0; round < 4; round++ {
		var ls []leaf
		for i, sh := range p.params {
			c.collect(sh, vals[i].T, cvs[i], base, &ls)
		}
		if len(ls) == 0 {
			break
		}
		var terms []string
		for _, l := range ls {
			terms = append(terms, l.term)
		}
		got, _ := solveValues(script, terms, filepath.Join(work, "cand-"+tag+".smt2"), 10)
		if got == nil {
			return nil, ""
		}
		for i, l := range ls {
			l.dst(got[i])
			// keep later rounds (and the caller's blocking clause) consistent with what was read
			script += "(assert (= " + l.term + " " + got[i] + "))\n"
			if round == 0 {
				blockEq = append(blockEq, "(= "+l.term+" "+got[i]+")")
			}
		}
	}
	for i, sh := range p.params {
		if !complete(sh, cvs[i]) {
			return nil, ""
		}
	}
	blk := ""
	if len(blockEq) > 0 {
		blk = "(assert (not (and " + strings.Join(blockEq, " ") + ")))"
	}
	return cvs, blk
}

func complete(sh *rshape, cv *cval) bool {
	switch sh.kind {
	case "string", "bytes":
		return cv.Set && cv.Len >= 0
	case "int", "bool":
		return cv.Set
	case "ptr":
		return cv.Set
	}
	return true
}

// ---------------------------------------------------------------- running the real code

type goWriter struct {
	pkg     *types.Package
	imports map[string]string // path -> name
}

func (w *goWriter) typeStr(t types.Type) string {
	return types.TypeString(t, func(p *types.Package) string {
		if p == w.pkg {
			return ""
		}
		w.imports[p.Path()] = p.Name()
		return p.Name()
	})
}

func bytesLit(bs []int, n int) string {
	var sb strings.Builder
	sb.WriteByte('"')
	for i := 0; i < n; i++ {
		b := 0
		if i < len(bs) {
			b = bs[i]
		}
		fmt.Fprintf(&sb, "\\x%02x", b&255)
	}
	sb.WriteByte('"')
	return sb.String()
}

func (w *goWriter) lit(sh *rshape, cv *cval) string {
	switch sh.kind {
	case "int":
		n := "0"
		if cv != nil && cv.Set {
			n = cv.N
		}
		return w.typeStr(sh.ty) + "(" + n + ")"
	case "bool":
		return w.typeStr(sh.ty) + "(" + strconv.FormatBool(cv != nil && cv.B) + ")"
	case "string":
		if cv == nil || !cv.Set {
			return w.typeStr(sh.ty) + `("")`
		}
		return w.typeStr(sh.ty) + "(" + bytesLit(cv.S, cv.Len) + ")"
	case "bytes":
		if cv == nil || !cv.Set || (cv.Nil && cv.Len == 0) {
			return w.typeStr(sh.ty) + "(nil)"
		}
		return w.typeStr(sh.ty) + "(" + bytesLit(cv.S, cv.Len) + ")"
	case "array":
		var es []string
		for i := 0; i < sh.n; i++ {
			var e *cval
			if cv != nil && i < len(cv.F) {
				e = cv.F[i]
			}
			es = append(es, w.lit(sh.elem, e))
		}
		return w.typeStr(sh.ty) + "{" + strings.Join(es, ", ") + "}"
	case "struct":
		var es []string
		for i, f := range sh.fields {
			var e *cval
			if cv != nil && i < len(cv.F) {
				e = cv.F[i]
			}
			if e == nil {
				continue
			}
			es = append(es, f.name+": "+w.lit(f.sh, e))
		}
		return w.typeStr(sh.ty) + "{" + strings.Join(es, ", ") + "}"
	case "ptr":
		if cv == nil || !cv.Set || cv.Nil {
			return "(" + w.typeStr(sh.ty) + ")(nil)"
		}
		return "&" + w.lit(sh.elem, cv)
	}
	return "nil"
}

func (w *goWriter) observe(sh *rshape, expr, path string, sb *strings.Builder) {
	switch sh.kind {
	case "int":
		fmt.Fprintf(sb, "\tfmt.Printf(\"GOVC-REPLAY %s=%%d\\n\", %s)\n", path, expr)
	case "bool":
		fmt.Fprintf(sb, "\tfmt.Printf(\"GOVC-REPLAY %s=%%t\\n\", %s)\n", path, expr)
	case "string":
		fmt.Fprintf(sb, "\tfmt.Printf(\"GOVC-REPLAY %s=%%x.\\n\", []byte(%s))\n", path, expr)
	case "bytes":
		fmt.Fprintf(sb, "\tfmt.Printf(\"GOVC-REPLAY %s=%%x.\\n\", []byte(%s))\n", path, expr)
		fmt.Fprintf(sb, "\tfmt.Printf(\"GOVC-REPLAY %s.nil=%%t\\n\", %s == nil)\n", path, expr)
	case "error":
		fmt.Fprintf(sb, "\tfmt.Printf(\"GOVC-REPLAY %s.nil=%%t\\n\", %s == nil)\n", path, expr)
	case "ptr":
		fmt.Fprintf(sb, "\tfmt.Printf(\"GOVC-REPLAY %s.nil=%%t\\n\", %s == nil)\n", path, expr)
	case "array":
		for i := 0; i < sh.n; i++ {
			w.observe(sh.elem, fmt.Sprintf("%s[%d]", expr, i), fmt.Sprintf("%s[%d]", path, i), sb)
		}
	case "struct":
		for _, f := range sh.fields {
			w.observe(f.sh, expr+"."+f.name, path+"."+f.name, sb)
		}
	}
}

func readObserved(sh *rshape, path string, m map[string]string) *cval {
	cv := &cval{}
	switch sh.kind {
	case "int":
		if v, ok := m[path]; ok {
			cv.N, cv.Set = v, true
		}
	case "bool":
		if v, ok := m[path]; ok {
			cv.B, cv.Set = v == "true", true
		}
	case "string", "bytes":
		if v, ok := m[path]; ok {
			v = strings.TrimSuffix(v, ".")
			for i := 0; i+1 < len(v); i += 2 {
				b, _ := strconv.ParseUint(v[i:i+2], 16, 8)
				cv.S = append(cv.S, int(b))
			}
			cv.Len, cv.Set = len(cv.S), true
			if cv.Len > 4*maxReplayLen {
				cv.Set = false
			}
			cv.Nil = m[path+".nil"] == "true"
		}
	case "error":
		if v, ok := m[path+".nil"]; ok {
			cv.Nil, cv.Set = v == "true", true
		}
	case "ptr":
		if v, ok := m[path+".nil"]; ok && v == "true" {
			cv.Nil, cv.Set = true, true
		}
		// a non-nil pointer result is left unobserved (its target is not read back)
	case "array":
		cv.Set = true
		for i := 0; i < sh.n; i++ {
			cv.F = append(cv.F, readObserved(sh.elem, fmt.Sprintf("%s[%d]", path, i), m))
		}
	case "struct":
		cv.Set = true
		for _, f := range sh.fields {
			cv.F = append(cv.F, readObserved(f.sh, path+"."+f.name, m))
		}
	}
	return cv
}

// testSource renders the in-package test that calls the real function on the inputs.
func (p *replayPlan) testSource(in []*cval) string {
	w := &goWriter{pkg: p.pkg, imports: map[string]string{}}
	var body strings.Builder
	var args []string
	for i, sh := range p.params {
		fmt.Fprintf(&body, "\ta%d := %s\n", i, w.lit(sh, in[i]))
		args = append(args, fmt.Sprintf("a%d", i))
	}
	for i, sh := range p.params {
		if sh.kind == "bytes" || sh.kind == "ptr" {
			fmt.Fprintf(&body, "\tc%d := %s\n", i, w.lit(sh, in[i]))
		}
	}
	call := ""
	if p.fn.Signature.Recv() != nil {
		call = "a0." + p.fn.Name() + "(" + strings.Join(args[1:], ", ") + ")"
	} else {
		call = p.fn.Name() + "(" + strings.Join(args, ", ") + ")"
	}
	var rs []string
	for i := range p.results {
		rs = append(rs, fmt.Sprintf("r%d", i))
	}
	if len(rs) > 0 {
		fmt.Fprintf(&body, "\t%s := %s\n", strings.Join(rs, ", "), call)
	} else {
		fmt.Fprintf(&body, "\t%s\n", call)
	}
	for i, sh := range p.results {
		if sh == nil {
			fmt.Fprintf(&body, "\t_ = r%d\n", i)
			continue
		}
		w.observe(sh, fmt.Sprintf("r%d", i), fmt.Sprintf("r%d", i), &body)
	}
	if !p.pure {
		for i, sh := range p.params {
			switch sh.kind {
			case "bytes":
				w.observe(sh, fmt.Sprintf("a%d", i), fmt.Sprintf("in%d", i), &body)
			case "ptr":
				if in[i] != nil && in[i].Set && !in[i].Nil {
					w.observe(sh.elem, fmt.Sprintf("(*a%d)", i), fmt.Sprintf("in%d", i), &body)
				}
			}
		}
	}
	for i, sh := range p.params {
		if sh.kind == "bytes" || sh.kind == "ptr" {
			w.imports["reflect"] = "reflect"
			fmt.Fprintf(&body, "\tfmt.Printf(\"GOVC-REPLAY in%d.unchanged=%%t\\n\", reflect.DeepEqual(a%d, c%d))\n", i, i, i)
		}
	}
	body.WriteString("\tfmt.Println(\"GOVC-REPLAY done=true\")\n")
	var imps []string
	for path, name := range w.imports {
		if path == "fmt" || path == "testing" {
			continue
		}
		imps = append(imps, fmt.Sprintf("\t%s %q\n", name, path))
	}
	sort.Strings(imps)
	return "package " + p.pkg.Name() + "\n\n// Generated by govc: replays a verifier counterexample on the real " + shortName(p.fn.String()) + ".\n\nimport (\n\t\"fmt\"\n\t\"testing\"\n" + strings.Join(imps, "") + ")\n\n" +
		"func TestGovcReplay(t *testing.T) {\n\tdefer func() {\n\t\tif r := recover(); r != nil {\n\t\t\tfmt.Printf(\"GOVC-REPLAY panic=%q\\n\", fmt.Sprint(r))\n\t\t}\n\t}()\n" + body.String() + "}\n"
}

// runReal executes the test against the tree the program was loaded from (working tree plus the mutation overlay).
func (p *replayPlan) runReal(src, work string) (map[string]string, string) {
	os.MkdirAll(work, 0o755)
	testFile := filepath.Join(work, "zz_govc_replay_test.go")
	os.WriteFile(testFile, []byte(src), 0o644)
	repl := map[string]string{filepath.Join(p.dir, "zz_govc_replay_test.go"): testFile}
	n := 0
	for f, b := range p.g.overlay {
		n++
		tmp := filepath.Join(work, fmt.Sprintf("ov%d_%s", n, filepath.Base(f)))
		os.WriteFile(tmp, b, 0o644)
		repl[f] = tmp
	}
	ovb, _ := json.Marshal(map[string]any{"Replace": repl})
	ovFile := filepath.Join(work, "overlay.json")
	os.WriteFile(ovFile, ovb, 0o644)
	rel, err := filepath.Rel(p.g.repo, p.dir)
	if err != nil {
		return nil, err.Error()
	}
	cmd := exec.Command("go", "test", "-overlay", ovFile, "-vet=off", "-count=1", "-timeout", "60s", "-v", "-run", "^TestGovcReplay$", "./"+rel+"/")
	cmd.Dir = p.g.repo
	cmd.Env = append(os.Environ(), "PATH=/opt/veriftools/go1.26.8/bin:"+os.Getenv("PATH"), "GOFLAGS=-mod=mod", "GOPROXY=off", "GOSUMDB=off", "GOTOOLCHAIN=local")
	done := make(chan struct{})
	var out []byte
	go func() { out, _ = cmd.CombinedOutput(); close(done) }()
	select {
	case <-done:
	case <-time.After(180 * time.Second):
		if cmd.Process != nil {
			cmd.Process.Kill()
		}
		<-done
		return nil, "go test timed out"
	}
	m := map[string]string{}
	for _, ln := range strings.Split(string(out), "\n") {
		ln = strings.TrimSpace(ln)
		if !strings.HasPrefix(ln, "GOVC-REPLAY ") {
			continue
		}
		kv := strings.SplitN(strings.TrimPrefix(ln, "GOVC-REPLAY "), "=", 2)
		if len(kv) == 2 {
			m[kv[0]] = kv[1]
		}
	}
	if len(m) == 0 {
		s := string(out)
		if len(s) > 1500 {
			s = s[len(s)-1500:]
		}
		return nil, "no output from the replay test: " + s
	}
	return m, ""
}

// ---------------------------------------------------------------- concrete evaluation of the contract

type evalVerdict struct {
	PreHolds   bool     `json:"precondition_proved_for_input"`
	Falsified  []string `json:"postconditions_proved_false_on_this_run,omitempty"`
	Panic      string   `json:"panic,omitempty"`
	Reproduced bool     `json:"reproduced"`
	Note       string   `json:"note,omitempty"`
}

func solveStatus(script, file string, timeoutS int) string {
	os.WriteFile(file, []byte(script+"(check-sat)\n"), 0o644)
	defer os.Remove(file)
	for _, s := range []solverSpec{solvers[0], solvers[1]} {
		r := runSolver(s, file, timeoutS)
		if r.status == "unsat" || r.status == "sat" {
			return r.status
		}
	}
	return "unknown"
}

func (p *replayPlan) evaluate(in []*cval, obs map[string]string, work string) (v evalVerdict) {
	defer func() {
		if r := recover(); r != nil {
			if u, ok := r.(unsupported); ok {
				v.Note = "contract could not be evaluated concretely: " + u.msg
				return
			}
			panic(r)
		}
	}()
	c, vals := p.entryCtx()
	for _, u := range p.fc.Uses {
		c.useLemma(u)
	}
	var inFacts []string
	for i, sh := range p.params {
		inFacts = append(inFacts, c.facts(sh, vals[i].T, in[i])...)
	}
	env := c.preEnv()
	var pres []string
	for _, cl := range p.fc.Requires {
		pres = append(pres, c.trClause(env, cl))
	}
	// results
	sig := p.fn.Signature
	var outFacts []string
	entryHeap := c.heap.clone()
	postHeap := c.heap
	twoState := false
	if !p.pure && !p.fc.ModNone {
		// the call may write what its parameters reach: a second heap, known only where it was observed after the call
		twoState = true
		c.sortOf(types.Typ[types.Uint8])
		c.elemsHeap(types.Typ[types.Uint8])
		// every field of a pointed-to parameter struct gets a post-state array, observed or not: an unobserved
		// field is then unconstrained after the call instead of silently "unchanged"
		for _, sh := range p.params {
			if sh.kind == "ptr" {
				if st, ok := sh.elem.ty.Underlying().(*types.Struct); ok {
					for fi := 0; fi < st.NumFields(); fi++ {
						c.fieldHeap(sh.elem.ty, fi)
					}
				}
			}
		}
		entryHeap = c.heap.clone()
		postHeap = Heap{}
		names := make([]string, 0, len(c.heap))
		for name := range c.heap {
			names = append(names, name)
		}
		sort.Strings(names)
		for _, name := range names {
			pn := sym(strings.Trim(name, "|") + " post")
			for _, d := range c.decls {
				if strings.HasPrefix(d, "(declare-const "+name+" ") {
					c.decl("(declare-const " + pn + " " + strings.TrimSuffix(strings.TrimPrefix(d, "(declare-const "+name+" "), ")") + ")")
				}
			}
			postHeap[name] = pn
		}
		for i, sh := range p.params {
			switch sh.kind {
			case "bytes":
				after := readObserved(sh, fmt.Sprintf("in%d", i), obs)
				if after.Set && in[i].Set && after.Len == in[i].Len {
					after.Nil = in[i].Nil
					fs := c.factsH(sh, vals[i].T, after, postHeap)
					outFacts = append(outFacts, fs...)
				}
			case "ptr":
				if in[i].Set && !in[i].Nil {
					after := readObserved(sh.elem, fmt.Sprintf("in%d", i), obs)
					pv := &cval{Set: true, F: after.F}
					outFacts = append(outFacts, c.factsH(sh, vals[i].T, pv, postHeap)...)
				}
			}
		}
	}
	penv := &Env{c: c, names: map[string]Val{}, heap: postHeap, old: entryHeap, pkg: c.pkg, what: "ensures of " + p.fn.Name()}
	for _, prm := range p.fn.Params {
		penv.names[prm.Name()] = c.vals[prm]
	}
	for i := 0; i < sig.Results().Len(); i++ {
		rt := sig.Results().At(i).Type()
		n := sym(fmt.Sprintf("rr!%d", i))
		c.decl("(declare-const " + n + " " + c.sortOf(rt) + ")")
		c.define(c.typeFact(n, rt))
		rv := Val{T: n, Ty: rt}
		if sig.Results().Len() == 1 {
			penv.names["result"] = rv
		}
		penv.names[fmt.Sprintf("result%d", i)] = rv
		if nm := sig.Results().At(i).Name(); nm != "" && nm != "_" {
			if _, clash := penv.names[nm]; !clash {
				penv.names[nm] = rv
			}
		}
		if p.results[i] != nil {
			outFacts = append(outFacts, c.factsH(p.results[i], n, readObserved(p.results[i], fmt.Sprintf("r%d", i), obs), postHeap)...)
		}
	}
	var posts []string
	for _, cl := range p.fc.Ensures {
		posts = append(posts, c.trClause(penv, cl))
	}
	assemble := func(extra ...string) string {
		var sb strings.Builder
		sb.WriteString(prelude(c.mode))
		for _, d := range c.decls {
			if def := bitUFDefinition(d); def != "" {
				d = def // exact machine meaning instead of the uninterpreted symbol used in proofs
			}
			sb.WriteString(d + "\n")
		}
		for _, it := range c.items {
			if it.kind == "assert" {
				sb.WriteString("(assert " + it.text + ")\n")
			}
		}
		for _, f := range inFacts {
			sb.WriteString("(assert " + f + ")\n")
		}
		for _, e := range extra {
			sb.WriteString("(assert " + e + ")\n")
		}
		return sb.String()
	}
	file := filepath.Join(work, "eval.smt2")
	// (0) the input facts themselves must be consistent
	if solveStatus(assemble(), file, 10) == "unsat" {
		v.Note = "input facts inconsistent (engine limitation)"
		return v
	}
	// (1) the precondition holds for this input: facts /\ not(pre) is unsatisfiable
	v.PreHolds = true
	if len(pres) > 0 {
		if solveStatus(assemble("(not "+and(pres...)+")"), file, 10) != "unsat" {
			v.PreHolds = false
			v.Note = "the precondition could not be proved for this input"
			return v
		}
	}
	if pn, ok := obs["panic"]; ok {
		v.Panic = pn
		if !p.pure {
			v.Note = "the real code panicked on a receiver built from the model; only side-effect-free functions are replayed for panics (the model does not build maps, locks or pools)"
		} else if !p.fc.NoSafety["all"] {
			v.Reproduced = true
		} else {
			v.Note = "the real code panicked, but this contract does not claim panic freedom"
		}
		return v
	}
	if obs["done"] != "true" {
		v.Note = "the replay test did not finish"
		return v
	}
	// the evaluation below reads the inputs' entry values for both states: exact only if the call left them alone
	for i := range p.params {
		if !twoState && obs[fmt.Sprintf("in%d.unchanged", i)] == "false" {
			if p.fc.ModNone {
				v.Falsified = append(v.Falsified, fmt.Sprintf("modifies nothing: the call changed what parameter %s refers to", p.fn.Params[i].Name()))
				v.Reproduced = true
			} else {
				v.Note = "the call changed its inputs; postconditions are not evaluated"
			}
			return v
		}
	}
	// (2) each postcondition: facts /\ pre /\ outputs /\ post unsatisfiable => definitely violated on this run
	all := append(append([]string{}, pres...), outFacts...)
	if solveStatus(assemble(all...), file, 10) == "unsat" {
		v.Note = "observed outputs inconsistent with the encoding (engine limitation)"
		return v
	}
	for k, t := range posts {
		if solveStatus(assemble(append(append([]string{}, all...), t)...), file, 10) == "unsat" {
			v.Falsified = append(v.Falsified, fmt.Sprintf("ensures #%d: %s", k+1, p.fc.Ensures[k].Text))
		}
	}
	v.Reproduced = len(v.Falsified) > 0
	if !v.Reproduced {
		v.Note = "no postcondition could be proved false on this run"
	}
	return v
}

// ---------------------------------------------------------------- driver

type replayRecord struct {
	Function string         `json:"function"`
	Inputs   []*cval        `json:"inputs"`
	GoArgs   []string       `json:"go_arguments"`
	Observed map[string]string `json:"observed"`
	Verdict  evalVerdict    `json:"verdict"`
	TestFile string         `json:"test_file"`
	Command  string         `json:"rerun"`
	Source   string         `json:"candidate_from"`
}

// replayObligation writes the replay file of a failed obligation and tries to reproduce
// the failure on the real code. It returns the replay path and whether the real code reproduced it.
func replayObligation(g *Gen, repo, verif, prop string, ob *Obligation, work string) (string, bool) {
	extra := map[string]any{}
	var rec *replayRecord
	if g != nil && ob.Script != "" && os.Getenv("GOVC_NOREPLAY") == "" {
		plan, why := g.planReplay(ob.Fn)
		if plan == nil {
			extra["replay_not_attempted"] = why
		} else {
			rec = plan.search(ob, filepath.Join(work, "replay-"+sanitize(ob.Name)))
			replayMu.Lock()
			replayStats.Attempted++
			if rec != nil {
				replayStats.Reproduced = append(replayStats.Reproduced, ob.Name)
			}
			replayMu.Unlock()
			if rec == nil {
				extra["replay_not_reproduced"] = "no candidate input from the solver reproduced the failure on the real code"
			}
		}
	}
	if rec != nil {
		dir := filepath.Join(verif, "replays", prop)
		os.MkdirAll(dir, 0o755)
		tf := filepath.Join(dir, sanitize(ob.Name)+"_replay_test.go.txt")
		os.WriteFile(tf, []byte(rec.TestFile), 0o644)
		rec.TestFile = tf
		rec.Command = fmt.Sprintf("%s/engine/govc replay -file %s", verif, filepath.Join(dir, sanitize(ob.Name)+".json"))
		extra["replay"] = rec
		extra["reproduced_on_real_code"] = true
	}
	rp := writeReplay(verif, prop, ob, extra)
	return rp, rec != nil
}

// search tries a few candidate inputs.
func (p *replayPlan) search(ob *Obligation, work string) *replayRecord {
	os.MkdirAll(work, 0o755)
	defer os.RemoveAll(work)
	full := stripCheck(ob.Script)
	relaxed := relax(ob.Script)
	tried := map[string]bool{}
	deadline := time.Now().Add(150 * time.Second)
	_ = full
	for _, src := range []struct{ name, base string }{{"failing query, quantifiers instantiated over small indices", concretiseMark + full}, {"failing query with quantified assertions dropped", relaxed}} {
		var block []string
		for k := 0; k < 3; k++ {
			if time.Now().After(deadline) || time.Now().After(replayRunDeadline) {
				return nil
			}
			in, blk := p.candidate(src.base, block, work, fmt.Sprintf("%d", k))
			if in == nil {
				break
			}
			if blk != "" {
				block = append(block, blk)
			}
			key, _ := json.Marshal(in)
			if tried[string(key)] {
				if blk == "" {
					break
				}
				continue
			}
			tried[string(key)] = true
			srcText := p.testSource(in)
			obs, errs := p.runReal(srcText, work)
			if obs == nil {
				if os.Getenv("GOVC_REPLAY_DEBUG") != "" {
					fmt.Fprintf(os.Stderr, "replay-debug %s: run failed: %s\n", ob.Name, errs)
				}
				continue
			}
			v := p.evaluate(in, obs, work)
			if os.Getenv("GOVC_REPLAY_DEBUG") != "" {
				ib, _ := json.Marshal(in)
				fmt.Fprintf(os.Stderr, "replay-debug %s candidate(%s) %s -> %v verdict %+v\n", ob.Name, src.name, ib, obs, v)
			}
			if v.Reproduced {
				w := &goWriter{pkg: p.pkg, imports: map[string]string{}}
				var args []string
				for i, sh := range p.params {
					args = append(args, p.fn.Params[i].Name()+" = "+w.lit(sh, in[i]))
				}
				return &replayRecord{Function: shortName(p.fn.String()), Inputs: in, GoArgs: args, Observed: obs, Verdict: v, TestFile: srcText, Source: src.name}
			}
			if blk == "" {
				break
			}
		}
	}
	return nil
}

// cmdReplay re-runs a recorded counterexample against the current tree: exit 1 if it still reproduces.
func cmdReplay(args []string) int {
	file := ""
	repo := "/repo"
	for i := 0; i < len(args); i++ {
		switch args[i] {
		case "-file":
			i++
			if i < len(args) {
				file = args[i]
			}
		case "-repo":
			i++
			if i < len(args) {
				repo = args[i]
			}
		}
	}
	if file == "" {
		fmt.Println("usage: govc replay -file <replay.json> [-repo /repo]")
		return 2
	}
	b, err := os.ReadFile(file)
	if err != nil {
		fmt.Println(err)
		return 2
	}
	var m struct {
		Obligation string        `json:"obligation"`
		Replay     *replayRecord `json:"replay"`
	}
	if err := json.Unmarshal(b, &m); err != nil || m.Replay == nil {
		fmt.Println("replay: this file records a failed obligation without a concrete input (no-failing-input-found); re-run the property check to re-evaluate the obligation")
		return 0
	}
	fnName := m.Replay.Function
	pkgPath := fnName
	// package pattern from the function name: "(*a/b.T).m" or "a/b.f"
	pkgPath = strings.TrimLeft(pkgPath, "(*")
	if i := strings.LastIndex(pkgPath, "/"); i >= 0 {
		rest := pkgPath[i+1:]
		pkgPath = pkgPath[:i+1] + rest[:strings.Index(rest, ".")]
	} else {
		pkgPath = pkgPath[:strings.Index(pkgPath, ".")]
	}
	g, err := loadProgram(repo, []string{"./" + pkgPath}, nil)
	if err != nil {
		fmt.Println("load:", err)
		return 2
	}
	g.repo = repo
	if err := g.loadAssumed(filepath.Join(filepath.Dir(filepath.Dir(filepath.Dir(file))), "contracts", "assumed")); err != nil {
		fmt.Println("assumed contracts:", err)
	}
	full := ""
	for n := range g.funcs {
		if shortName(n) == fnName {
			full = n
		}
	}
	plan, why := g.planReplay(full)
	if plan == nil {
		fmt.Println("replay: not replayable now:", why)
		return 2
	}
	work, _ := os.MkdirTemp("", "govc-replay")
	defer os.RemoveAll(work)
	obs, errs := plan.runReal(plan.testSource(m.Replay.Inputs), work)
	if obs == nil {
		fmt.Println("replay: could not run:", errs)
		return 2
	}
	v := plan.evaluate(m.Replay.Inputs, obs, work)
	keys := make([]string, 0, len(obs))
	for k := range obs {
		keys = append(keys, k)
	}
	sort.Strings(keys)
	fmt.Printf("function  %s\ninputs    %s\n", fnName, strings.Join(m.Replay.GoArgs, "; "))
	for _, k := range keys {
		fmt.Printf("observed  %s=%s\n", k, obs[k])
	}
	if v.Reproduced {
		if v.Panic != "" {
			fmt.Printf("REPRODUCED: the real code panics on an input satisfying the precondition: %s\n", v.Panic)
		}
		for _, f := range v.Falsified {
			fmt.Printf("REPRODUCED: %s is false on this run\n", f)
		}
		return 1
	}
	fmt.Printf("NOT REPRODUCED on the current tree (%s)\n", v.Note)
	return 0
}

// cmdReplayable lists, for the packages given, which functions under contract are in the replayable class.
func cmdReplayable(args []string) int {
	repo, verif, pkg := "/repo", "/verif", ""
	for i := 0; i+1 < len(args); i += 2 {
		switch args[i] {
		case "-repo":
			repo = args[i+1]
		case "-verif":
			verif = args[i+1]
		case "-pkg":
			pkg = args[i+1]
		}
	}
	g, err := loadProgram(repo, strings.Split(pkg, ","), nil)
	if err != nil {
		fmt.Println(err)
		return 2
	}
	g.loadAssumed(filepath.Join(verif, "contracts", "assumed"))
	var names []string
	for n, fc := range g.cs.Funcs {
		if !fc.Trusted && g.funcs[n] != nil {
			names = append(names, n)
		}
	}
	sort.Strings(names)
	yes := 0
	for _, n := range names {
		p, why := g.planReplay(n)
		if p != nil {
			yes++
			fmt.Printf("replayable  %s\n", shortName(n))
		} else {
			fmt.Printf("no          %s: %s\n", shortName(n), why)
		}
	}
	fmt.Printf("%d of %d functions under contract are replayable\n", yes, len(names))
	return 0
}

// ---------------------------------------------------------------- bounded concretisation of a failing query
//
// Candidate inputs only (every candidate is validated on the real code afterwards, so any heuristic is admissible):
// quantifiers over index variables are instantiated with 0..k, the definitional axioms of spos / sbyte / streq are
// replaced by definitions exact for lengths <= k, and what still carries a quantifier is dropped.

type sx struct {
	atom string
	kids []*sx
}

func parseSx(s string) *sx {
	i := 0
	var rec func() *sx
	skip := func() {
		for i < len(s) && (s[i] == ' ' || s[i] == '\n' || s[i] == '\t' || s[i] == '\r') {
			i++
		}
	}
	rec = func() *sx {
		skip()
		if i >= len(s) {
			return nil
		}
		if s[i] == '(' {
			i++
			n := &sx{}
			for {
				skip()
				if i >= len(s) {
					return n
				}
				if s[i] == ')' {
					i++
					return n
				}
				k := rec()
				if k == nil {
					return n
				}
				n.kids = append(n.kids, k)
			}
		}
		st := i
		if s[i] == '|' {
			i++
			for i < len(s) && s[i] != '|' {
				i++
			}
			i++
		} else if s[i] == '"' {
			i++
			for i < len(s) && s[i] != '"' {
				i++
			}
			i++
		} else {
			for i < len(s) && s[i] != ' ' && s[i] != '\n' && s[i] != '\t' && s[i] != '(' && s[i] != ')' {
				i++
			}
		}
		return &sx{atom: s[st:i]}
	}
	return rec()
}

func (n *sx) String() string {
	if n.kids == nil && n.atom != "" {
		return n.atom
	}
	var sb strings.Builder
	n.write(&sb)
	return sb.String()
}

func (n *sx) write(sb *strings.Builder) {
	if n.kids == nil && n.atom != "" {
		sb.WriteString(n.atom)
		return
	}
	sb.WriteByte('(')
	for i, k := range n.kids {
		if i > 0 {
			sb.WriteByte(' ')
		}
		k.write(sb)
	}
	sb.WriteByte(')')
}

func (n *sx) head() string {
	if len(n.kids) > 0 && n.kids[0].kids == nil {
		return n.kids[0].atom
	}
	return ""
}

func (n *sx) subst(m map[string]*sx) *sx {
	if n.kids == nil {
		if r, ok := m[n.atom]; ok && n.atom != "" {
			return r
		}
		return n
	}
	h := n.head()
	if (h == "forall" || h == "exists" || h == "let") && len(n.kids) >= 3 {
		// respect shadowing
		inner := m
		for _, b := range n.kids[1].kids {
			if len(b.kids) > 0 && b.kids[0].kids == nil {
				if _, ok := m[b.kids[0].atom]; ok {
					if &inner == &m || true {
						cp := map[string]*sx{}
						for k, v := range inner {
							cp[k] = v
						}
						delete(cp, b.kids[0].atom)
						inner = cp
					}
				}
			}
		}
		out := &sx{kids: []*sx{n.kids[0]}}
		if h == "let" {
			bs := &sx{}
			for _, b := range n.kids[1].kids {
				if len(b.kids) == 2 {
					bs.kids = append(bs.kids, &sx{kids: []*sx{b.kids[0], b.kids[1].subst(m)}})
				} else {
					bs.kids = append(bs.kids, b)
				}
			}
			if bs.kids == nil {
				bs.kids = []*sx{}
			}
			out.kids = append(out.kids, bs)
		} else {
			out.kids = append(out.kids, n.kids[1])
		}
		for _, k := range n.kids[2:] {
			out.kids = append(out.kids, k.subst(inner))
		}
		return out
	}
	out := &sx{kids: make([]*sx, len(n.kids))}
	for i, k := range n.kids {
		out.kids[i] = k.subst(m)
	}
	return out
}

// instantiate replaces quantifiers over index-sorted variables by finite conjunctions/disjunctions over 0..k.
// ok=false: a quantifier remains.
func instantiate(n *sx, k int, bv bool) (*sx, bool) {
	if n.kids == nil {
		return n, true
	}
	h := n.head()
	if h == "!" && len(n.kids) >= 2 {
		return instantiate(n.kids[1], k, bv)
	}
	if (h == "forall" || h == "exists") && len(n.kids) == 3 {
		var vars []string
		for _, b := range n.kids[1].kids {
			if len(b.kids) != 2 {
				return n, false
			}
			srt := b.kids[1].String()
			if !(srt == "(_ BitVec 64)" || (!bv && srt == "Int")) {
				return n, false
			}
			vars = append(vars, b.kids[0].atom)
		}
		total := 1
		for range vars {
			total *= k + 1
			if total > 128 {
				return n, false
			}
		}
		body, ok := instantiate(n.kids[2], k, bv)
		if !ok {
			return n, false
		}
		op := "and"
		if h == "exists" {
			op = "or"
		}
		out := &sx{kids: []*sx{{atom: op}}}
		idx := make([]int, len(vars))
		for {
			m := map[string]*sx{}
			for i, v := range vars {
				if bv {
					m[v] = &sx{atom: fmt.Sprintf("(_ bv%d 64)", idx[i])}
				} else {
					m[v] = &sx{atom: strconv.Itoa(idx[i])}
				}
			}
			out.kids = append(out.kids, body.subst(m))
			j := 0
			for j < len(idx) {
				idx[j]++
				if idx[j] <= k {
					break
				}
				idx[j] = 0
				j++
			}
			if j == len(idx) {
				break
			}
		}
		if len(out.kids) == 2 {
			return out.kids[1], true
		}
		return out, true
	}
	out := &sx{kids: make([]*sx, len(n.kids))}
	allOK := true
	for i, c := range n.kids {
		r, ok := instantiate(c, k, bv)
		out.kids[i] = r
		if !ok {
			allOK = false
		}
	}
	return out, allOK
}

func concretise(script string, k int) string {
	bv := strings.Contains(script, "(declare-fun spos (Slice (_ BitVec 64))")
	I := "Int"
	lit := func(i int) string { return strconv.Itoa(i) }
	plus, lt := "+", "<"
	if bv {
		I = "(_ BitVec 64)"
		lit = func(i int) string { return fmt.Sprintf("(_ bv%d 64)", i) }
		plus, lt = "bvadd", "bvslt"
	}
	var sb strings.Builder
	for _, f := range topForms(script) {
		switch {
		case strings.HasPrefix(f, "(check-sat"), strings.HasPrefix(f, "(get-"):
			continue
		case strings.HasPrefix(f, "(declare-fun spos "):
			sb.WriteString("(define-fun spos ((s Slice) (i " + I + ")) " + I + " (" + plus + " (s_off s) i))\n")
			continue
		case strings.HasPrefix(f, "(declare-fun sbyte "):
			B := "Int"
			if bv {
				B = "(_ BitVec 8)"
			}
			body := "(select (select SB (s_reg s)) (" + plus + " (s_off s) i))"
			if !bv {
				body = "(mod " + body + " 256)" // the 0..255 range axiom is quantified over slices and therefore dropped
			}
			sb.WriteString("(define-fun sbyte ((s Slice) (i " + I + ")) " + B + " " + body + ")\n")
			continue
		case strings.HasPrefix(f, "(declare-fun bit_") || strings.HasPrefix(f, "(declare-fun |bit_"):
			// int-mode bit operations are uninterpreted (range axioms only): give candidates the machine meaning
			if d := bitUFDefinition(f); d != "" {
				sb.WriteString(d + "\n")
			} else {
				sb.WriteString(f + "\n")
			}
			continue
		case strings.HasPrefix(f, "(declare-fun streq "):
			var cs []string
			for i := 0; i <= k; i++ {
				cs = append(cs, "(=> ("+lt+" "+lit(i)+" (s_len a)) (= (sbyte a "+lit(i)+") (sbyte b "+lit(i)+")))")
			}
			sb.WriteString("(define-fun streq ((a Slice) (b Slice)) Bool (and (= (s_len a) (s_len b)) " + strings.Join(cs, " ") + "))\n")
			continue
		}
		if strings.HasPrefix(f, "(assert") && quantRe.MatchString(f) {
			t := parseSx(f)
			if t == nil || len(t.kids) != 2 {
				continue
			}
			r, ok := instantiate(t.kids[1], k, bv)
			if !ok {
				continue
			}
			sb.WriteString("(assert " + r.String() + ")\n")
			continue
		}
		sb.WriteString(f + "\n")
	}
	return sb.String()
}

// bitUFDefinition: the exact machine meaning of an int-mode bit operation symbol (declared uninterpreted in proofs).
func bitUFDefinition(f string) string {
	m := bitUFRe.FindStringSubmatch(f)
	if m == nil {
		return ""
	}
	bits, _ := strconv.Atoi(m[3])
	cv := func(v string) string { return fmt.Sprintf("((_ int2bv %d) %s)", bits, v) }
	var body string
	switch m[1] {
	case "and":
		body = "(bvand " + cv("x") + " " + cv("y") + ")"
	case "or":
		body = "(bvor " + cv("x") + " " + cv("y") + ")"
	case "xor":
		body = "(bvxor " + cv("x") + " " + cv("y") + ")"
	case "andnot":
		body = "(bvand " + cv("x") + " (bvnot " + cv("y") + "))"
	case "<<":
		body = fmt.Sprintf("(ite (>= y %d) (_ bv0 %d) (bvshl %s %s))", bits, bits, cv("x"), cv("y"))
	case ">>":
		if m[2] == "s" {
			body = fmt.Sprintf("(ite (>= y %d) (bvashr %s (_ bv%d %d)) (bvashr %s %s))", bits, cv("x"), bits-1, bits, cv("x"), cv("y"))
		} else {
			body = fmt.Sprintf("(ite (>= y %d) (_ bv0 %d) (bvlshr %s %s))", bits, bits, cv("x"), cv("y"))
		}
	default:
		return ""
	}
	r := "(bv2nat " + body + ")"
	if m[2] == "s" {
		r = fmt.Sprintf("(ite (>= %s %s) (- %s %s) %s)", r, pow2(bits-1).String(), r, pow2(bits).String(), r)
	}
	return "(define-fun " + sym("bit_"+m[1]+"_"+m[2]+m[3]) + " ((x Int) (y Int)) Int " + r + ")"
}
