package main

import (
	"math/big"
	"strings"
)

// fold simplifies accessor-of-constructor terms: (s_reg (mk_slice r o l c)) -> r, and spos of a
// literal slice with literal offset and index.
func fold(t string) string {
	if !strings.Contains(t, "(mk_slice ") {
		return t
	}
	for iter := 0; iter < 50; iter++ {
		changed := false
		for _, acc := range []struct {
			pre string
			idx int
		}{{"(s_reg (mk_slice ", 0}, {"(s_off (mk_slice ", 1}, {"(s_len (mk_slice ", 2}, {"(s_cap (mk_slice ", 3}} {
			for {
				i := strings.Index(t, acc.pre)
				if i < 0 {
					break
				}
				// find end of the inner (mk_slice ...) expression
				start := i + len(acc.pre) - len("(mk_slice ")
				end := matchParen(t, start)
				if end < 0 || end+1 >= len(t) || t[end+1] != ')' {
					break
				}
				parts := splitSexprs(t[start+len("(mk_slice ") : end])
				if len(parts) != 4 {
					break
				}
				t = t[:i] + parts[acc.idx] + t[end+2:]
				changed = true
			}
		}
		// (spos (mk_slice r o l c) i) with literal o and i, or o == 0
		from := 0
		for {
			i := strings.Index(t[from:], "(spos (mk_slice ")
			if i < 0 {
				break
			}
			i += from
			end := matchParen(t, i)
			if end < 0 {
				break
			}
			args := splitSexprs(t[i+len("(spos ") : end])
			if len(args) != 2 {
				from = i + 5
				continue
			}
			parts := splitSexprs(args[0][len("(mk_slice ") : len(args[0])-1])
			if len(parts) != 4 {
				from = i + 5
				continue
			}
			o, ok1 := constInt(parts[1])
			k, ok2 := constInt(args[1])
			isBV := strings.HasPrefix(parts[1], "(_ bv")
			switch {
			case ok1 && o.Sign() == 0:
				t = t[:i] + args[1] + t[end+1:]
				changed = true
			case ok1 && ok2:
				s := new(big.Int).Add(o, k)
				lit := s.String()
				if isBV {
					lit = smtBV(s, 64)
				}
				t = t[:i] + lit + t[end+1:]
				changed = true
			default:
				from = i + 5
			}
		}
		if !changed {
			break
		}
	}
	return t
}

// matchParen returns the index of the parenthesis closing the one at position i.
func matchParen(t string, i int) int {
	d := 0
	inq := false
	for j := i; j < len(t); j++ {
		ch := t[j]
		if ch == '|' {
			inq = !inq
		}
		if inq {
			continue
		}
		if ch == '(' {
			d++
		} else if ch == ')' {
			d--
			if d == 0 {
				return j
			}
		}
	}
	return -1
}
