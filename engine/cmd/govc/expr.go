package main

// Contract expression language: Go expression syntax extended with
// ==>, <==>, forall/exists with triggers, old(...), ite(c,a,b).

import (
	"fmt"
	"strings"
	"unicode"
)

type Expr interface{ String() string }

type (
	EIdent struct{ Name string }
	ENum   struct{ Text string }
	EStr   struct{ Val string }
	EChar  struct{ Val int }
	EUnary struct {
		Op string
		X  Expr
	}
	EBinary struct {
		Op   string
		X, Y Expr
	}
	ESel struct {
		X    Expr
		Name string
	}
	EIndex struct{ X, I Expr }
	ESlice struct{ X, Lo, Hi Expr }
	ECall  struct {
		Fun  Expr
		Args []Expr
	}
	EQuant struct {
		Forall bool
		Vars   []QVar
		Trigs  [][]Expr
		Body   Expr
	}
	// type expression used as a conversion target, e.g. []byte(x), *T
	EType struct{ Text string }
	// composite literal T{f: e, ...}
	EComp struct {
		Type   string
		Fields []string
		Vals   []Expr
	}
)

func (e *EComp) String() string { return e.Type + "{...}" }

type QVar struct {
	Name string
	Type string
}

func (e *EIdent) String() string  { return e.Name }
func (e *ENum) String() string    { return e.Text }
func (e *EStr) String() string    { return fmt.Sprintf("%q", e.Val) }
func (e *EChar) String() string   { return fmt.Sprintf("%d", e.Val) }
func (e *EUnary) String() string  { return "(" + e.Op + e.X.String() + ")" }
func (e *EBinary) String() string { return "(" + e.X.String() + " " + e.Op + " " + e.Y.String() + ")" }
func (e *ESel) String() string    { return e.X.String() + "." + e.Name }
func (e *EIndex) String() string  { return e.X.String() + "[" + e.I.String() + "]" }
func (e *EType) String() string   { return e.Text }
func (e *ESlice) String() string {
	lo, hi := "", ""
	if e.Lo != nil {
		lo = e.Lo.String()
	}
	if e.Hi != nil {
		hi = e.Hi.String()
	}
	return e.X.String() + "[" + lo + ":" + hi + "]"
}
func (e *ECall) String() string {
	var a []string
	for _, x := range e.Args {
		a = append(a, x.String())
	}
	return e.Fun.String() + "(" + strings.Join(a, ", ") + ")"
}
func (e *EQuant) String() string {
	k := "exists"
	if e.Forall {
		k = "forall"
	}
	var vs []string
	for _, v := range e.Vars {
		vs = append(vs, v.Name+" "+v.Type)
	}
	return "(" + k + " " + strings.Join(vs, ", ") + " :: " + e.Body.String() + ")"
}

type ltok struct {
	kind string // id num str chr op eof
	text string
	ival int
	pos  int
}

type lexer struct {
	src  string
	toks []ltok
}

var ops3 = []string{"<==>", "==>", "&^", "<<", ">>", "&&", "||", "==", "!=", "<=", ">=", "::"}

func lex(src string) ([]ltok, error) {
	var toks []ltok
	i := 0
	for i < len(src) {
		c := src[i]
		if c == ' ' || c == '\t' || c == '\n' {
			i++
			continue
		}
		start := i
		switch {
		case unicode.IsLetter(rune(c)) || c == '_':
			for i < len(src) && (unicode.IsLetter(rune(src[i])) || unicode.IsDigit(rune(src[i])) || src[i] == '_') {
				i++
			}
			toks = append(toks, ltok{kind: "id", text: src[start:i], pos: start})
		case c >= '0' && c <= '9':
			for i < len(src) && (unicode.IsDigit(rune(src[i])) || unicode.IsLetter(rune(src[i])) || src[i] == '_') {
				i++
			}
			toks = append(toks, ltok{kind: "num", text: strings.ReplaceAll(src[start:i], "_", ""), pos: start})
		case c == '"':
			i++
			var sb strings.Builder
			for i < len(src) && src[i] != '"' {
				if src[i] == '\\' && i+1 < len(src) {
					i++
					switch src[i] {
					case 'n':
						sb.WriteByte('\n')
					case 't':
						sb.WriteByte('\t')
					case 'r':
						sb.WriteByte('\r')
					case '\\':
						sb.WriteByte('\\')
					case '"':
						sb.WriteByte('"')
					case '0':
						sb.WriteByte(0)
					default:
						return nil, fmt.Errorf("bad escape in string at %d", i)
					}
					i++
					continue
				}
				sb.WriteByte(src[i])
				i++
			}
			if i >= len(src) {
				return nil, fmt.Errorf("unterminated string")
			}
			i++
			toks = append(toks, ltok{kind: "str", text: sb.String(), pos: start})
		case c == '\'':
			i++
			v := 0
			if i < len(src) && src[i] == '\\' {
				i++
				switch src[i] {
				case 'n':
					v = '\n'
				case 't':
					v = '\t'
				case 'r':
					v = '\r'
				case '\\':
					v = '\\'
				case '\'':
					v = '\''
				case '0':
					v = 0
				default:
					return nil, fmt.Errorf("bad char escape")
				}
				i++
			} else {
				v = int(src[i])
				i++
			}
			if i >= len(src) || src[i] != '\'' {
				return nil, fmt.Errorf("unterminated char")
			}
			i++
			toks = append(toks, ltok{kind: "chr", ival: v, pos: start})
		default:
			matched := false
			for _, op := range ops3 {
				if strings.HasPrefix(src[i:], op) {
					toks = append(toks, ltok{kind: "op", text: op, pos: start})
					i += len(op)
					matched = true
					break
				}
			}
			if !matched {
				toks = append(toks, ltok{kind: "op", text: string(c), pos: start})
				i++
			}
		}
	}
	toks = append(toks, ltok{kind: "eof", pos: len(src)})
	return toks, nil
}

type parser struct {
	toks []ltok
	p    int
	src  string
}

func parseExpr(src string) (e Expr, err error) {
	toks, err := lex(src)
	if err != nil {
		return nil, err
	}
	ps := &parser{toks: toks, src: src}
	defer func() {
		if r := recover(); r != nil {
			if pe, ok := r.(parseErr); ok {
				err = fmt.Errorf("%s in %q", string(pe), src)
				return
			}
			panic(r)
		}
	}()
	e = ps.quant()
	if ps.peek().kind != "eof" {
		ps.fail("unexpected %q", ps.peek().text)
	}
	return e, nil
}

type parseErr string

func (p *parser) fail(f string, a ...any) { panic(parseErr(fmt.Sprintf(f, a...))) }
func (p *parser) peek() ltok             { return p.toks[p.p] }
func (p *parser) next() ltok             { t := p.toks[p.p]; p.p++; return t }
func (p *parser) isOp(s string) bool      { t := p.peek(); return t.kind == "op" && t.text == s }
func (p *parser) isID(s string) bool      { t := p.peek(); return t.kind == "id" && t.text == s }
func (p *parser) expectOp(s string) {
	if !p.isOp(s) {
		p.fail("expected %q got %q", s, p.peek().text)
	}
	p.p++
}

func (p *parser) quant() Expr {
	if p.isID("forall") || p.isID("exists") {
		q := &EQuant{Forall: p.next().text == "forall"}
		for {
			n := p.next()
			if n.kind != "id" {
				p.fail("quantifier variable expected")
			}
			ty := p.typeText()
			q.Vars = append(q.Vars, QVar{n.text, ty})
			if p.isOp(",") {
				p.p++
				continue
			}
			break
		}
		p.expectOp("::")
		for p.isOp("{") {
			p.p++
			var tr []Expr
			for {
				tr = append(tr, p.quant())
				if p.isOp(",") {
					p.p++
					continue
				}
				break
			}
			p.expectOp("}")
			q.Trigs = append(q.Trigs, tr)
		}
		q.Body = p.quant()
		return q
	}
	return p.iff()
}

// typeText consumes a type expression and returns its text.
func (p *parser) typeText() string {
	var sb strings.Builder
	for {
		t := p.peek()
		switch {
		case t.kind == "op" && (t.text == "*" || t.text == "[" || t.text == "]" || t.text == "."):
			sb.WriteString(t.text)
			p.p++
			continue
		case t.kind == "num":
			sb.WriteString(t.text)
			p.p++
			continue
		case t.kind == "id":
			sb.WriteString(t.text)
			p.p++
			if p.isOp(".") || (t.text == "map" && p.isOp("[")) {
				continue
			}
			// after "]" of map key the value type follows
			if strings.HasPrefix(sb.String(), "map[") && strings.Count(sb.String(), "[") > strings.Count(sb.String(), "]") {
				continue
			}
			if p.isOp("]") && strings.Count(sb.String(), "[") > strings.Count(sb.String(), "]") {
				continue
			}
			return sb.String()
		}
		p.fail("bad type expression near %q", t.text)
	}
}

func (p *parser) iff() Expr {
	x := p.implies()
	for p.isOp("<==>") {
		p.p++
		y := p.implies()
		x = &EBinary{"<==>", x, y}
	}
	return x
}

func (p *parser) implies() Expr {
	x := p.or()
	if p.isOp("==>") {
		p.p++
		var y Expr
		if p.isID("forall") || p.isID("exists") {
			y = p.quant()
		} else {
			y = p.implies()
		}
		return &EBinary{"==>", x, y}
	}
	return x
}

func (p *parser) or() Expr {
	x := p.and()
	for p.isOp("||") {
		p.p++
		x = &EBinary{"||", x, p.and()}
	}
	return x
}

func (p *parser) and() Expr {
	x := p.cmp()
	for p.isOp("&&") {
		p.p++
		var y Expr
		if p.isID("forall") || p.isID("exists") {
			y = p.quant()
		} else {
			y = p.cmp()
		}
		x = &EBinary{"&&", x, y}
	}
	return x
}

func (p *parser) cmp() Expr {
	x := p.add()
	for {
		t := p.peek()
		if t.kind == "op" && (t.text == "==" || t.text == "!=" || t.text == "<" || t.text == "<=" || t.text == ">" || t.text == ">=") {
			p.p++
			x = &EBinary{t.text, x, p.add()}
			continue
		}
		return x
	}
}

func (p *parser) add() Expr {
	x := p.mul()
	for {
		t := p.peek()
		if t.kind == "op" && (t.text == "+" || t.text == "-" || t.text == "|" || t.text == "^") {
			p.p++
			x = &EBinary{t.text, x, p.mul()}
			continue
		}
		return x
	}
}

func (p *parser) mul() Expr {
	x := p.unary()
	for {
		t := p.peek()
		if t.kind == "op" && (t.text == "*" || t.text == "/" || t.text == "%" || t.text == "<<" || t.text == ">>" || t.text == "&" || t.text == "&^") {
			p.p++
			x = &EBinary{t.text, x, p.unary()}
			continue
		}
		return x
	}
}

func (p *parser) unary() Expr {
	if p.isID("forall") || p.isID("exists") {
		return p.quant()
	}
	t := p.peek()
	if t.kind == "op" && (t.text == "!" || t.text == "-" || t.text == "^") {
		p.p++
		return &EUnary{t.text, p.unary()}
	}
	if t.kind == "op" && t.text == "*" {
		p.p++
		return &EUnary{"*", p.unary()}
	}
	return p.postfix()
}

func (p *parser) postfix() Expr {
	x := p.primary()
	for {
		switch {
		case p.isOp("."):
			p.p++
			n := p.next()
			if n.kind != "id" {
				p.fail("selector name expected")
			}
			x = &ESel{x, n.text}
		case p.isOp("["):
			p.p++
			var lo, hi Expr
			if p.isOp(":") {
				p.p++
				if !p.isOp("]") {
					hi = p.quant()
				}
				p.expectOp("]")
				x = &ESlice{x, nil, hi}
				continue
			}
			lo = p.quant()
			if p.isOp(":") {
				p.p++
				if !p.isOp("]") {
					hi = p.quant()
				}
				p.expectOp("]")
				x = &ESlice{x, lo, hi}
				continue
			}
			p.expectOp("]")
			x = &EIndex{x, lo}
		case p.isOp("{") && isTypeish(x):
			p.p++
			cl := &EComp{Type: x.String()}
			for !p.isOp("}") {
				n := p.next()
				if n.kind != "id" {
					p.fail("field name expected in composite literal")
				}
				p.expectOp(":")
				cl.Fields = append(cl.Fields, n.text)
				cl.Vals = append(cl.Vals, p.quant())
				if p.isOp(",") {
					p.p++
				}
			}
			p.expectOp("}")
			x = cl
		case p.isOp("("):
			p.p++
			var args []Expr
			for !p.isOp(")") {
				args = append(args, p.quant())
				if p.isOp(",") {
					p.p++
				}
			}
			p.expectOp(")")
			x = &ECall{x, args}
		default:
			return x
		}
	}
}

func (p *parser) primary() Expr {
	t := p.next()
	switch t.kind {
	case "id":
		return &EIdent{t.text}
	case "num":
		return &ENum{t.text}
	case "str":
		return &EStr{t.text}
	case "chr":
		return &EChar{t.ival}
	case "op":
		if t.text == "(" {
			// parenthesised type like (*T)(x) is not supported; plain expr
			e := p.quant()
			p.expectOp(")")
			return e
		}
		if t.text == "[" {
			// type conversion []byte(x)
			p.p--
			ty := p.typeText()
			return &EType{ty}
		}
	}
	p.fail("unexpected ltok %q", t.text)
	return nil
}

func isTypeish(x Expr) bool {
	switch t := x.(type) {
	case *EIdent:
		return true
	case *ESel:
		_, ok := t.X.(*EIdent)
		return ok
	}
	return false
}
