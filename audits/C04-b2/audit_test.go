package cache

import (
	"context"
	"testing"
	"time"

	"github.com/miekg/dns"
	"github.com/semihalev/sdns/config"
	"github.com/semihalev/sdns/internal/mock"
	"github.com/semihalev/sdns/middleware"
)

// TestAuditSOANegativeTTLBelowFloor: a NODATA answer whose SOA negative TTL
// (RFC 2308: min(SOA TTL, SOA MINIMUM)) is 1 s has a lifetime of 1 s. The
// 5 s floor belongs to the record TTLs only; the SOA negative TTL is one of
// the independent bounds the lifetime is the smallest of. The cache applies
// the floor after the SOA bound, so the denial is served — and shown with a
// TTL of up to 5 s — for 5 s.
func TestAuditSOANegativeTTLBelowFloor(t *testing.T) {
	c := New(&config.Config{CacheSize: 1024, Expire: 600})
	defer c.Stop()

	const name = "nodata.audit-c04.example."
	const negativeTTL = 1 // seconds: SOA MINIMUM

	calls := 0
	authority := middleware.HandlerFunc(func(_ context.Context, ch *middleware.Chain) {
		calls++
		resp := new(dns.Msg)
		resp.SetReply(ch.Request.Msg())
		resp.RecursionAvailable = true
		resp.Ns = []dns.RR{&dns.SOA{
			Hdr: dns.RR_Header{
				Name: "audit-c04.example.", Rrtype: dns.TypeSOA,
				Class: dns.ClassINET, Ttl: 3600, // the record TTL itself is large
			},
			Ns: "ns.audit-c04.example.", Mbox: "hostmaster.audit-c04.example.",
			Serial: 1, Refresh: 3600, Retry: 600, Expire: 86400,
			Minttl: negativeTTL,
		}}
		_ = ch.Writer.WriteMsg(resp)
		ch.Cancel()
	})

	ask := func() *dns.Msg {
		req := new(dns.Msg)
		req.SetQuestion(name, dns.TypeAAAA)
		req.RecursionDesired = true
		w := mock.NewWriter("udp", "127.0.0.1:0")
		ch := middleware.NewChain([]middleware.Handler{c, authority})
		ch.Reset(w, req)
		ch.Next(context.Background())
		if !w.Written() {
			t.Fatal("no response written")
		}
		return w.Msg()
	}

	_ = ask() // admission
	if calls != 1 {
		t.Fatalf("authority calls after admission = %d, want 1", calls)
	}

	// A hit inside the lifetime: the TTL shown must not exceed the time
	// remaining, and the time remaining is at most the SOA negative TTL.
	hit := ask()
	if calls == 1 {
		for _, rr := range hit.Ns {
			if rr.Header().Ttl > negativeTTL {
				t.Errorf("cached NODATA shows TTL %d on %s; its SOA negative TTL is %d s",
					rr.Header().Ttl, dns.TypeToString[rr.Header().Rrtype], negativeTTL)
			}
		}
	}

	// Past the negative TTL the denial must not be served from cache.
	time.Sleep(time.Duration(negativeTTL)*time.Second + 300*time.Millisecond)
	before := calls
	_ = ask()
	if calls == before {
		t.Errorf("NODATA with SOA negative TTL %d s was served from cache %.1f s after admission",
			negativeTTL, float64(negativeTTL)+0.3)
	}
}
