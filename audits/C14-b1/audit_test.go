package dnssec

import (
	"bytes"
	"crypto/ed25519"
	"encoding/base64"
	"testing"
	"time"

	"github.com/miekg/dns"
)

// A signature made by the zone "\xfe.example." over its own "www" A RRset is
// presented for an RRset (and RRSIG) owned by "www.\xff.example." - a different
// name under a different zone. The RFC 4034 canonical form of that owner
// contains the octet 0xff, the signed data contained the spelling of
// "\xfe.example."; the signature is therefore not valid for the re-owned
// RRset, the signer zone does not contain it, and the library refuses it.
// sdns accepts it: the key binding compares the raw spelling of signer and
// key owner, while zone containment and the signed data are built from
// dns.CanonicalName, whose strings.Map turns every octet that is not valid
// UTF-8 into U+FFFD, so both owners collapse onto one canonical spelling.
func TestAuditInvalidUTF8OwnersShareCanonicalForm(t *testing.T) {
	seed := bytes.Repeat([]byte{0x42}, ed25519.SeedSize)
	priv := ed25519.NewKeyFromSeed(seed)
	pub := priv.Public().(ed25519.PublicKey)

	const signerZone = "\xfe.example." // the zone that owns the key
	const otherZone = "\xff.example."  // a different zone

	key := &dns.DNSKEY{
		Hdr:       dns.RR_Header{Name: signerZone, Rrtype: dns.TypeDNSKEY, Class: dns.ClassINET, Ttl: 3600},
		Flags:     256,
		Protocol:  3,
		Algorithm: dns.ED25519,
		PublicKey: base64.StdEncoding.EncodeToString(pub),
	}

	now := uint32(time.Now().Unix())
	own := []dns.RR{&dns.A{
		Hdr: dns.RR_Header{Name: "www." + signerZone, Rrtype: dns.TypeA, Class: dns.ClassINET, Ttl: 300},
		A:   []byte{192, 0, 2, 1},
	}}
	sig := &dns.RRSIG{
		Algorithm:  dns.ED25519,
		Inception:  now - 3600,
		Expiration: now + 3600,
		KeyTag:     key.KeyTag(),
		SignerName: signerZone,
	}
	if err := sig.Sign(priv, own); err != nil {
		t.Fatalf("signing the zone's own RRset: %v", err)
	}

	// Re-own the RRset and its RRSIG to a name below the other zone.
	moved := []dns.RR{&dns.A{
		Hdr: dns.RR_Header{Name: "www." + otherZone, Rrtype: dns.TypeA, Class: dns.ClassINET, Ttl: 300},
		A:   []byte{192, 0, 2, 1},
	}}
	movedSig := dns.Copy(sig).(*dns.RRSIG)
	movedSig.Hdr.Name = "www." + otherZone

	// The two owner names are different names on the wire.
	a := make([]byte, 64)
	b := make([]byte, 64)
	an, err := dns.PackDomainName("www."+signerZone, a, 0, nil, false)
	if err != nil {
		t.Fatal(err)
	}
	bn, err := dns.PackDomainName("www."+otherZone, b, 0, nil, false)
	if err != nil {
		t.Fatal(err)
	}
	if bytes.Equal(a[:an], b[:bn]) {
		t.Fatal("test premise broken: the two owners are the same wire name")
	}

	// Reference verdict: the library refuses.
	if err := movedSig.Verify(key, moved); err == nil {
		t.Fatal("test premise broken: the library accepts the re-owned RRset")
	}

	if err := verifySignature(key, movedSig, moved); err == nil {
		t.Errorf("verifySignature accepted a signature of zone %q, made over %q, for the RRset %q; the library refuses it",
			signerZone, "www."+signerZone, "www."+otherZone)
	}

	msg := new(dns.Msg)
	msg.Answer = append(append([]dns.RR{}, moved...), movedSig)
	keys := map[uint16][]*dns.DNSKEY{KeyTag(key): {key}}
	if ok, err := VerifyRRSIG(signerZone, keys, msg); ok && err == nil {
		t.Errorf("VerifyRRSIG authenticated %q with the key of zone %q", "www."+otherZone, signerZone)
	}
}
