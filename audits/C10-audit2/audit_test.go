package doq

import (
	"context"
	"crypto/tls"
	"encoding/binary"
	"io"
	"net"
	"os"
	"path/filepath"
	"testing"
	"time"

	"github.com/miekg/dns"
	"github.com/quic-go/quic-go"
	"github.com/semihalev/sdns/middleware"
)

// auditEchoHandler answers like every in-tree producer does: SetReply on the
// request it was handed, i.e. "the reply carries the request's ID".
type auditEchoHandler struct{}

func (auditEchoHandler) ServeMsg(_ context.Context, w middleware.Transport, r *dns.Msg) {
	m := new(dns.Msg)
	m.SetReply(r)
	_ = w.WriteMsg(m)
}

// TestAuditDoQReplyCarriesQueryID sends one well-formed DNS query with a
// non-zero message ID on a DoQ stream. Property C10: "Each reply ... carries
// that query's ID and question" on every transport, QUIC streams included.
// The server accepts the query (it neither rejects it as a protocol error nor
// closes the connection), resolves it, and then answers with a different ID:
// handleStream overwrites the request ID with a random one and
// ResponseWriter.WriteMsg forces the reply ID to 0.
func TestAuditDoQReplyCarriesQueryID(t *testing.T) {
	if err := generateCertificate(); err != nil {
		t.Fatalf("certificate: %v", err)
	}
	cert := filepath.Join(os.TempDir(), "test.cert")
	privkey := filepath.Join(os.TempDir(), "test.key")

	packet, err := net.ListenPacket("udp", "127.0.0.1:0")
	if err != nil {
		t.Fatal(err)
	}
	addr := packet.LocalAddr().String()
	if err := packet.Close(); err != nil {
		t.Fatal(err)
	}

	s := &Server{Addr: addr, Handler: auditEchoHandler{}}
	t.Cleanup(func() { _ = s.Shutdown() })
	go func() { _ = s.ListenAndServeQUIC(cert, privkey) }()

	tlsConf := &tls.Config{
		InsecureSkipVerify: true, //nolint:gosec // test client against a test server
		NextProtos:         []string{"doq"},
	}
	var conn *quic.Conn
	deadline := time.Now().Add(5 * time.Second)
	for {
		ctx, cancel := context.WithTimeout(context.Background(), time.Second)
		conn, err = quic.DialAddr(ctx, addr, tlsConf, nil)
		cancel()
		if err == nil {
			break
		}
		if time.Now().After(deadline) {
			t.Fatalf("dial: %v", err)
		}
		time.Sleep(50 * time.Millisecond)
	}
	defer func() { _ = conn.CloseWithError(0, "") }()

	stream, err := conn.OpenStreamSync(context.Background())
	if err != nil {
		t.Fatal(err)
	}

	const queryID = 0x4d2b
	req := new(dns.Msg)
	req.SetQuestion("audit.example.", dns.TypeA)
	req.Id = queryID
	raw, err := req.Pack()
	if err != nil {
		t.Fatal(err)
	}
	if _, err := stream.Write(addPrefixLen(raw)); err != nil {
		t.Fatal(err)
	}
	if err := stream.Close(); err != nil {
		t.Fatal(err)
	}

	_ = stream.SetReadDeadline(time.Now().Add(5 * time.Second))
	data, err := io.ReadAll(stream)
	if err != nil {
		t.Fatalf("the server did not answer the query (a rejection would also have been a consistent outcome): %v", err)
	}
	if len(data) < 2+12 || int(binary.BigEndian.Uint16(data[:2])) != len(data)-2 {
		t.Fatalf("malformed DoQ frame: % x", data)
	}
	reply := new(dns.Msg)
	if err := reply.Unpack(data[2:]); err != nil {
		t.Fatalf("unpack: %v", err)
	}
	if len(reply.Question) != 1 || reply.Question[0] != req.Question[0] {
		t.Errorf("reply question %v, want %v", reply.Question, req.Question)
	}
	if reply.Id != queryID {
		t.Errorf("C10 violated: the query carried ID %#04x, the reply delivered on its stream carries ID %#04x",
			queryID, reply.Id)
	}
}
