package server

import (
	"net"
	"testing"
	"time"

	"github.com/miekg/dns"
	"github.com/semihalev/sdns/middleware"
)

// TestAuditRejectionReplyCarriesQuestion: every reply carries the ID and the
// question of the query it answers. The engines' in-place rejection
// (udpJob.rejectInPlace / tcpJob.rejectInPlace) answers a well-formed query
// that merely uses an opcode the server does not implement with a bare
// 12-byte header: the ID is echoed, the question is not (QDCOUNT=0), although
// the question is right there in the receive buffer.
func TestAuditRejectionReplyCarriesQuestion(t *testing.T) {
	addr, stop := startEngine(t, rawHandlerFunc(func(w middleware.Transport, raw []byte, _ time.Time) bool {
		t.Error("a foreign opcode must be rejected before the handler")
		return true
	}), 2, 16)
	defer stop()

	conn, err := net.Dial("udp", addr)
	if err != nil {
		t.Fatal(err)
	}
	defer conn.Close()

	q := new(dns.Msg)
	q.SetQuestion("status.example.", dns.TypeA)
	q.Opcode = dns.OpcodeStatus
	q.Id = 0xBEEF
	pkt, err := q.Pack()
	if err != nil {
		t.Fatal(err)
	}
	if _, err := conn.Write(pkt); err != nil {
		t.Fatal(err)
	}
	buf := make([]byte, 512)
	_ = conn.SetReadDeadline(time.Now().Add(2 * time.Second))
	n, err := conn.Read(buf)
	if err != nil {
		t.Fatalf("no reply: %v", err)
	}
	var r dns.Msg
	if err := r.Unpack(buf[:n]); err != nil {
		t.Fatalf("reply does not decode: %v", err)
	}
	if !r.Response || r.Rcode != dns.RcodeNotImplemented {
		t.Fatalf("setup: want a NOTIMP response, got %v", &r)
	}
	if r.Id != q.Id {
		t.Errorf("reply ID = %#x, want the query's %#x", r.Id, q.Id)
	}
	if len(r.Question) != 1 {
		t.Fatalf("reply carries %d questions, want the query's one question %v", len(r.Question), q.Question[0])
	}
	if r.Question[0] != q.Question[0] {
		t.Errorf("reply question = %v, want %v", r.Question[0], q.Question[0])
	}
}
