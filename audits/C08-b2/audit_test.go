package resolver

import (
	"context"
	"sync/atomic"
	"testing"
	"time"

	"github.com/miekg/dns"
	"github.com/semihalev/sdns/internal/mock"
	"github.com/semihalev/sdns/middleware"
	cachemw "github.com/semihalev/sdns/middleware/cache"
)

// TestAuditC08_AnswerRelayedAfterLeaseEnded shows that the lease is enforced
// only where a resolution STARTS (the delegation-cache walk, the answer-cache
// read) and never where an upstream answer ARRIVES: an answer the delegated
// servers give after the parent-granted lifetime has run out is still relayed
// to the client (and to every caller collapsed onto the same lookup).
//
// The parent grants ghost. a 1 s lease and withdraws the delegation right
// after handing out the referral. The former child stays alive and simply
// answers slowly (1.6 s - inside the resolver's own 2 s exchange timeout, so
// no error path is involved). The answer therefore reaches sdns 0.6 s after
// the lease ended; the property says that by then every answer learned through
// the old delegation has stopped being served and sdns follows the parent,
// whose state at that moment is NXDOMAIN.
func TestAuditC08_AnswerRelayedAfterLeaseEnded(t *testing.T) {
	var ignore int64

	softNeg := func(zone string) *dns.Msg {
		m := &dns.Msg{}
		m.Authoritative = true
		if zone == "." {
			m.Ns = []dns.RR{mustRR(t, ". 30 IN SOA a.root. hostmaster.root. 1 30 30 30 30")}
		} else {
			m.Ns = []dns.RR{mustRR(t, zone+" 30 IN SOA ns."+zone+" hostmaster."+zone+" 1 30 30 30 30")}
		}
		return m
	}

	const childDelay = 1600 * time.Millisecond

	ghostAddr, stopGhost := startMockAuth(t, &ignore, func(q dns.Question) *dns.Msg {
		if q.Qtype == dns.TypeA && dns.CanonicalName(q.Name) == "www.ghost." {
			time.Sleep(childDelay)
			m := &dns.Msg{}
			m.Authoritative = true
			m.Answer = []dns.RR{mustRR(t, "www.ghost. 600 IN A 192.0.2.55")}
			return m
		}
		return softNeg("ghost.")
	})
	defer stopGhost()

	var withdrawn atomic.Bool
	var referralSentAt atomic.Int64 // unix nanos of the (first) referral
	rootAddr, stopRoot := startMockAuth(t, &ignore, func(q dns.Question) *dns.Msg {
		name := dns.CanonicalName(q.Name)
		if name == "." && q.Qtype == dns.TypeNS {
			m := &dns.Msg{}
			m.Authoritative = true
			m.Answer = []dns.RR{mustRR(t, ". 3600 IN NS a.root.")}
			return m
		}
		if q.Qtype == dns.TypeDS {
			return softNeg(".")
		}
		if dns.IsSubDomain("ghost.", name) {
			if withdrawn.Load() {
				m := softNeg(".")
				m.Rcode = dns.RcodeNameError
				return m
			}
			referralSentAt.CompareAndSwap(0, time.Now().UnixNano())
			// The parent withdraws the zone as soon as this referral is out.
			withdrawn.Store(true)
			m := &dns.Msg{}
			m.Ns = []dns.RR{mustRR(t, "ghost. 1 IN NS ns.ghost.")}
			m.Extra = []dns.RR{mustRR(t, "ns.ghost. 1 IN A 192.0.2.21")}
			return m
		}
		return softNeg(".")
	})
	defer stopRoot()

	remap := map[string]string{"192.0.2.21:53": ghostAddr}
	mapper := func(addr string) string {
		if to, ok := remap[addr]; ok {
			return to
		}
		return addr
	}

	base := makeTestConfig()
	cfg := *base
	cfg.RootServers = []string{rootAddr}
	cfg.Root6Servers = nil
	cfg.IPv6Access = false
	cfg.DNSSEC = "off"
	cfg.CacheSize = 1024
	cfg.Prefetch = 0
	cfg.RateLimit = 0

	h := New(&cfg)
	h.resolver.resolveTarget.Store(&mapper)
	cm := cachemw.New(&cfg)
	defer cm.Stop()
	sub := &chainQueryer{handlers: []middleware.Handler{cm, h}}
	cm.SetQueryer(sub)
	h.SetQueryer(sub)
	h.SetStore(cm.Store())

	req := new(dns.Msg)
	req.SetQuestion("www.ghost.", dns.TypeA)
	w := mock.NewWriter("udp", "127.0.0.1:0")
	ch := middleware.NewChain([]middleware.Handler{cm, h})
	ch.Reset(w, req)
	ch.Next(context.Background())
	servedAt := time.Now()
	if !w.Written() {
		t.Fatal("no response written")
	}
	resp := w.Msg()

	sent := referralSentAt.Load()
	if sent == 0 {
		t.Fatal("setup: the parent never handed out the referral")
	}
	// The lease runs for 1 s from the moment the referral was observed, which
	// is no earlier than the moment the parent sent it.
	leaseEnd := time.Unix(0, sent).Add(1 * time.Second)
	late := servedAt.Sub(leaseEnd)
	t.Logf("response rcode=%s answers=%d, written %v after the 1 s lease ended", dns.RcodeToString[resp.Rcode], len(resp.Answer), late)
	if late < 200*time.Millisecond {
		t.Skipf("setup: response was not clearly late (%v)", late)
	}

	for _, rr := range resp.Answer {
		if a, ok := rr.(*dns.A); ok && a.A.String() == "192.0.2.55" {
			t.Errorf("answer learned through the ghost. delegation was served %v after that delegation's lease ended (ttl handed to the client: %d s); "+
				"the parent had withdrawn the zone, so sdns should have followed it (NXDOMAIN)", late, a.Hdr.Ttl)
		}
	}
	if resp.Rcode != dns.RcodeNameError {
		t.Errorf("expected the parent's NXDOMAIN once the lease had ended, got %s", dns.RcodeToString[resp.Rcode])
	}
}
