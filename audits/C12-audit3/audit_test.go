package cache

import (
	"context"
	"testing"

	"github.com/miekg/dns"
	"github.com/semihalev/sdns/config"
	"github.com/semihalev/sdns/middleware"
	"github.com/semihalev/sdns/middleware/resolver/dnssec"
)

// TestAuditCacheSideNSEC3HashesStayWithinConfiguredBudget checks the clause
// "With the recursion firewall in enforce mode the ... DNSSEC operations spent
// on one request tree ... never exceed the configured budgets, and the
// over-budget reply is a SERVFAIL".
//
// The operator configures max_nsec3_hashes = 2. One client query for a deep
// name below a retained NSEC3 proof is then answered by the cache's RFC 8198
// synthesis, which hashes every ancestor, the next-closer name and the
// wildcard. All of those SHA-1 NSEC3 hashes are performed for this one
// request tree, so they must be covered by (and stop at) the configured
// budget.
func TestAuditCacheSideNSEC3HashesStayWithinConfiguredBudget(t *testing.T) {
	const maxNSEC3Hashes = 2

	cache := New(&config.Config{CacheSize: 1024, Expire: 300})
	defer cache.Stop()
	cache.SetDNSSECCryptoLimiter(dnssec.NewCryptoLimiter(4))

	downstreamCalls := 0
	downstream := middleware.HandlerFunc(func(ctx context.Context, ch *middleware.Chain) {
		downstreamCalls++
		_ = ch.Writer.WriteMsg(aggressiveNegativeNSEC3Response(t, ctx, ch.Request.Msg()))
		ch.Cancel()
	})

	// Seed: a locally validated NSEC3 NODATA for the owner publishes the
	// zone's (single-record) NSEC3 ring to the shared proof index.
	seed := aggressiveNegativeRequest(aggressiveNegativeOwner, dns.TypeAAAA, true)
	_ = aggressiveNegativeExchange(t, context.Background(), cache, downstream, seed)
	if cache.store.DenialProofLen() == 0 {
		t.Fatal("setup: validated NSEC3 NODATA did not publish proof material")
	}
	if downstreamCalls != 1 {
		t.Fatalf("setup: downstream calls = %d, want 1", downstreamCalls)
	}

	// The audited request tree: enforce mode, two NSEC3 hashes allowed.
	ctx, ledger := middleware.EnsureRecursionWork(context.Background(), middleware.RecursionWorkPolicy{
		Mode:                    middleware.RecursionWorkEnforce,
		MaxOutboundQueries:      128,
		MaxInternalQueries:      32,
		MaxDNSKEYCandidates:     4,
		MaxRRsetSignatureChecks: 8,
		MaxSignatureChecks:      32,
		MaxDSDigests:            32,
		MaxNSEC3Hashes:          maxNSEC3Hashes,
		MaxConcurrentCrypto:     32,
	})
	if ledger == nil {
		t.Fatal("setup: enforce policy created no ledger")
	}
	// Install the request-tree memo up front (the cache would otherwise do
	// it itself) so the test can read how many hashes the tree performed.
	ctx = dnssec.EnsureNSEC3HashMemo(ctx)

	deep := "l1.l2.l3.l4.l5.l6." + aggressiveNegativeOwner
	probe := aggressiveNegativeRequest(deep, dns.TypeA, true)
	got := aggressiveNegativeExchange(t, ctx, cache, downstream, probe)

	requiredHashes := ledger.Snapshot().NSEC3Hashes
	var optionalHashes uint32
	for _, scope := range []dnssec.NSEC3HashMemoScope{
		dnssec.NSEC3HashMemoScopeResolverOptional,
		dnssec.NSEC3HashMemoScopeCacheOptional,
	} {
		optionalHashes += dnssec.NSEC3HashMemoFromContextScope(ctx, scope).WorkUsed()
	}
	total := requiredHashes + optionalHashes
	t.Logf("reply rcode=%s downstreamCalls=%d ledger NSEC3 hashes=%d, unledgered NSEC3 hashes=%d",
		dns.RcodeToString[got.Rcode], downstreamCalls, requiredHashes, optionalHashes)

	if total > maxNSEC3Hashes {
		t.Fatalf("request tree performed %d NSEC3 hashes (%d debited to the ledger, %d not debited at all) "+
			"with max_nsec3_hashes=%d in enforce mode; reply was %s, not the over-budget SERVFAIL",
			total, requiredHashes, optionalHashes, maxNSEC3Hashes, dns.RcodeToString[got.Rcode])
	}
}
