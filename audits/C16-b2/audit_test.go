package cache

import (
	"testing"
	"time"
)

// C16: the tables "behave as maps" for "all sequences of set/get/remove/CAS/
// compare-delete/iterate/clear operations". Removing (or compare-deleting, or
// adding) a key from inside the iteration callback is such a sequence - it is
// what `for k := range m { delete(m, k) }` and sync.Map.Range allow. On
// Cache/SyncUInt64Map/SegmentUInt64Map the iteration keeps the segment's
// read lock while it runs the callback, so the nested writer waits for a
// lock its own goroutine holds: the removal never happens and the goroutine
// (and every later writer and reader of that segment) hangs for ever.
func TestAuditRemoveInsideForEachCompletes(t *testing.T) {
	const n = 100
	c := New(1024)
	for i := 0; i < n; i++ {
		c.Add(uint64(i), i)
	}
	if c.Len() != n {
		t.Fatalf("setup: Len=%d want %d", c.Len(), n)
	}

	done := make(chan int, 1)
	go func() {
		produced := 0
		c.ForEach(func(k uint64, _ any) bool {
			produced++
			c.Remove(k)
			return true
		})
		done <- produced
	}()

	select {
	case produced := <-done:
		if produced != n || c.Len() != 0 {
			t.Fatalf("ForEach+Remove: produced %d keys, %d left; want %d and 0", produced, c.Len(), n)
		}
	case <-time.After(2 * time.Second):
		t.Fatalf("Cache.Remove called from inside Cache.ForEach never returned: the iteration holds the segment read lock across the callback, so the nested writer deadlocks on it")
	}
}
