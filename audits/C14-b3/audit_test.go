package dnssec

import (
	"bytes"
	"crypto/ed25519"
	"encoding/base64"
	"strings"
	"testing"
	"time"

	"github.com/miekg/dns"
)

// RFC 4035 5.3.1: the owner must have at least as many labels as the RRSIG
// Labels field. The library makes that comparison in eight bits
// (uint8(CountLabel(owner)) < Labels), so an owner of 256 labels counts as
// zero and no signature with Labels >= 1 is ever accepted for it (ErrRRset).
// sdns compares in full width and accepts the genuine "*.example." signature
// as a wildcard expansion for that owner: more permissive than the reference.
func TestAuditWildcardExpansionTo256LabelsAcceptedWhereLibraryRefuses(t *testing.T) {
	seed := bytes.Repeat([]byte{0x5a}, ed25519.SeedSize)
	priv := ed25519.NewKeyFromSeed(seed)
	pub := priv.Public().(ed25519.PublicKey)

	key := &dns.DNSKEY{
		Hdr:       dns.RR_Header{Name: "example.", Rrtype: dns.TypeDNSKEY, Class: dns.ClassINET, Ttl: 3600},
		Flags:     256,
		Protocol:  3,
		Algorithm: dns.ED25519,
		PublicKey: base64.StdEncoding.EncodeToString(pub),
	}

	now := uint32(time.Now().Unix())
	wildcard := []dns.RR{&dns.A{
		Hdr: dns.RR_Header{Name: "*.example.", Rrtype: dns.TypeA, Class: dns.ClassINET, Ttl: 300},
		A:   []byte{192, 0, 2, 1},
	}}
	sig := &dns.RRSIG{
		Algorithm:  dns.ED25519,
		Inception:  now - 3600,
		Expiration: now + 3600,
		KeyTag:     key.KeyTag(),
		SignerName: "example.",
	}
	if err := sig.Sign(priv, wildcard); err != nil {
		t.Fatalf("signing the wildcard RRset: %v", err)
	}
	if sig.Labels != 1 {
		t.Fatalf("test premise broken: Labels = %d", sig.Labels)
	}
	// Sanity: both accept the wildcard itself and an ordinary expansion.
	if err := sig.Verify(key, wildcard); err != nil {
		t.Fatalf("test premise broken: library refuses the wildcard RRset: %v", err)
	}

	owner := strings.Repeat("a.", 255) + "example." // 256 labels
	if n := dns.CountLabel(owner); n != 256 {
		t.Fatalf("test premise broken: %d labels", n)
	}
	expanded := []dns.RR{&dns.A{
		Hdr: dns.RR_Header{Name: owner, Rrtype: dns.TypeA, Class: dns.ClassINET, Ttl: 300},
		A:   []byte{192, 0, 2, 1},
	}}
	expandedSig := dns.Copy(sig).(*dns.RRSIG)
	expandedSig.Hdr.Name = owner

	// Reference verdict: the library refuses.
	libErr := expandedSig.Verify(key, expanded)
	if libErr == nil {
		t.Fatal("test premise broken: the library accepts")
	}

	if err := verifySignature(key, expandedSig, expanded); err == nil {
		t.Errorf("verifySignature accepted Labels=%d for an owner of %d labels; the library says %v",
			expandedSig.Labels, dns.CountLabel(owner), libErr)
	}

	msg := new(dns.Msg)
	msg.Answer = append(append([]dns.RR{}, expanded...), expandedSig)
	keys := map[uint16][]*dns.DNSKEY{KeyTag(key): {key}}
	if ok, err := VerifyRRSIG("example.", keys, msg); ok && err == nil {
		t.Errorf("VerifyRRSIG accepted the 256-label expansion; the library says %v", libErr)
	}
}
