package cache

import (
	"os"
	"testing"
)

// C03: "for answers an authority scoped to a client subnet only clients
// inside that scope".
//
// With [ecs] min_scope_v4 set below forward_v4 (a legal, documented
// configuration: forward_v4 = 24, min_scope_v4 = 16), Policy.ClampScope
// WIDENS the authority's /24 scope to a /16 before the cache keys and tags
// the entry. A client whose /24 lies outside the authority's /24 but inside
// the widened /16 is then served the other audience's tailored answer
// straight from the cache.
func TestAuditECSMinScopeWidensAuthorityScope(t *testing.T) {
	cfg := makeECSTestConfig(t) // forward_v4 = 24
	cfg.ECS.MinScopeV4 = 16     // "refuse to key on scopes narrower than /16"
	defer os.RemoveAll(cfg.Directory)
	c := New(cfg)
	defer c.Stop()

	// The authority tailors per /24 and says so: SCOPE = 24 on the
	// client's own 203.0.113.0/24.
	h := &echoHandler{aRecord: "10.20.30.40", scopeBits: 24}

	respA := sendAndExpect(t, c, h,
		reqWithECS("cdn.example.", 1, 24, "203.0.113.0"), "203.0.113.5")
	if got := answerA(respA); got != "10.20.30.40" {
		t.Fatalf("setup: client A got %q", got)
	}
	if h.Calls() != 1 {
		t.Fatalf("setup: upstream calls = %d, want 1", h.Calls())
	}

	// The authority would give a different answer to any other /24.
	h.aRecord = "10.20.30.99"

	// Client B sits in 203.0.200.0/24: NOT inside 203.0.113.0/24, the scope
	// the authority attached to the cached answer.
	respB := sendAndExpect(t, c, h,
		reqWithECS("cdn.example.", 1, 24, "203.0.200.0"), "203.0.200.5")

	if h.Calls() != 2 {
		t.Errorf("client B (203.0.200.0/24) was answered from the cache: upstream calls = %d, want 2; "+
			"the entry the authority scoped to 203.0.113.0/24 was stored under 203.0.0.0/16", h.Calls())
	}
	if got := answerA(respB); got != "10.20.30.99" {
		t.Errorf("client B (203.0.200.0/24) received %q, the answer the authority scoped to 203.0.113.0/24; want its own answer 10.20.30.99", got)
	}
}
