package resolver

import (
	"context"
	"sync/atomic"
	"testing"
	"time"

	"github.com/miekg/dns"
	"github.com/semihalev/sdns/internal/mock"
	"github.com/semihalev/sdns/middleware"
	cachemw "github.com/semihalev/sdns/middleware/cache"
)

// TestAuditC08_CachedFailureOutlivesDelegationLease
//
// Property C08: "Once the parent withdraws or changes the delegation, sdns
// follows the parent as soon as that lease ends, and every answer, negative
// answer ... learned through the old delegation has stopped being served by
// then, even if ... the 5 s cache floor would otherwise apply."
//
// Positive and NXDOMAIN/NODATA entries carry the delegation cut (cutUntil),
// but the third thing the cache middleware stores — the RFC 9520 resolution
// failure learned by querying the delegated servers — does not. The failure
// is filed with its own 5 s (doubling up to 5 min) lifetime, both per
// question and per delegated ZONE, and is consulted before the resolver is
// reached. So when the old delegation's servers are broken, the parent fixes
// the delegation, and the (1 s) lease ends, sdns keeps answering SERVFAIL
// from what the old delegation taught it and does not go back to the parent.
func TestAuditC08_CachedFailureOutlivesDelegationLease(t *testing.T) {
	var rootHits, oldHits, newHits int64

	// Former child: broken, answers SERVFAIL to everything.
	oldAddr, stopOld := startMockAuth(t, &oldHits, func(q dns.Question) *dns.Msg {
		m := new(dns.Msg)
		m.Rcode = dns.RcodeServerFailure
		return m
	})
	defer stopOld()

	// New child: healthy.
	newAddr, stopNew := startMockAuth(t, &newHits, func(q dns.Question) *dns.Msg {
		m := new(dns.Msg)
		m.Authoritative = true
		if q.Qtype == dns.TypeA {
			m.Answer = []dns.RR{mustRR(t, dns.CanonicalName(q.Name)+" 300 IN A 192.0.2.20")}
			return m
		}
		m.Ns = []dns.RR{mustRR(t, "ghost. 30 IN SOA ns2.ghost. hostmaster.ghost. 1 30 30 30 30")}
		return m
	})
	defer stopNew()

	var switched atomic.Bool
	rootAddr, stopRoot := startMockAuth(t, &rootHits, func(q dns.Question) *dns.Msg {
		m := new(dns.Msg)
		name := dns.CanonicalName(q.Name)
		if name == "." && q.Qtype == dns.TypeNS {
			m.Authoritative = true
			m.Answer = []dns.RR{mustRR(t, ". 3600 IN NS a.root.")}
			return m
		}
		if q.Qtype == dns.TypeDS {
			m.Authoritative = true
			m.Ns = []dns.RR{mustRR(t, ". 30 IN SOA a.root. hostmaster.root. 1 30 30 30 30")}
			return m
		}
		if dns.IsSubDomain("ghost.", name) {
			if switched.Load() {
				m.Ns = []dns.RR{mustRR(t, "ghost. 1 IN NS ns2.ghost.")}
				m.Extra = []dns.RR{mustRR(t, "ns2.ghost. 1 IN A 192.0.2.22")}
			} else {
				m.Ns = []dns.RR{mustRR(t, "ghost. 1 IN NS ns1.ghost.")}
				m.Extra = []dns.RR{mustRR(t, "ns1.ghost. 1 IN A 192.0.2.21")}
			}
			return m
		}
		m.Authoritative = true
		m.Ns = []dns.RR{mustRR(t, ". 30 IN SOA a.root. hostmaster.root. 1 30 30 30 30")}
		return m
	})
	defer stopRoot()

	remap := map[string]string{
		"192.0.2.21:53": oldAddr,
		"192.0.2.22:53": newAddr,
	}
	mapper := func(addr string) string {
		if target, ok := remap[addr]; ok {
			return target
		}
		return addr
	}

	base := makeTestConfig()
	cfg := *base
	cfg.RootServers = []string{rootAddr}
	cfg.Root6Servers = nil
	cfg.IPv6Access = false
	cfg.DNSSEC = "off"
	cfg.CacheSize = 1024
	cfg.Prefetch = 0
	cfg.RateLimit = 0

	h := New(&cfg)
	h.resolver.resolveTarget.Store(&mapper)

	cm := cachemw.New(&cfg)
	defer cm.Stop()
	sub := &chainQueryer{handlers: []middleware.Handler{h}}
	cm.SetPrefetchQueryer(sub)
	cm.SetQueryer(sub)
	// Production wiring: the resolver reports authority-zone failures to the
	// cache store (middleware.Setup auto-wires this).
	h.SetStore(cm.Store())

	ask := func(label, name string) *dns.Msg {
		t.Helper()
		req := new(dns.Msg)
		req.SetQuestion(name, dns.TypeA)
		w := mock.NewWriter("udp", "127.0.0.1:0")
		ch := middleware.NewChain([]middleware.Handler{cm, h})
		ch.Reset(w, req)
		ch.Next(context.Background())
		if !w.Written() {
			t.Fatalf("%s: no response written", label)
		}
		return w.Msg()
	}

	// 1. Through the old delegation (lease 1 s) the name fails.
	if resp := ask("old delegation", "www.ghost."); resp.Rcode != dns.RcodeServerFailure {
		t.Fatalf("old delegation: expected SERVFAIL from the broken child, got %s", dns.RcodeToString[resp.Rcode])
	}
	if atomic.LoadInt64(&oldHits) == 0 {
		t.Fatal("harness: the former child was never queried")
	}

	// 2. The parent repairs the delegation; the 1 s lease ends.
	switched.Store(true)
	time.Sleep(1300 * time.Millisecond)

	rootBefore := atomic.LoadInt64(&rootHits)

	// 3. The lease is over: sdns must follow the parent to the new child, for
	// the name it asked before and for any other name below the cut.
	for _, name := range []string{"www.ghost.", "other.ghost."} {
		resp := ask("after lease end", name)
		got := ""
		for _, rr := range resp.Answer {
			if a, ok := rr.(*dns.A); ok {
				got = a.A.String()
			}
		}
		t.Logf("%s after lease end: rcode=%s answer=%q rootHits %d->%d newHits=%d",
			name, dns.RcodeToString[resp.Rcode], got, rootBefore, atomic.LoadInt64(&rootHits), atomic.LoadInt64(&newHits))
		if resp.Rcode != dns.RcodeSuccess || got != "192.0.2.20" {
			t.Errorf("C08 violated: %.1fs after the 1 s delegation lease ended and the parent re-delegated ghost., "+
				"%s is still answered %s from the failure learned through the old delegation "+
				"(parent re-contacted: %v, new child contacted: %v)",
				1.3, name, dns.RcodeToString[resp.Rcode],
				atomic.LoadInt64(&rootHits) > rootBefore, atomic.LoadInt64(&newHits) > 0)
		}
	}
}
