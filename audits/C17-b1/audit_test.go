package server

import (
	"context"
	"net"
	"sync/atomic"
	"testing"
	"time"

	"github.com/miekg/dns"
	"github.com/semihalev/sdns/config"
	"github.com/semihalev/sdns/middleware"
	"github.com/semihalev/sdns/middleware/accesslist"
)

// auditReachedStub stands where the cache/resolver would: it counts every
// query that got past the access list and answers it.
type auditReachedStub struct{ reached *atomic.Int32 }

func (auditReachedStub) Name() string { return "audit-reached-stub" }

func (s auditReachedStub) ServeDNS(ctx context.Context, ch *middleware.Chain) {
	s.reached.Add(1)
	_, req := ch.Materialize(ctx)
	if req == nil {
		return
	}
	resp := new(dns.Msg)
	resp.SetReply(req)
	_ = ch.Writer.WriteMsg(resp)
	ch.Cancel()
}

// TestAuditAccessListSentinelSourceBypass: the access list is
// ["10.0.0.0/8", "192.0.2.0/24"], so every 127.0.0.0/8 source is outside
// it. A datagram whose source is 127.0.0.255 port 0 (a legal UDP source
// port, RFC 768) must be dropped like any other outsider. Instead the
// chain writer classifies that address as "internal" and the access list
// (and with it ratelimit, reflex and views) waves it through, on both the
// wire (ServeRaw strict) and the decoded (ServeMsg) entry.
func TestAuditAccessListSentinelSourceBypass(t *testing.T) {
	middleware.Reset()
	t.Cleanup(middleware.Reset)

	var reached atomic.Int32
	middleware.Register("accesslist", func(cfg *config.Config) middleware.Handler { return accesslist.New(cfg) })
	middleware.Register("audit-reached-stub", func(*config.Config) middleware.Handler {
		return auditReachedStub{reached: &reached}
	})
	cfg := &config.Config{Bind: "127.0.0.1:0", AccessList: []string{"10.0.0.0/8", "192.0.2.0/24"}}
	middleware.Setup(cfg)
	s := New(cfg)

	raw := packRawQuery(t, "bypass.example.", false)

	cases := []struct {
		name   string
		remote net.UDPAddr
	}{
		// Controls: neighbours of the sentinel, all outside the list.
		{"control 127.0.0.254:0", net.UDPAddr{IP: net.IPv4(127, 0, 0, 254), Port: 0}},
		{"control 127.0.0.255:4242", net.UDPAddr{IP: net.IPv4(127, 0, 0, 255), Port: 4242}},
		// The subject: also outside the list.
		{"127.0.0.255:0", net.UDPAddr{IP: net.IPv4(127, 0, 0, 255).To4(), Port: 0}},
		{"[::ffff:127.0.0.255]:0", net.UDPAddr{IP: net.ParseIP("::ffff:127.0.0.255"), Port: 0}},
	}

	for _, tc := range cases {
		// wire path (owned UDP/TCP engines)
		reached.Store(0)
		job := &strictTestJob{remote: tc.remote}
		s.ServeRaw(job, raw, time.Now())
		if n := reached.Load(); n != 0 || len(job.wrote) != 0 {
			t.Errorf("wire path, source %s (outside the access list): query passed the access list %d time(s) and %d reply bytes were written; want dropped silently",
				tc.name, n, len(job.wrote))
		}

		// decoded path (DoH/DoQ/ServeMsg)
		reached.Store(0)
		job = &strictTestJob{remote: tc.remote}
		m := new(dns.Msg)
		m.SetQuestion("bypass.example.", dns.TypeA)
		s.ServeMsg(context.Background(), job, m)
		if n := reached.Load(); n != 0 || len(job.wrote) != 0 {
			t.Errorf("decoded path, source %s (outside the access list): query passed the access list %d time(s) and %d reply bytes were written; want dropped silently",
				tc.name, n, len(job.wrote))
		}
	}
}
