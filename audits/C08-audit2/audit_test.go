package resolver

import (
	"context"
	"strings"
	"sync/atomic"
	"testing"
	"time"

	"github.com/miekg/dns"
	"github.com/semihalev/sdns/internal/cache"
)

// TestAuditC08_StaleGlueSurvivesRedelegation
//
// Property C08: "Once the parent withdraws or changes the delegation, sdns
// follows the parent as soon as that lease ends"; nothing extends the old
// delegation.
//
// The glue addresses that arrive with a referral are part of the delegation
// the parent granted, but the resolver files them in glueV4/glueV6 — caches
// with no expiry at all — and consults those caches BEFORE anything else when
// a later referral names the same NS host without an address of that family
// (lookupNSAddrV4/V6 -> getIPv4Cache/getIPv6Cache). So when the parent
// re-delegates a zone to new servers under the same (vanity) NS host name and
// the new glue no longer carries one address family, the former child's
// address of that family is silently appended to the NEW delegation and the
// former child keeps being queried long after the old lease ended.
//
// Topology: root delegates ghost. NS ns1.ghost. (lease 1 s)
//
//	before: glue A 192.0.2.21 + AAAA 2001:db8::21  (both = former child)
//	after : glue A 192.0.2.22 only                 (= new child), lease 60 s
func TestAuditC08_StaleGlueSurvivesRedelegation(t *testing.T) {
	var rootHits, oldHits, newHits int64

	leaf := func(address string) func(dns.Question) *dns.Msg {
		return func(q dns.Question) *dns.Msg {
			m := new(dns.Msg)
			m.Authoritative = true
			if q.Qtype == dns.TypeA && strings.HasPrefix(dns.CanonicalName(q.Name), "www") {
				m.Answer = []dns.RR{mustRR(t, dns.CanonicalName(q.Name)+" 300 IN A "+address)}
				return m
			}
			m.Ns = []dns.RR{mustRR(t, "ghost. 30 IN SOA ns1.ghost. hostmaster.ghost. 1 30 30 30 30")}
			return m
		}
	}

	oldAddr, stopOld := startMockAuth(t, &oldHits, leaf("192.0.2.10"))
	defer stopOld()
	newAddr, stopNew := startMockAuth(t, &newHits, leaf("192.0.2.20"))
	defer stopNew()

	var switched atomic.Bool
	rootAddr, stopRoot := startMockAuth(t, &rootHits, func(q dns.Question) *dns.Msg {
		m := new(dns.Msg)
		name := dns.CanonicalName(q.Name)
		if name == "." && q.Qtype == dns.TypeNS {
			m.Authoritative = true
			m.Answer = []dns.RR{mustRR(t, ". 3600 IN NS a.root.")}
			return m
		}
		if q.Qtype == dns.TypeDS {
			m.Authoritative = true
			m.Ns = []dns.RR{mustRR(t, ". 30 IN SOA a.root. hostmaster.root. 1 30 30 30 30")}
			return m
		}
		if dns.IsSubDomain("ghost.", name) {
			if switched.Load() {
				// Re-delegated: same NS host name, new IPv4-only glue.
				m.Ns = []dns.RR{mustRR(t, "ghost. 60 IN NS ns1.ghost.")}
				m.Extra = []dns.RR{mustRR(t, "ns1.ghost. 60 IN A 192.0.2.22")}
			} else {
				m.Ns = []dns.RR{mustRR(t, "ghost. 1 IN NS ns1.ghost.")}
				m.Extra = []dns.RR{
					mustRR(t, "ns1.ghost. 1 IN A 192.0.2.21"),
					mustRR(t, "ns1.ghost. 1 IN AAAA 2001:db8::21"),
				}
			}
			return m
		}
		m.Authoritative = true
		m.Ns = []dns.RR{mustRR(t, ". 30 IN SOA a.root. hostmaster.root. 1 30 30 30 30")}
		return m
	})
	defer stopRoot()

	remap := map[string]string{
		"192.0.2.21:53":     oldAddr,
		"[2001:db8::21]:53": oldAddr,
		"192.0.2.22:53":     newAddr,
	}
	mapper := func(addr string) string {
		if target, ok := remap[addr]; ok {
			return target
		}
		return addr
	}

	base := makeTestConfig()
	cfg := *base
	cfg.RootServers = []string{rootAddr}
	cfg.Root6Servers = nil
	cfg.IPv6Access = true
	cfg.DNSSEC = "off"
	r := newWiredTestResolver(&cfg)
	r.resolveTarget.Store(&mapper)

	ask := func(name string) string {
		t.Helper()
		req := new(dns.Msg)
		req.SetQuestion(name, dns.TypeA)
		req.CheckingDisabled = true
		ctx := context.WithValue(context.Background(), contextKeyRequestID, req.Id)
		resp, err := r.Resolve(ctx, req, r.rootServers, true, 30, 0, true, nil)
		if err != nil {
			t.Fatalf("resolve %s failed: %v", name, err)
		}
		for _, rr := range resp.Answer {
			if a, ok := rr.(*dns.A); ok {
				return a.A.String()
			}
		}
		return ""
	}

	if got := ask("www.ghost."); got != "192.0.2.10" {
		t.Fatalf("initial answer = %q, want former child", got)
	}

	// The parent re-delegates; the old 1 s lease runs out.
	switched.Store(true)
	time.Sleep(1300 * time.Millisecond)

	rootBefore := atomic.LoadInt64(&rootHits)
	if got := ask("www1.ghost."); got != "192.0.2.20" {
		t.Fatalf("first post-deadline answer = %q, want new child 192.0.2.20", got)
	}
	if atomic.LoadInt64(&rootHits) <= rootBefore {
		t.Fatal("parent was not contacted after the delegation deadline")
	}

	// The new referral carried no AAAA glue, so the detached IPv6 enrichment
	// (2 s delay) looks ns1.ghost. AAAA up — and finds the FORMER delegation's
	// glue in the never-expiring glueV6 cache.
	time.Sleep(2700 * time.Millisecond)

	key := cache.Key(dns.Question{Name: "ghost.", Qtype: dns.TypeNS, Qclass: dns.ClassINET}, true)
	deleg, err := r.delegations.Get(key)
	if err != nil {
		t.Fatalf("new ghost. delegation not cached: %v", err)
	}
	deleg.Servers.RLock()
	var addrs []string
	for _, s := range deleg.Servers.List {
		addrs = append(addrs, s.Addr)
	}
	deleg.Servers.RUnlock()
	t.Logf("servers of the NEW ghost. delegation: %v", addrs)

	oldBefore := atomic.LoadInt64(&oldHits)
	for i, name := range []string{"www2.ghost.", "www3.ghost.", "www4.ghost.", "www5.ghost."} {
		got := ask(name)
		t.Logf("query %d %s -> %s", i, name, got)
	}
	oldAfter := atomic.LoadInt64(&oldHits)

	for _, a := range addrs {
		if a == "[2001:db8::21]:53" || a == "192.0.2.21:53" {
			t.Errorf("C08 violated: the delegation granted by the parent's CURRENT referral (ns1.ghost. A 192.0.2.22) "+
				"contains the former child's address %s, taken from glue of the old, expired delegation", a)
		}
	}
	if oldAfter != oldBefore {
		t.Errorf("C08 violated: former child contacted %d time(s) after the parent re-delegated and the old lease ended",
			oldAfter-oldBefore)
	}
}
