package resolver

import (
	"context"
	"net"
	"strings"
	"testing"
	"time"

	"github.com/miekg/dns"
)

// TestAuditReplyCarriesClientQuestionSpelling: the reply handed to a client
// must carry that client's question, byte for byte (a 0x20-validating client
// discards anything else). An authority may echo the question in another
// letter case, and the upstream exchange accepts such an echo
// (dnsclient.QuestionMatches compares canonical names). The forwarder and the
// shared-lookup (follower) branch of groupLookup both write the client's own
// spelling back; the ordinary unshared iterative route does not, so the client
// is answered with the authority's spelling of the question, not its own.
func TestAuditReplyCarriesClientQuestionSpelling(t *testing.T) {
	pc, err := net.ListenPacket("udp", "127.0.0.1:0")
	if err != nil {
		t.Fatalf("listen udp: %v", err)
	}
	mux := dns.NewServeMux()
	mux.HandleFunc(".", func(w dns.ResponseWriter, r *dns.Msg) {
		reply := new(dns.Msg)
		reply.SetReply(r)
		reply.Authoritative = true
		if len(r.Question) == 1 {
			// A case-folding authority: it echoes the question in lower case.
			reply.Question[0].Name = strings.ToLower(r.Question[0].Name)
			q := reply.Question[0]
			switch {
			case q.Name == "www.test." && q.Qtype == dns.TypeA:
				rr, _ := dns.NewRR("www.test. 300 IN A 192.0.2.10")
				reply.Answer = append(reply.Answer, rr)
			case q.Name != "www.test." && q.Name != "test." && q.Name != ".":
				reply.Rcode = dns.RcodeNameError
			}
		}
		_ = w.WriteMsg(reply)
	})
	server := &dns.Server{Net: "udp", PacketConn: pc, Handler: mux}
	go func() { _ = server.ActivateAndServe() }()
	time.Sleep(10 * time.Millisecond)
	defer func() { _ = server.Shutdown() }()

	cfg := makeTestConfig()
	cfg.RootServers = []string{pc.LocalAddr().String()}
	cfg.Root6Servers = nil
	cfg.IPv6Access = false
	cfg.DNSSEC = "off"

	handler := New(cfg)

	const asked = "wWw.TeSt."
	m := new(dns.Msg)
	m.SetQuestion(asked, dns.TypeA)
	m.Id = 4242
	r := handler.handle(context.Background(), m)
	if r == nil {
		t.Fatal("no reply")
	}
	if r.Rcode != dns.RcodeSuccess || len(r.Answer) != 1 {
		t.Fatalf("setup: want one answer, got rcode=%d answers=%d", r.Rcode, len(r.Answer))
	}
	if r.Id != m.Id {
		t.Errorf("reply ID = %d, want the query's %d", r.Id, m.Id)
	}
	if len(r.Question) != 1 {
		t.Fatalf("reply carries %d questions, want 1", len(r.Question))
	}
	if got := r.Question[0].Name; got != asked {
		t.Errorf("reply question name = %q, want the client's own spelling %q", got, asked)
	}
}
