package cache

import (
	"context"
	"testing"
	"time"

	"github.com/miekg/dns"
	"github.com/semihalev/sdns/config"
	"github.com/semihalev/sdns/internal/mock"
	"github.com/semihalev/sdns/middleware"
)

// TestAuditAnswerOutlivesCoveringRRSIG: the covering RRSIG's expiration is an
// absolute bound on a cached answer's lifetime. Only the record TTLs are
// subject to the 5 s floor (and, separately, the delegation lease is allowed
// to undercut it); the signature's expiry is not. The implementation folds
// the time-to-expiry into the same minimum as the record TTLs and floors the
// result, so an answer whose signature is valid for another second is kept —
// and served, with AD set — for five.
func TestAuditAnswerOutlivesCoveringRRSIG(t *testing.T) {
	c := New(&config.Config{CacheSize: 1024, Expire: 600})
	defer c.Stop()

	const name = "signed.audit-rrsig.example."

	// Valid at admission: expires at the end of the next wall-clock second.
	admitted := time.Now()
	sigExpiry := uint32(admitted.Unix()) + 1 //nolint:gosec // test
	sigExpiresAt := time.Unix(int64(sigExpiry), 0)

	upstreamCalls := 0
	upstream := middleware.HandlerFunc(func(_ context.Context, ch *middleware.Chain) {
		upstreamCalls++
		resp := new(dns.Msg)
		resp.SetReply(ch.Request.Msg())
		resp.RecursionAvailable = true
		resp.AuthenticatedData = true
		resp.Answer = []dns.RR{
			&dns.A{
				Hdr: dns.RR_Header{Name: name, Rrtype: dns.TypeA, Class: dns.ClassINET, Ttl: 300},
				A:   []byte{192, 0, 2, 1},
			},
			&dns.RRSIG{
				Hdr:         dns.RR_Header{Name: name, Rrtype: dns.TypeRRSIG, Class: dns.ClassINET, Ttl: 300},
				TypeCovered: dns.TypeA,
				Algorithm:   dns.ECDSAP256SHA256,
				Labels:      3,
				OrigTtl:     300,
				Expiration:  sigExpiry,
				Inception:   sigExpiry - 86400,
				KeyTag:      12345,
				SignerName:  "audit-rrsig.example.",
				Signature:   "AAAA",
			},
		}
		_ = ch.Writer.WriteMsg(resp)
		ch.Cancel()
	})

	ask := func() *dns.Msg {
		req := new(dns.Msg)
		req.SetQuestion(name, dns.TypeA)
		req.RecursionDesired = true
		req.SetEdns0(4096, true)
		w := mock.NewWriter("udp", "127.0.0.1:0")
		ch := middleware.NewChain([]middleware.Handler{c, upstream})
		ch.Reset(w, req)
		ch.Next(context.Background())
		if !w.Written() {
			t.Fatal("no response")
		}
		return w.Msg()
	}

	if first := ask(); len(first.Answer) != 2 {
		t.Fatalf("unexpected first reply:\n%v", first)
	}

	key := CacheKey{Question: dns.Question{Name: name, Qtype: dns.TypeA, Qclass: dns.ClassINET}}.Hash()
	entry, ok := c.store.LookupByKey(key)
	if !ok {
		t.Fatal("signed answer was not cached")
	}
	entryExpires := entry.stored.Add(entry.ttl)
	if entryExpires.After(sigExpiresAt) {
		t.Errorf("entry lifetime %v ends %v after its covering RRSIG expires (signature valid for %v at admission)",
			entry.ttl, entryExpires.Sub(sigExpiresAt).Round(time.Millisecond),
			sigExpiresAt.Sub(admitted).Round(time.Millisecond))
	}

	// Serve check in real time: wait until the signature has expired.
	time.Sleep(time.Until(sigExpiresAt) + 1100*time.Millisecond)
	upstreamCalls = 0
	second := ask()
	if upstreamCalls == 0 {
		var shown uint32
		if len(second.Answer) > 0 {
			shown = second.Answer[0].Header().Ttl
		}
		t.Errorf("answer served from cache %v after its covering RRSIG expired (AD=%v, TTL shown %d)",
			time.Since(sigExpiresAt).Round(time.Millisecond), second.AuthenticatedData, shown)
	}
}
