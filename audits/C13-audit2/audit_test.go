package cache

import (
	"context"
	"net"
	"net/netip"
	"sync"
	"sync/atomic"
	"testing"
	"time"

	"github.com/miekg/dns"
	"github.com/semihalev/sdns/config"
	"github.com/semihalev/sdns/internal/mock"
	"github.com/semihalev/sdns/middleware"
)

// auditInternalQueryer is the production Queryer's shape: the nested chain is
// handed a writer that reports Internal().
type auditInternalQueryer struct {
	handlers []middleware.Handler
}

func (q *auditInternalQueryer) Query(ctx context.Context, req *dns.Msg) (*dns.Msg, error) {
	w := mock.NewWriter("tcp", "127.0.0.255:0")
	if !w.Internal() {
		panic("fixture: mock writer is not internal")
	}
	ch := middleware.NewChain(q.handlers)
	ch.Reset(w, req)
	ch.Next(ctx)
	if !w.Written() {
		return nil, middleware.ErrNoResponse
	}
	return w.Msg(), nil
}

// C13: "the first retry after a backoff is led by a single probe" — for
// "concurrent followers of an expired entry".
//
// Cache.ServeDNS only runs the failure-probe election when !w.Internal().
// Every CNAME chase the cache itself starts (handleCacheHit ->
// additionalAnswer -> internalExchange) arrives on an internal writer, so
// independent clients whose cached aliases point below a zone whose backoff
// has just expired each send their own probe to that zone at the same time.
func TestAuditExpiredZoneBackoffIsProbedOnceAcrossAliasChases(t *testing.T) {
	c := New(&config.Config{CacheSize: 1024, Expire: 60})
	defer c.Stop()

	// dead.example. failed as a zone and its backoff has just run out.
	clock := newFailureFakeClock()
	c.failure.now = clock.Now
	c.store.RecordZoneFailure(dns.Question{
		Name: "seed.dead.example.", Qtype: dns.TypeA, Qclass: dns.ClassINET,
	}, "dead.example.")
	if _, ok := c.store.LookupFailure(auditQuery("x.dead.example."), netip.Prefix{}); !ok {
		t.Fatal("fixture: zone failure is not active during its backoff")
	}
	clock.Advance(DefaultFailureInitialTTL + time.Nanosecond)
	if _, ok := c.store.FailureRetryKey(auditQuery("x.dead.example."), netip.Prefix{}); !ok {
		t.Fatal("fixture: expired zone failure kept no retry generation")
	}

	const clients = 3
	var probes atomic.Int32
	started := make(chan string, clients)
	release := make(chan struct{})
	var releaseOnce sync.Once
	releaseAll := func() { releaseOnce.Do(func() { close(release) }) }
	t.Cleanup(releaseAll)

	// Stand-in for failover/resolver: everything that reaches it is upstream
	// traffic towards dead.example.
	upstream := middleware.HandlerFunc(func(_ context.Context, ch *middleware.Chain) {
		req := ch.Request.Msg()
		probes.Add(1)
		started <- req.Question[0].Name
		<-release

		resp := new(dns.Msg)
		resp.SetReply(req)
		resp.Answer = []dns.RR{&dns.A{
			Hdr: dns.RR_Header{Name: req.Question[0].Name, Rrtype: dns.TypeA, Class: dns.ClassINET, Ttl: 60},
			A:   net.IPv4(192, 0, 2, 7),
		}}
		_ = ch.Writer.WriteMsg(resp)
		ch.Cancel()
	})
	c.SetQueryer(&auditInternalQueryer{handlers: []middleware.Handler{c, upstream}})

	// Three unrelated, healthy, cached aliases whose targets live below the
	// zone that is due its first retry.
	aliases := []string{"one.alias.test.", "two.alias.test.", "three.alias.test."}
	targets := []string{"a.dead.example.", "b.dead.example.", "c.dead.example."}
	for i, alias := range aliases {
		m := new(dns.Msg)
		m.SetQuestion(alias, dns.TypeA)
		m.Response = true
		m.RecursionAvailable = true
		m.Answer = []dns.RR{&dns.CNAME{
			Hdr:    dns.RR_Header{Name: alias, Rrtype: dns.TypeCNAME, Class: dns.ClassINET, Ttl: 300},
			Target: targets[i],
		}}
		c.Set(CacheKey{Question: m.Question[0]}.Hash(), m)
	}

	done := make(chan struct{}, clients)
	for _, alias := range aliases {
		req := auditQuery(alias)
		writer := mock.NewWriter("udp", "192.0.2.1:53000")
		chain := middleware.NewChain([]middleware.Handler{c, upstream})
		chain.Reset(writer, req)
		go func() {
			chain.Next(context.Background())
			done <- struct{}{}
		}()
	}

	select {
	case <-started:
	case <-time.After(2 * time.Second):
		t.Fatal("fixture: no probe reached the upstream at all")
	}
	// The first probe is still in flight (blocked on release). Nobody else may
	// reach the upstream for this zone until it has reported.
	select {
	case name := <-started:
		t.Errorf("second concurrent probe for the expired zone reached upstream (%s) while the first was still in flight", name)
	case <-time.After(300 * time.Millisecond):
	}

	if got := probes.Load(); got != 1 {
		t.Errorf("upstream probes in flight for the zone whose backoff just expired = %d, want 1", got)
	}

	releaseAll()
	for range clients {
		select {
		case <-done:
		case <-time.After(5 * time.Second):
			t.Fatal("client request did not finish")
		}
	}
}

func auditQuery(name string) *dns.Msg {
	m := new(dns.Msg)
	m.SetQuestion(name, dns.TypeA)
	m.SetEdns0(1232, false)
	return m
}
