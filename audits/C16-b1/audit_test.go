package cache

import "testing"

// C16: the tables "behave as maps" over all sequences of set/get/remove/
// iterate operations, and "removal ... never makes another key unreachable,
// duplicated or miscounted". For a map, removing a key while iterating only
// withholds the removed key: every key that is never removed is still
// produced exactly once, and the delete-everything-while-ranging idiom
// empties the map. UInt64Map iterates its slot array live while Del's
// backward shift pulls later entries of the probe chain into slots the
// iterator has already passed, so removing ONE key hides OTHER, untouched
// keys from the iteration.
func TestAuditIterateWithRemovalSkipsLiveKeys(t *testing.T) {
	const n = 12

	// Keys whose slots form probe chains in the 16-slot table (clustered /
	// colliding keys are in the property's stated domain).
	key := func(i uint64) uint64 { return i<<32 | i*7 }
	build := func() *UInt64Map[int] {
		m := NewUInt64Map[int](8)
		for i := uint64(1); i <= n; i++ {
			m.Put(key(i), int(i))
		}
		return m
	}

	// Part 1: remove exactly one key, at the moment the iterator produces it.
	// All the other keys stay in the map the whole time.
	for del := uint64(1); del <= n; del++ {
		m := build()
		visits := map[uint64]int{}
		for k := range m.Keys() {
			visits[k]++
			if k == key(del) {
				if !m.Del(k) {
					t.Fatalf("Del(%d) reported the key absent", k)
				}
			}
		}
		for i := uint64(1); i <= n; i++ {
			if i == del {
				continue
			}
			if _, ok := m.Get(key(i)); !ok {
				t.Fatalf("key %d vanished from the map after removing key %d", i, del)
			}
			if visits[key(i)] != 1 {
				t.Errorf("removing key %d during iteration: key %d (never removed, still stored) was produced %d times, want exactly 1",
					del, i, visits[key(i)])
			}
		}
	}

	// Part 2: the delete-while-ranging idiom must empty the table
	// (as `for k := range m { delete(m, k) }` does for a map).
	m := NewUInt64Map[int](8)
	for i := 1; i <= 40; i++ {
		m.Put(uint64(i), i)
	}
	produced := 0
	m.ForEach(func(k uint64, _ int) bool {
		produced++
		m.Del(k)
		return true
	})
	if m.Len() != 0 || produced != 40 {
		t.Errorf("ForEach+Del over 40 keys: produced %d keys and left %d behind, want 40 and 0", produced, m.Len())
	}
}
