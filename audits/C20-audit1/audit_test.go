package dns64

import (
	"bytes"
	"context"
	"testing"

	"github.com/miekg/dns"
)

// C20: "Synthesis happens only for ... non-excluded zones".
//
// A message-born request (the DoH JSON endpoint builds one straight from the
// ?name= parameter, never packing it) can spell a name of an excluded zone
// with a presentation-format escape: "ex\097mple.org." IS "example.org." on
// the wire. ServeDNS compares the raw presentation string against
// exclude_zones, so the escaped spelling is not recognised as excluded and the
// reply is synthesised.
func TestAuditC20ExcludedZoneEscapedNameStillSynthesised(t *testing.T) {
	const plain = "foo.example.org."
	const escaped = `foo.ex\097mple.org.`

	// Both spellings are the same domain name.
	pack := func(name string) []byte {
		m := new(dns.Msg)
		m.SetQuestion(name, dns.TypeAAAA)
		m.Id = 1
		b, err := m.Pack()
		if err != nil {
			t.Fatalf("pack %q: %v", name, err)
		}
		return b
	}
	if !bytes.Equal(pack(plain), pack(escaped)) {
		t.Fatalf("test premise broken: %q and %q differ on the wire", plain, escaped)
	}

	for _, qname := range []string{plain, escaped} {
		cfg := baseConfig()
		cfg.DNS64.ExcludeZones = []string{"example.org."}
		d := New(cfg)
		sq := &stubQueryer{resp: aRespMsg(qname, 300, "192.0.2.33")}
		d.queryer = sq

		ch, mw := makeChain(t, d, &stubAnswerer{msg: noDataMsg(qname, 3600)}, "203.0.113.5:53", qname, dns.TypeAAAA)
		d.ServeDNS(context.Background(), ch)

		resp := mw.Msg()
		if resp == nil {
			t.Fatalf("%q: no response written", qname)
		}
		if sq.last != nil {
			t.Errorf("%q: name is inside excluded zone example.org. but DNS64 issued the secondary A lookup for %q",
				qname, sq.last.Question[0].Name)
		}
		for _, rr := range resp.Answer {
			if aaaa, ok := rr.(*dns.AAAA); ok {
				t.Errorf("%q: name is inside excluded zone example.org. but the reply carries synthesised AAAA %s",
					qname, aaaa.AAAA)
			}
		}
	}
}
