package cache

import (
	"context"
	"sync/atomic"
	"testing"

	"github.com/miekg/dns"
	"github.com/semihalev/sdns/config"
	"github.com/semihalev/sdns/internal/mock"
	"github.com/semihalev/sdns/middleware"
)

// C03: "same owner name (ASCII case-insensitive, nothing broader)" on the
// "failure lookups" route, for "all label byte values 0-255" arriving as
// "presentation text, including ... non-printable octets".
//
// The RFC 9520 failure cache normalises the question name with
// dns.CanonicalName, which is strings.Map over the name. strings.Map decodes
// the string as UTF-8 and rewrites every byte that is not valid UTF-8 to
// U+FFFD. A decoded request whose presentation name carries raw high octets
// (what the DoH JSON endpoint builds from ?name=caf%E9.example, or any
// programmatic dns.Msg) therefore loses those octets: "caf\xe9.example." and
// "caf\xe8.example." - two different DNS names, the labels differ in one
// octet and neither is an ASCII letter - both become "caf\uFFFD.example.",
// hash to the same failure key and pass the stored-name verification. The
// SERVFAIL cached for the first name is served for the second.
func TestAuditFailureCacheFoldsDistinctHighOctetNames(t *testing.T) {
	c := New(&config.Config{CacheSize: 1024})
	defer c.Stop()

	const (
		deadName = "caf\xe9.example." // label octets 63 61 66 E9
		liveName = "caf\xe8.example." // label octets 63 61 66 E8
	)

	var calls atomic.Int32
	downstream := middleware.HandlerFunc(func(_ context.Context, ch *middleware.Chain) {
		calls.Add(1)
		req := ch.Request.Msg()
		resp := new(dns.Msg)
		resp.SetReply(req)
		if req.Question[0].Name == liveName {
			resp.Answer = []dns.RR{&dns.A{
				Hdr: dns.RR_Header{Name: liveName, Rrtype: dns.TypeA, Class: dns.ClassINET, Ttl: 300},
				A:   []byte{192, 0, 2, 7},
			}}
		} else {
			resp.Rcode = dns.RcodeServerFailure
		}
		_ = ch.Writer.WriteMsg(resp)
		ch.Cancel()
	})

	query := func(name string) *dns.Msg {
		req := new(dns.Msg)
		req.SetQuestion(name, dns.TypeA)
		writer := mock.NewWriter("udp", "192.0.2.1:53000")
		ch := middleware.NewChain([]middleware.Handler{c, downstream})
		ch.Reset(writer, req)
		ch.Next(context.Background())
		return writer.Msg()
	}

	// Both spellings are names miekg packs without complaint, to different
	// wire labels.
	for _, n := range []string{deadName, liveName} {
		m := new(dns.Msg)
		m.SetQuestion(n, dns.TypeA)
		if _, err := m.Pack(); err != nil {
			t.Fatalf("setup: %q does not pack: %v", n, err)
		}
	}

	first := query(deadName)
	if first == nil || first.Rcode != dns.RcodeServerFailure || calls.Load() != 1 {
		t.Fatalf("setup: first query should reach downstream and fail, got %v (calls=%d)", first, calls.Load())
	}

	second := query(liveName)
	if second == nil {
		t.Fatal("no response for the second name")
	}
	if calls.Load() != 2 || second.Rcode != dns.RcodeSuccess {
		t.Fatalf("query for %q was answered %s from the failure cached for the different name %q (downstream calls = %d, want 2)",
			liveName, dns.RcodeToString[second.Rcode], deadName, calls.Load())
	}
}
