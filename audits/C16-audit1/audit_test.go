package ratelimit

import (
	"runtime"
	"strings"
	"sync"
	"testing"
	"time"
)

// C16: "writers never wait on a global lock".
//
// LimiterStore guards its whole table with one sync.RWMutex (s.mu). Every
// insert of a new client key (Get on a miss) takes s.mu.Lock(), and so do the
// eviction scan (evictOne, up to 1000 entries) and the O(n) Cleanup sweep, so
// a writer for key B queues behind whatever any other writer for an unrelated
// key A is doing.
//
// Part 1 parks "another writer" inside the store's exclusive section (exactly
// the lock Get's insert path, evictOne and Cleanup hold) and shows that an
// insert of an unrelated key cannot complete until that section is left.
// Part 2 lets real writers on pairwise distinct keys run and shows, through
// the runtime mutex profile, that they do block each other inside
// (*LimiterStore).Get.
func TestAuditLimiterStoreWritersWaitOnGlobalLock(t *testing.T) {
	s := NewLimiterStore(1024, 10)
	s.Get(1) // writer A's key exists; unrelated to key 42 below

	// --- Part 1: deterministic -------------------------------------------
	s.mu.Lock() // some other writer (insert for key A / evictOne / Cleanup) is mid-flight
	done := make(chan struct{})
	go func() {
		s.Get(42) // writer B: brand-new, unrelated key
		close(done)
	}()

	blocked := false
	select {
	case <-done:
	case <-time.After(300 * time.Millisecond):
		blocked = true
	}
	s.mu.Unlock()
	<-done

	// --- Part 2: real writers, distinct keys ------------------------------
	old := runtime.SetMutexProfileFraction(1)
	defer runtime.SetMutexProfileFraction(old)

	full := NewLimiterStore(1000, 10)
	for k := uint64(0); k < 1000; k++ {
		full.Get(k + 1)
	}
	const writers = 8
	var wg sync.WaitGroup
	for w := 0; w < writers; w++ {
		wg.Add(1)
		go func(w int) {
			defer wg.Done()
			base := uint64(w+1) << 32
			for i := uint64(0); i < 20000; i++ {
				full.Get(base + i) // every call inserts a key nobody else touches
			}
		}(w)
	}
	wg.Wait()

	contended := false
	recs := make([]runtime.BlockProfileRecord, 1024)
	n, ok := runtime.MutexProfile(recs)
	for !ok {
		recs = make([]runtime.BlockProfileRecord, 2*n)
		n, ok = runtime.MutexProfile(recs)
	}
	for _, r := range recs[:n] {
		frames := runtime.CallersFrames(r.Stack())
		for {
			f, more := frames.Next()
			if strings.Contains(f.Function, "ratelimit.(*LimiterStore).Get") {
				contended = true
			}
			if !more {
				break
			}
		}
	}
	t.Logf("part 1: writer for an unrelated key blocked = %v; part 2: distinct-key writers contended on the store mutex = %v", blocked, contended)

	if blocked {
		t.Errorf("inserting key 42 waited on the store-wide lock held on behalf of an unrelated key: LimiterStore writers wait on a global lock")
	}
	if contended {
		t.Errorf("writers inserting pairwise distinct keys blocked one another on LimiterStore's single mutex (mutex profile shows contention in (*LimiterStore).Get)")
	}
}
