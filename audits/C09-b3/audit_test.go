package resolver

import (
	"crypto"
	"encoding/base64"
	"net"
	"sync"
	"testing"
	"time"

	"github.com/miekg/dns"
	"github.com/semihalev/sdns/config"
	"github.com/semihalev/sdns/middleware/resolver/dnssec"
)

// ---- harness: a fake root server whose DNSKEY answer can be swapped ----

type audit3Root struct {
	mu     sync.Mutex
	answer []dns.RR
}

func (s *audit3Root) set(rrs ...dns.RR) {
	s.mu.Lock()
	s.answer = rrs
	s.mu.Unlock()
}

func (s *audit3Root) ServeDNS(w dns.ResponseWriter, r *dns.Msg) {
	resp := new(dns.Msg)
	resp.SetReply(r)
	resp.Authoritative = true
	if r.Question[0].Qtype == dns.TypeDNSKEY && r.Question[0].Name == "." {
		s.mu.Lock()
		resp.Answer = append(resp.Answer, s.answer...)
		s.mu.Unlock()
	}
	_ = w.WriteMsg(resp)
}

func audit3StartRoot(t *testing.T) (*audit3Root, string) {
	t.Helper()
	pc, err := net.ListenPacket("udp", "127.0.0.1:0")
	if err != nil {
		t.Fatalf("listen: %v", err)
	}
	h := &audit3Root{}
	srv := &dns.Server{PacketConn: pc, Handler: h}
	go func() { _ = srv.ActivateAndServe() }()
	t.Cleanup(func() { _ = srv.Shutdown() })
	return h, pc.LocalAddr().String()
}

type audit3Key struct {
	key    *dns.DNSKEY
	signer crypto.Signer
}

func audit3NewKSK(t *testing.T) audit3Key {
	t.Helper()
	k := &dns.DNSKEY{
		Hdr:       dns.RR_Header{Name: ".", Rrtype: dns.TypeDNSKEY, Class: dns.ClassINET, Ttl: 3600},
		Flags:     257,
		Protocol:  3,
		Algorithm: dns.ED25519,
	}
	priv, err := k.Generate(256)
	if err != nil {
		t.Fatalf("generate: %v", err)
	}
	return audit3Key{key: k, signer: priv.(crypto.Signer)}
}

func audit3Revoked(k *dns.DNSKEY) *dns.DNSKEY {
	c := *k
	c.Flags |= DNSKEYFlagRevoke
	return &c
}

// audit3Sign signs the DNSKEY RRset with signer, announcing keyTag as the
// signing key's tag.
func audit3Sign(t *testing.T, signer crypto.Signer, keyTag uint16, rrset []dns.RR) *dns.RRSIG {
	t.Helper()
	now := time.Now()
	sig := &dns.RRSIG{
		Hdr:         dns.RR_Header{Name: ".", Rrtype: dns.TypeRRSIG, Class: dns.ClassINET, Ttl: 3600},
		TypeCovered: dns.TypeDNSKEY,
		Algorithm:   dns.ED25519,
		Labels:      0,
		OrigTtl:     3600,
		Expiration:  uint32(now.Add(24 * time.Hour).Unix()),
		Inception:   uint32(now.Add(-time.Hour).Unix()),
		KeyTag:      keyTag,
		SignerName:  ".",
	}
	if err := sig.Sign(signer, rrset); err != nil {
		t.Fatalf("sign: %v", err)
	}
	return sig
}

func audit3Resolver(t *testing.T, dir, rootAddr string, anchors ...*dns.DNSKEY) *Resolver {
	t.Helper()
	cfg := new(config.Config)
	cfg.RootServers = []string{rootAddr}
	for _, k := range anchors {
		cfg.RootKeys = append(cfg.RootKeys, k.String())
	}
	cfg.Maxdepth = 30
	cfg.Expire = 600
	cfg.CacheSize = 1024
	cfg.Timeout.Duration = 2 * time.Second
	cfg.Directory = dir
	// DNSSEC stays off so the background run() goroutine never calls AutoTA
	// on its own; the test drives AutoTA directly.
	return NewResolver(cfg)
}

func audit3Trusted(r *Resolver, k *dns.DNSKEY) bool {
	r.RLock()
	defer r.RUnlock()
	for _, rr := range r.rootKeys {
		if have, ok := rr.(*dns.DNSKEY); ok && have.PublicKey == k.PublicKey && have.Algorithm == k.Algorithm {
			return true
		}
	}
	return false
}

// audit3KSKWithTag fabricates a KSK (flags 257) whose RFC 4034 key tag is
// want. Key tags are a 16-bit checksum of the RDATA, so one 16-bit word of the
// key material is enough to steer it.
func audit3KSKWithTag(t *testing.T, want uint16) *dns.DNSKEY {
	t.Helper()
	material := make([]byte, 32)
	for i := range material {
		material[i] = byte(7*i + 1)
	}
	k := &dns.DNSKEY{
		Hdr:       dns.RR_Header{Name: ".", Rrtype: dns.TypeDNSKEY, Class: dns.ClassINET, Ttl: 3600},
		Flags:     257,
		Protocol:  3,
		Algorithm: dns.ED25519,
	}
	for w := 0; w < 1<<16; w++ {
		material[0], material[1] = byte(w>>8), byte(w)
		k.PublicKey = base64.StdEncoding.EncodeToString(material)
		if dnssec.KeyTag(k) == want {
			return k
		}
	}
	t.Fatalf("could not fabricate a key with tag %d", want)
	return nil
}

// TestAuditRevocationHiddenByCollidingTag: the fetched RRset - signed by every
// anchor, A's revocation validly self-signed - holds A with the REVOKE bit and,
// after it, another KSK whose 16-bit key tag equals the tag of revoked A.
// AutoTA files the fetched keys in a map keyed by tag (kskFetched), the later
// key replaces revoked A there, and the revocation is never looked at: A goes
// to MISSING and stays a published trust anchor.
func TestAuditRevocationHiddenByCollidingTag(t *testing.T) {
	root, addr := audit3StartRoot(t)
	dir := t.TempDir()

	a := audit3NewKSK(t)
	b := audit3NewKSK(t)
	aRev := audit3Revoked(a.key)
	for dnssec.KeyTag(a.key) == dnssec.KeyTag(b.key) || dnssec.KeyTag(b.key) == dnssec.KeyTag(aRev) {
		b = audit3NewKSK(t)
	}
	x := audit3KSKWithTag(t, dnssec.KeyTag(aRev)) // unrelated new KSK, same tag as revoked A
	if x.PublicKey == a.key.PublicKey {
		t.Fatal("fabricated key equals A")
	}

	r := audit3Resolver(t, dir, addr, a.key, b.key)

	// Refresh 1: ordinary RRset {A, B}.
	plain := []dns.RR{a.key, b.key}
	root.set(a.key, b.key,
		audit3Sign(t, a.signer, dnssec.KeyTag(a.key), plain),
		audit3Sign(t, b.signer, dnssec.KeyTag(b.key), plain))
	r.AutoTA()
	if !audit3Trusted(r, a.key) || !audit3Trusted(r, b.key) {
		t.Fatalf("precondition: A and B should be trusted after the first refresh")
	}

	// Refresh 2: A revoked (self-signed), B co-signs, new key X with the
	// colliding tag follows revoked A in the answer.
	set := []dns.RR{aRev, x, b.key}
	root.set(aRev, x, b.key,
		audit3Sign(t, a.signer, dnssec.KeyTag(aRev), set),
		audit3Sign(t, b.signer, dnssec.KeyTag(b.key), set))
	r.AutoTA()

	if audit3Trusted(r, a.key) {
		t.Errorf("key %d is still published as a trust anchor after a refresh that carried its validly self-signed revocation "+
			"(hidden behind another DNSKEY with the same key tag %d)", dnssec.KeyTag(a.key), dnssec.KeyTag(aRev))
	}
	if tomb, err := readTombstones(dir + "/" + tombstoneFile); err != nil || tomb[dnskeyMaterialFP(a.key)] == nil {
		t.Errorf("revocation of key %d was not recorded (err=%v)", dnssec.KeyTag(a.key), err)
	}
}
