package server

import (
	"context"
	"encoding/binary"
	"io"
	"net"
	"testing"
	"time"

	"github.com/miekg/dns"
	"github.com/semihalev/sdns/config"
	"github.com/semihalev/sdns/middleware"
	"github.com/semihalev/sdns/middleware/cache"
	"github.com/semihalev/sdns/middleware/edns"
)

// audit3SilentUpstream stands in for the resolver in front of authorities
// that never answer: it waits out the query's own budget (the context the
// server and the cache hand it) and then reports SERVFAIL, exactly as
// resolver.DNSHandler does when every exchange runs into the deadline.
type audit3SilentUpstream struct{}

func (audit3SilentUpstream) Name() string { return "audit3-silent-upstream" }

func (audit3SilentUpstream) ServeDNS(ctx context.Context, ch *middleware.Chain) {
	ctx, req := ch.Materialize(ctx)
	if req == nil {
		return
	}
	<-ctx.Done()
	resp := new(dns.Msg)
	resp.SetRcode(req, dns.RcodeServerFailure)
	_ = ch.Writer.WriteMsg(resp)
	ch.Cancel()
}

// TestAuditTCPPipelinedQueryAnsweredAfterTimeout: two distinct queries arrive
// together on one TCP connection (RFC 7766 pipelining) while the upstream is
// silent. Both are admitted at the same instant, so C11 owes each of them
// its one reply no later than the configured query timeout plus a small
// margin. The real TCP engine serves the frames of a connection strictly one
// after the other and starts the second query's clock only when it gets round
// to it, so the second reply arrives after twice the timeout (k-th after k
// times the timeout).
func TestAuditTCPPipelinedQueryAnsweredAfterTimeout(t *testing.T) {
	const queryTimeout = 400 * time.Millisecond
	const margin = 250 * time.Millisecond

	middleware.Reset()
	t.Cleanup(middleware.Reset)
	middleware.Register("edns", func(cfg *config.Config) middleware.Handler { return edns.New(cfg) })
	middleware.Register("cache", func(cfg *config.Config) middleware.Handler { return cache.New(cfg) })
	middleware.Register("audit3-silent-upstream", func(*config.Config) middleware.Handler { return audit3SilentUpstream{} })
	cfg := &config.Config{Bind: "127.0.0.1:0", CacheSize: 1024, Expire: 60}
	cfg.QueryTimeout.Duration = queryTimeout
	middleware.Setup(cfg)
	s := New(cfg)

	ctx, cancel := context.WithCancel(context.Background())
	defer cancel()
	tcp, ok := s.listeners[1].(*tcpListener)
	if !ok {
		t.Fatalf("listener 1 is %T, want the TCP listener", s.listeners[1])
	}
	if err := tcp.Bind(ctx); err != nil {
		t.Fatal(err)
	}
	go func() { _ = tcp.Serve(ctx) }()
	t.Cleanup(func() {
		sctx, scancel := context.WithTimeout(context.Background(), time.Second)
		defer scancel()
		_ = tcp.Shutdown(sctx)
	})
	tcp.mu.Lock()
	addr := tcp.ln.Addr().String()
	tcp.mu.Unlock()

	var conn net.Conn
	var err error
	for range 40 {
		if conn, err = net.Dial("tcp", addr); err == nil {
			break
		}
		time.Sleep(25 * time.Millisecond)
	}
	if err != nil {
		t.Fatal(err)
	}
	defer conn.Close()

	names := []string{"first.audit3.example.", "second.audit3.example."}
	var burst []byte
	for i, name := range names {
		req := new(dns.Msg)
		req.SetQuestion(name, dns.TypeA)
		req.Id = uint16(300 + i)
		b, perr := req.Pack()
		if perr != nil {
			t.Fatal(perr)
		}
		var prefix [2]byte
		binary.BigEndian.PutUint16(prefix[:], uint16(len(b)))
		burst = append(burst, prefix[:]...)
		burst = append(burst, b...)
	}
	start := time.Now()
	if _, err := conn.Write(burst); err != nil {
		t.Fatal(err)
	}

	arrived := map[uint16]time.Duration{}
	_ = conn.SetReadDeadline(start.Add(4*queryTimeout + time.Second))
	for len(arrived) < len(names) {
		var prefix [2]byte
		if _, err := io.ReadFull(conn, prefix[:]); err != nil {
			break
		}
		body := make([]byte, binary.BigEndian.Uint16(prefix[:]))
		if _, err := io.ReadFull(conn, body); err != nil {
			break
		}
		m := new(dns.Msg)
		if err := m.Unpack(body); err != nil {
			t.Fatalf("undecodable reply: %v", err)
		}
		if _, dup := arrived[m.Id]; dup {
			t.Fatalf("query id %d answered twice", m.Id)
		}
		arrived[m.Id] = time.Since(start)
	}

	for i, name := range names {
		took, ok := arrived[uint16(300+i)]
		if !ok {
			t.Errorf("%s: no reply at all", name)
			continue
		}
		if took > queryTimeout+margin {
			t.Errorf("%s: reply arrived %v after the query was sent; the configured query timeout is %v (+%v margin)",
				name, took.Round(time.Millisecond), queryTimeout, margin)
		}
	}
}
