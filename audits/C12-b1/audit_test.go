package cache

import (
	"context"
	"errors"
	"fmt"
	"strings"
	"sync/atomic"
	"testing"
	"time"

	"github.com/miekg/dns"
	"github.com/semihalev/sdns/config"
	"github.com/semihalev/sdns/internal/mock"
	"github.com/semihalev/sdns/middleware"
)

// auditLoopAuthority stands where the resolver stands in the pipeline: the
// terminal handler below the cache. It answers like an authority holding one
// alias loop,
//
//	c0.loop.test. CNAME c1.loop.test. CNAME ... CNAME c<N-1>.loop.test. CNAME c0.loop.test.
//
// one alias per response. Every call is one full upstream resolution.
type auditLoopAuthority struct {
	cycle       int
	resolutions atomic.Int64
}

func (a *auditLoopAuthority) Name() string { return "audit-loop-authority" }

func (a *auditLoopAuthority) ServeDNS(ctx context.Context, ch *middleware.Chain) {
	_, req := ch.Materialize(ctx)
	if req == nil || len(req.Question) != 1 {
		ch.Cancel()
		return
	}
	a.resolutions.Add(1)

	q := req.Question[0]
	var i int
	_, _ = fmt.Sscanf(strings.ToLower(q.Name), "c%d.loop.test.", &i)

	resp := new(dns.Msg)
	resp.SetReply(req)
	resp.RecursionAvailable = true
	resp.Answer = []dns.RR{&dns.CNAME{
		Hdr:    dns.RR_Header{Name: q.Name, Rrtype: dns.TypeCNAME, Class: dns.ClassINET, Ttl: 300},
		Target: fmt.Sprintf("c%d.loop.test.", (i+1)%a.cycle),
	}}
	_ = ch.Writer.WriteMsg(resp)
	ch.Cancel()
}

var errAuditCutOff = errors.New("audit: experiment cut off")

// auditCountingQueryer counts the internal sub-queries one client query
// starts and hands each of them to the real pipeline Queryer. Left alone the
// unmodified code runs for tens of seconds (3,877,390 sub-queries and 22 s for
// the loop below, measured), so once the count is far past anything a bounded
// chase could need the experiment is cut off by failing further sub-queries.
type auditCountingQueryer struct {
	next   middleware.Queryer
	cutOff int64
	n      atomic.Int64
}

func (q *auditCountingQueryer) Query(ctx context.Context, req *dns.Msg) (*dns.Msg, error) {
	if q.n.Add(1) > q.cutOff {
		return nil, errAuditCutOff
	}
	return q.next.Query(ctx, req)
}

// TestAuditAliasLoopWorkIsBounded sends one client query for a name on a
// 13-name CNAME loop through the real cache middleware, wired to the real
// pipeline Queryer the way middleware.Setup wires it, with the recursion
// firewall in its default (shadow) mode.
//
// The chase has two caps - additionalAnswer follows at most 10 aliases per
// invocation, and at most maxCnameChaseDepth invocations may nest - and a
// loop check. An alias loop must therefore end, after a bounded number of
// sub-queries, in an answer or SERVFAIL.
func TestAuditAliasLoopWorkIsBounded(t *testing.T) {
	const (
		cycle  = 13
		cutOff = 5000
	)

	cfg := &config.Config{Expire: 300, CacheSize: 65536, Prefetch: 0, RateLimit: 0, Maxdepth: 30}
	// cfg.RecursionFirewall is left zero: Normalize turns that into the
	// default, mode "shadow" with the default budgets.

	c := New(cfg)
	defer c.Stop()
	authority := &auditLoopAuthority{cycle: cycle}

	reg := middleware.NewRegistry()
	reg.Register("cache", func(*config.Config) middleware.Handler { return c })
	reg.Register(authority.Name(), func(*config.Config) middleware.Handler { return authority })
	pipeline := reg.Build(cfg)
	queryer := &auditCountingQueryer{
		next:   middleware.NewPipelineQueryer(pipeline.SubPipeline()),
		cutOff: cutOff,
	}
	c.SetQueryer(queryer)
	c.SetPrefetchQueryer(queryer)

	req := new(dns.Msg)
	req.SetQuestion("c0.loop.test.", dns.TypeA)
	req.SetEdns0(1232, false)

	// The request's own deadline. Nothing on the path below looks at it.
	ctx, cancel := context.WithTimeout(context.Background(), 2*time.Second)
	defer cancel()

	w := mock.NewWriter("udp", "192.0.2.53:53000")
	ch := pipeline.NewChain()
	ch.Reset(w, req)
	ch.Next(ctx)
	pipeline.PutChain(ch)

	// Ten aliases per invocation, maxCnameChaseDepth nested invocations, plus
	// a margin: what the two caps were meant to add up to.
	const structuralBound = 10*maxCnameChaseDepth + 10
	got := queryer.n.Load()
	if got > structuralBound {
		suffix := ""
		if got > cutOff {
			suffix = fmt.Sprintf(" (cut off by the test at %d; left alone it runs into the millions, long past the request deadline)", cutOff)
		}
		t.Errorf("one client query for a name on a %d-name alias loop started %d internal sub-queries%s "+
			"after only %d upstream resolutions; the chase caps allow at most %d",
			cycle, got, suffix, authority.resolutions.Load(), structuralBound)
	}
	if !w.Written() {
		t.Error("the client query produced no reply")
	}
}
