package cache

import (
	"context"
	"testing"
	"time"

	"github.com/miekg/dns"
	"github.com/semihalev/sdns/config"
	"github.com/semihalev/sdns/middleware"
)

// auditLatePrefetchQueryer is the cache-less refresh pipeline of a prefetch
// that is slow to come back. Its answer (zone serial 1) leaves the authority
// first; while it is still in flight a client asks another type at the same
// name, that resolution sees the zone's current state (serial 2), and the
// client path stores the subtree cut and the denial proof for it. Only then
// does the refresh return.
type auditLatePrefetchQueryer struct {
	t      *testing.T
	cache  *Cache
	denied string
}

func auditSetSerial(resp *dns.Msg, serial uint32) {
	for _, rr := range resp.Ns {
		if soa, ok := rr.(*dns.SOA); ok {
			soa.Serial = serial
		}
	}
}

func (q *auditLatePrefetchQueryer) Query(ctx context.Context, req *dns.Msg) (*dns.Msg, error) {
	old := nxCutValidatedResponse(req, q.denied, nxCutZone)
	auditSetSerial(old, 1)
	nxCutMark(ctx, old, q.denied, nxCutZone)

	// Client-path write, strictly after the refresh's data was produced and
	// strictly before the refresh completes.
	clientDownstream := middleware.HandlerFunc(func(ctx context.Context, ch *middleware.Chain) {
		resp := nxCutValidatedResponse(ch.Request.Msg(), q.denied, nxCutZone)
		auditSetSerial(resp, 2)
		nxCutMark(ctx, resp, q.denied, nxCutZone)
		_ = ch.Writer.WriteMsg(resp)
		ch.Cancel()
	})
	_ = nxCutExchange(q.t, q.cache, clientDownstream,
		nxCutRequest(q.denied, dns.TypeAAAA), "192.0.2.9:53000")

	return old, nil
}

func auditCutSerial(t *testing.T, c *Cache, name string) uint32 {
	t.Helper()
	cut, ok := c.store.LookupNXDomainCut(nxCutRequest(name, dns.TypeA))
	if !ok {
		t.Fatalf("no subtree cut covers %s", name)
	}
	for _, rr := range cut.msg.Ns {
		if soa, ok := rr.(*dns.SOA); ok {
			return soa.Serial
		}
	}
	t.Fatal("cut carries no SOA")
	return 0
}

// TestAuditLatePrefetchOverwritesNewerCut: the late-write guard (pointer CAS)
// only protects the exact-answer key of the refreshed entry. The subtree cut
// and the denial-proof records the refresh publishes after winning that CAS
// are keyed by the denied name / the proof owners, and a client-path write
// for ANOTHER question at the same name stores newer data under those keys
// without touching the refreshed entry. The late refresh then replaces the
// newer cut (and SOA/NSEC proof records) with its older ones.
func TestAuditLatePrefetchOverwritesNewerCut(t *testing.T) {
	c := New(&config.Config{CacheSize: 1024, Expire: 300})
	defer c.Stop()

	const denied = "late-prefetch.missing.secure.example."
	req := nxCutRequest(denied, dns.TypeA)
	key := CacheKey{Question: req.Question[0]}.Hash()
	claimed := NewCacheEntryWithKey(nxCutPositiveResponse(req), time.Minute, 0, key)
	c.positive.Set(key, claimed)
	c.SetPrefetchQueryer(&auditLatePrefetchQueryer{t: t, cache: c, denied: denied})

	queue := NewPrefetchQueue(0, 1, c.metrics)
	defer queue.Stop()
	queue.processPrefetch(PrefetchRequest{
		Request: req,
		Key:     key,
		Cache:   c,
		Entry:   claimed,
	})

	// The client path stored serial 2 for the cut key while the refresh was
	// in flight; the refresh (serial 1) completed afterwards and must not
	// have overwritten it.
	if got := auditCutSerial(t, c, "child."+denied); got != 2 {
		t.Errorf("subtree cut for %s carries SOA serial %d after the late refresh completed; "+
			"the client path had stored serial 2 while the refresh (serial 1) was in flight",
			denied, got)
	}

	// Same for the denial-proof index (RFC 8198 state).
	c.store.denialProofs.mu.RLock()
	snapshot := c.store.denialProofs.zoneIndex[denialProofZoneKey{zone: nxCutZone, qclass: dns.ClassINET}]
	c.store.denialProofs.mu.RUnlock()
	if snapshot == nil || snapshot.soa == nil || len(snapshot.soa.data) == 0 {
		t.Fatal("no denial-proof SOA stored")
	}
	if soa, ok := snapshot.soa.data[0].(*dns.SOA); !ok || soa.Serial != 2 {
		t.Errorf("denial-proof SOA carries serial %d after the late refresh; client path had stored serial 2",
			snapshot.soa.data[0].(*dns.SOA).Serial)
	}
}
