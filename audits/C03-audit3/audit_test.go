package cache

import (
	"context"
	"os"
	"sync/atomic"
	"testing"

	"github.com/miekg/dns"
	internalcache "github.com/semihalev/sdns/internal/cache"
	"github.com/semihalev/sdns/internal/mock"
	"github.com/semihalev/sdns/middleware"
)

// C03: "Names are keyed identically whether they arrive as wire labels or
// presentation text, including escaped and non-printable octets" on the
// "purge" route.
//
// internal/cache.Key / KeyString hash the presentation text byte for byte
// (only folding A-Z). KeyWire hashes the ONE spelling miekg's unpacker would
// produce for the wire labels (specials backslash-escaped, octets outside
// 0x20-0x7E as \DDD). Presentation text that reaches the cache without having
// been through the unpacker - the operator's purge request, whose qname the
// API passes on as dns.Fqdn(urlParam) - can spell the very same name
// differently: raw high octets ("café"), an unescaped special ("user@host"),
// or a \DDD escape of a printable octet ("ex\097mple"). All of these are
// legal presentation forms; miekg packs each to exactly the wire labels the
// entry was obtained for. They are keyed differently, so the purge computes
// another 64-bit key, removes nothing, and reports success.
func TestAuditPurgePresentationSpellingKeyedDifferentlyFromWire(t *testing.T) {
	cases := []struct {
		title        string
		presentation string // what the operator types / the API hands to Purge
	}{
		{"raw high octets", "caf\xc3\xa9.example."},
		{"unescaped special octet", "user@host.example."},
		{"decimal escape of a printable octet", "ex\\097mple.example."},
	}

	for _, tc := range cases {
		t.Run(tc.title, func(t *testing.T) {
			cfg := makeTestConfig()
			defer os.RemoveAll(cfg.Directory)
			c := New(cfg)
			defer c.Stop()

			// The wire labels this presentation text denotes.
			pm := new(dns.Msg)
			pm.SetQuestion(tc.presentation, dns.TypeA)
			raw, err := pm.Pack()
			if err != nil {
				t.Fatalf("setup: %q is not a packable name: %v", tc.presentation, err)
			}
			wireName := raw[12 : len(raw)-4]

			var calls atomic.Int32
			downstream := middleware.HandlerFunc(func(_ context.Context, ch *middleware.Chain) {
				calls.Add(1)
				req := ch.Request.Msg()
				resp := new(dns.Msg)
				resp.SetReply(req)
				resp.Answer = []dns.RR{&dns.A{
					Hdr: dns.RR_Header{Name: req.Question[0].Name, Rrtype: dns.TypeA, Class: dns.ClassINET, Ttl: 300},
					A:   []byte{192, 0, 2, 7},
				}}
				_ = ch.Writer.WriteMsg(resp)
				ch.Cancel()
			})
			// A client query arriving as wire labels (decoded from the packet).
			queryFromWire := func() {
				req := new(dns.Msg)
				if err := req.Unpack(raw); err != nil {
					t.Fatalf("setup: unpack: %v", err)
				}
				w := mock.NewWriter("udp", "192.0.2.1:53000")
				ch := middleware.NewChain([]middleware.Handler{c, downstream})
				ch.Reset(w, req)
				ch.Next(context.Background())
				if !w.Written() {
					t.Fatal("setup: no response written")
				}
			}

			queryFromWire()
			queryFromWire()
			if calls.Load() != 1 {
				t.Fatalf("setup: second wire query should be a cache hit, downstream calls = %d", calls.Load())
			}

			// The same name, keyed from presentation text and from wire labels.
			q := dns.Question{Name: tc.presentation, Qtype: dns.TypeA, Qclass: dns.ClassINET}
			kWire, ok := internalcache.KeyWire(wireName, dns.TypeA, dns.ClassINET, false)
			if !ok {
				t.Fatal("setup: KeyWire refused the name")
			}
			// Diagnostic only (a fix may canonicalise at the boundary instead
			// of inside Key): today the two hashes differ.
			if kText := internalcache.Key(q, false); kText != kWire {
				t.Logf("name %q keys as %#x from presentation text but %#x from its wire labels", tc.presentation, kText, kWire)
			}

			// The operator purges that name (api.purge -> Cache.Purge).
			c.Purge(q)

			queryFromWire()
			if calls.Load() != 2 {
				t.Errorf("purge of %q removed nothing: the next query for the same wire name was still a cache hit (downstream calls = %d, want 2)",
					tc.presentation, calls.Load())
			}
		})
	}
}
