#!/bin/bash
# usage: verify_seed.sh <worktree> <outdir i> <prop> <dest name>
# Confirms a seeded change: builds, existing tests of touched packages pass, demo fails with / passes without.
set -u
export PATH=/opt/veriftools/go1.26.8/bin:$PATH GOFLAGS=-mod=mod GOPROXY=off GOSUMDB=off GOTOOLCHAIN=local
WT=$1; SRC=$2; PROP=$3; NAME=$4
LOG=/tmp/verify_$NAME.log; : > $LOG
cd $WT && git checkout -q -- . && git clean -qfd -e out
demo_loc=$(jq -r .demo_location $SRC/meta.json | awk "{print \$1}")
git apply $SRC/patch.diff || { echo "$NAME: patch does not apply"; exit 1; }
pkgs=$(git diff --name-only | xargs -n1 dirname | sort -u | sed 's|^|./|' | tr '\n' ' ')
demo_pkg=./$(dirname $demo_loc)
go build ./... >>$LOG 2>&1 || { echo "$NAME: BUILD FAILS"; git checkout -q -- .; exit 1; }
go test -vet=off -count=1 -timeout 20m $pkgs $demo_pkg >>$LOG 2>&1; rc_suite=$?
cp $SRC/demo_test.go $demo_loc
go test -vet=off -count=1 -timeout 10m -run 'Demo' $demo_pkg >>$LOG 2>&1; rc_with=$?
git checkout -q -- . ; 
go test -vet=off -count=1 -timeout 10m -run 'Demo' $demo_pkg >>$LOG 2>&1; rc_without=$?
rm -f $demo_loc; git clean -qfd -e out
echo "$NAME: suite_rc=$rc_suite demo_with_patch_rc=$rc_with demo_pristine_rc=$rc_without pkgs=$pkgs"
if [ $rc_suite -eq 0 ] && [ $rc_with -ne 0 ] && [ $rc_without -eq 0 ]; then
  d=/verif/seeded/$NAME; mkdir -p $d; cp $SRC/patch.diff $SRC/demo_test.go $d/
  jq --arg ran "verify_seed.sh: git apply; go build ./...; go test -vet=off $pkgs $demo_pkg (pass); demo with patch (fails); demo on pristine (passes)" '. + {confirmed_by_main_session: $ran}' $SRC/meta.json > $d/meta.json
  echo "$NAME: CONFIRMED"
else echo "$NAME: NOT CONFIRMED (see $LOG)"; fi
