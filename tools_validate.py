#!/opt/veriftools/pyvenv/bin/python3
import json,sys,glob,jsonschema
ms=json.load(open('/root/.vp/MANIFEST.schema.json')); es=json.load(open('/root/.vp/EVIDENCE.schema.json'))
m=json.load(open('/verif/MANIFEST.json')); jsonschema.validate(m,ms); print("manifest ok:",len(m['checks']),"checks")
for f in sorted(glob.glob('/verif/evidence/*.json')):
    ev=json.load(open(f)); jsonschema.validate(ev,es); c=ev['coverage']; print(f.split('/')[-1],c['obligations'],c['discharged'],ev['wall_s'],ev['violations'])
