import json,sys
pid,extra=sys.argv[1],(sys.argv[2] if len(sys.argv)>2 else "")
props={json.loads(l)['id']:json.loads(l) for l in open('/verif/properties.jsonl')}
p=props[pid]
files=", ".join(p['anchors']['files'])
print(f"""You are auditing the Go project semihalev/sdns (a recursive DNS resolver) for violations of one stated property IN THE CODE AS IT IS (you are NOT asked to introduce bugs). You have your own scratch git worktree of the repository at /tmp/seed2_{pid} — work ONLY there (never touch /repo or /verif, and do not read anything under /verif). Never use `git stash` (the stash is shared between worktrees); to undo edits use `git checkout -- . && git clean -fd -e out`.

Environment: every shell command must start with
  export PATH=/opt/veriftools/go1.26.8/bin:$PATH GOFLAGS=-mod=mod GOPROXY=off GOSUMDB=off GOTOOLCHAIN=local
(the default go is too old; there is no network). Run tests with e.g. `cd /tmp/seed2_{pid} && go test -vet=off -count=1 -run TestAudit ./path/to/pkg/`.

The property ({pid}): "{p['statement']}"
It is meant to hold {p['quantifier']['text']}.
Relevant code (starting points): {files}.

Task: read the code carefully, clause by clause of the property, and look for inputs, call sequences, configurations or interleavings for which the UNMODIFIED code violates the property as stated. Take the property's wording literally; corner cases count (boundary values, empty/zero fields, unusual flag combinations, escaped or mixed-case names, collisions constructed directly where the code allows, restarts, error paths, the less-travelled route among several that should behave alike). {extra}

Report up to 3 DISTINCT genuine violations, best first. For each violation i create /tmp/seed2_{pid}/out/audit<i>/ containing:
  - audit_test.go : a Go test (function name starting with TestAudit) in the package of the code concerned that exercises the REAL code and FAILS on the unmodified tree because of the violation (it would pass once the code honoured the property). Use the package's existing test helpers where that is easier. Keep it deterministic and quick (a few seconds at most).
  - meta.json : {{"property":"{pid}","title":...,"clause_violated":"<the words of the property that are violated>","where":"<file:function(s)>","input_or_sequence":...,"observed":...,"expected":...,"test_location":"<repo-relative path where audit_test.go must be copied, e.g. middleware/cache/zz_audit1_test.go — the path only>","suggested_fix":"<a minimal patch a maintainer would accept, in words>"}}
Verify each yourself: copy audit_test.go to its test_location, run it, confirm it FAILS for the stated reason, then remove it again. Do not report something you could not demonstrate with a failing test, and do not report behaviour the property does not actually forbid. If after a thorough look you find fewer than 3 (or none), say so — that is a useful answer. Do not commit anything. At the end reply with a short summary: one paragraph per finding (where, what input, what happens, why it violates the wording), plus which clauses you examined and found to hold.""")
