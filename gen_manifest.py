#!/usr/bin/env python3
# Regenerates MANIFEST.json from props/*.json (claimed checks) and not_applicable.json.
import json,glob,os,subprocess
V='/verif'
props={}
for f in sorted(glob.glob(V+'/props/C*.json')):
    p=json.load(open(f)); props[p['id']]=p
na=json.load(open(V+'/not_applicable.json'))
hooks=[l.split()[0] for l in open(V+'/MANIFEST.hooks') if l.strip() and not l.startswith('#')] if os.path.exists(V+'/MANIFEST.hooks') else []
checks=[]
for pid,p in sorted(props.items()):
    checks.append({
      "property_id":pid,
      "quick_cmd":"./check %s --tier quick"%pid,
      "thorough_cmd":"./check %s --tier thorough"%pid,
      "evidence_file":"/verif/evidence/%s.json"%pid,
      "replay_cmd_template":"./check --replay {path}",
      "engine":"govc",
      "technique":"contract-based deductive verification: weakest-precondition VCs generated from go/ssa of the real functions against //@ contracts, discharged by z3/cvc5",
      "level_claimed":{"category":"proof","text":p.get("level_text") or ("Per-function contracts proved for all inputs: "+"; ".join(p["decides"])),"design_ref":p.get("design_ref","DESIGN.md §3 "+pid)},
      "level_note":"Decided only for the functions under contract (listed in evidence). Undecided by this technique: "+"; ".join(p["undecided_clauses"])+". Trusted: the govc generator, go/ssa, the solvers, assumed contracts on dependencies (named in evidence), sequential execution / lock discipline."
    })
m={"version":1,
 "setup_cmd":"./setup.sh",
 "hooks":{"guard":"verif (Go build tag)","enable":"go/packages loads /repo with -tags=verif; the tag adds only comment-only zz_verif_contracts.go files holding //@ contracts","baseline_off_cmd":json.load(open('/root/.vp/BASELINE.json'))["cmd"],"source_commits":hooks,"add_only":True},
 "engines":[{"name":"govc","path":"/verif/engine","serves_properties":sorted(props),"kind_free_text":"home-built deductive verifier for Go: go/ssa -> verification conditions (SMT-LIB) against Gobra-style //@ contracts; z3 5.1.0 / cvc5 1.0 / z3 4.8.12 back ends"}],
 "checks":checks,
 "not_applicable":[x for x in na if x["property_id"] not in props],
 "notes":"See DESIGN.md. Every check rebuilds its verification conditions from /repo's working tree on each run. Known findings: /verif/known_findings.json (status 'finding' = recorded and not repaired, the check prints KNOWN-FINDING and exits 0; status 'fixed' = repaired by the named fix: commit, suppresses nothing). Reasons: DESIGN.md 8.5 and 8.11."}
json.dump(m,open(V+'/MANIFEST.json','w'),indent=1)
print("claimed:",sorted(props)," n/a:",[x["property_id"] for x in m["not_applicable"]])
