#!/usr/bin/env python3
import subprocess, re
s=open('/verif/DESIGN.md').read()
i=s.index("### 8.7 Seeded changes: which check catches which")
j=s.index("### 8.8 Open items")
tbl=subprocess.run(['python3','/verif/gen_design_tables.py','87'],capture_output=True,text=True,cwd='/verif')
summary=tbl.stderr.strip()
intro=f"""### 8.7 Seeded changes: which check catches which

201 changes were produced in six waves by sub-agents that saw only the property
text and a scratch worktree of `/repo` with every contract file removed (never
`/verif`), each confirmed by `verify_seed.sh` (builds; the touched packages'
existing tests pass; the agent's demonstration fails with the change and passes
without), and kept under `/verif/seeded/<id>/` (`patch.diff`, `demo_test.go`,
`meta.json`). Waves 2–4 were told what earlier waves had tried and asked for
different functions and mechanisms; waves 5 and 6 were run on the repaired tree and pointed at the code the
repairs of §8.5 had just added or changed. `run_seeds_list.sh` applies each to `/repo`,
runs the property's quick check, undoes it at once, and regenerates the evidence
on the unchanged tree. Result of the last full run: **{summary}**.

Two of the 201 are **retired**: C06-6 and C19-1 (both make `stripECS` remove only the first client-subnet
option). They were confirmed against the tree they were written on, where an upstream's OPT with its own ECS was
merged with the request's; item 70 (`cb4346b`) then made the writer reduce a response-supplied OPT to its Extended
DNS Error options before the merge, and `SetEdns0` leaves at most one client-subnet option on the request OPT, so
`stripECS` no longer receives two. Re-cut on the current tree the patches still apply, compile and pass the suite,
but their demonstrations pass as well: the property holds with them. They stay on disk marked `retired` in
`meta.json` and are not counted as detections. The check still reports them, as `stripECS#generate`: the loop contract (every
option kept so far is not a client-subnet option) no longer binds to the rewritten body, so the postcondition "no
`EDNS0_SUBNET` in the result" is not established. That is the one place known where a contract demands more of a
helper than its only call site needs on this tree; it is kept because the postcondition is what the property asks
of the function that is named for it, and a second caller, or a change to `onlyEDE`, would make it load-bearing
again. Stating the precise
precondition (at most one such option in the list) and proving it at the call site needs a counting argument over
three appends that was not attempted.

How the waves went, because it is the honest measure of the first contracts:
wave 1 (75 changes) — 71 caught by the contracts as first written, the 4 misses
fixed later; wave 2 (24, same eight properties, "pick different functions") —
**4 caught, 20 missed**; wave 3 (33, the other eleven properties) — 16 caught, 17 missed;
wave 4 (24) — 7 caught, 17 missed; wave 5 (24, against the repaired tree) — 16 caught, 8 missed; wave 6 (21, after the second audit pass) — 18 caught, 3 missed.
After the repairs of §8.5 eight earlier seeds no longer applied; they were rebased by hand onto the
repaired code, re-confirmed with `verify_seed.sh`, and every demonstration of the corpus was re-run on
the repaired tree (all 156 pass without their change). Every miss was a function (or a clause of the property)
the contracts did not yet reach, or a contract that restated the code's argument
list instead of what the property demands of it. Each was answered by a new or
stronger contract written from the property text, never by special-casing the
seed; five engine features (`possible at`, `exhausted`, `athead`, `deferred`, `readsglobals`, §8.1) were
added because whole classes of change — a narrowed guard, an early loop exit, a
flag that must stay false, a release registered too late, a behaviour keyed off a package-level table — cannot be stated with `assert at` alone. Reading
code for the seeds is also what led to seven of the first ten genuine defects (§8.5
items 11–18): three sub-agents' side remarks about the *unmodified* code were
checked, turned into contracts, and confirmed. The caught changes are the
thorough tier's must-fail corpus (`selftest/`).

What catches a change, by kind: a failing postcondition / loop-invariant /
frame obligation of a full-tier function (e.g. `ones`, `equalNameASCIIFold`,
`tokens`, `canonicalizeRdataNames`, `ReplaceIfCurrent$1`); a failing anchored
assertion in the abstracting tier; a **refuted possibility claim**
(`cover:possible:…`, result `unsat`); a `bind`/`generate` error, when the change
removes the call, store or function a contract is anchored on — which reports
"the proof no longer covers this code" and is the weakest of the four, because a
harmless refactoring raises it too (it has to be answered by re-anchoring the
contract).

"""
s=s[:i]+intro+tbl.stdout+"\n"+s[j:]
open('/verif/DESIGN.md','w').write(s)
print(summary)
