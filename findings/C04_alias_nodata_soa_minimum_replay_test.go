package cache

import (
	"context"
	"testing"
	"time"

	"github.com/miekg/dns"
	"github.com/semihalev/sdns/config"
	"github.com/semihalev/sdns/internal/mock"
	"github.com/semihalev/sdns/middleware"
)

// auditAliasNoDataQueryer is the production sub-query shape: a nested chain on
// an internal writer.
type auditAliasNoDataQueryer struct {
	handlers []middleware.Handler
}

func (q *auditAliasNoDataQueryer) Query(ctx context.Context, req *dns.Msg) (*dns.Msg, error) {
	w := mock.NewWriter("udp", "127.0.0.255:0")
	ch := middleware.NewChain(q.handlers)
	ch.Reset(w, req)
	ch.Next(ctx)
	if !w.Written() {
		return nil, middleware.ErrNoResponse
	}
	return w.Msg(), nil
}

// TestAuditAliasNoDataIgnoresSOANegativeTTL: a NODATA answer reached through
// an alias (Answer: CNAME, Authority: SOA — the ordinary authoritative reply
// for "www is a CNAME to an in-zone host that has no AAAA") is a negative
// answer, and its lifetime is bounded by the SOA negative TTL
// min(SOA TTL, SOA.MINIMUM). The plain NODATA for the target honours that
// bound; the alias entry carrying the very same SOA does not, because the
// response classifies as "success" (it has an Answer section) and the
// SOA.MINIMUM clamp only runs for the negative classes.
func TestAuditAliasNoDataIgnoresSOANegativeTTL(t *testing.T) {
	c := New(&config.Config{CacheSize: 1024, Expire: 600})
	defer c.Stop()

	const (
		alias       = "www.audit-soa.example."
		target      = "host.audit-soa.example."
		negativeTTL = 30 // SOA.MINIMUM, seconds
	)

	soa := func() dns.RR {
		return &dns.SOA{
			Hdr: dns.RR_Header{
				Name: "audit-soa.example.", Rrtype: dns.TypeSOA,
				Class: dns.ClassINET, Ttl: 3600,
			},
			Ns: "ns.audit-soa.example.", Mbox: "hostmaster.audit-soa.example.",
			Serial: 1, Refresh: 7200, Retry: 3600, Expire: 604800,
			Minttl: negativeTTL,
		}
	}

	upstreamCalls := 0
	upstream := middleware.HandlerFunc(func(_ context.Context, ch *middleware.Chain) {
		upstreamCalls++
		req := ch.Request.Msg()
		resp := new(dns.Msg)
		resp.SetReply(req)
		resp.RecursionAvailable = true
		if req.Question[0].Name == alias {
			resp.Answer = []dns.RR{&dns.CNAME{
				Hdr: dns.RR_Header{
					Name: alias, Rrtype: dns.TypeCNAME,
					Class: dns.ClassINET, Ttl: 3600,
				},
				Target: target,
			}}
		}
		// NODATA for the target, and the same denial behind the alias.
		resp.Ns = []dns.RR{soa()}
		_ = ch.Writer.WriteMsg(resp)
		ch.Cancel()
	})
	c.SetQueryer(&auditAliasNoDataQueryer{handlers: []middleware.Handler{c, upstream}})

	ask := func(name string) *dns.Msg {
		req := new(dns.Msg)
		req.SetQuestion(name, dns.TypeAAAA)
		req.RecursionDesired = true
		w := mock.NewWriter("udp", "127.0.0.1:0")
		ch := middleware.NewChain([]middleware.Handler{c, upstream})
		ch.Reset(w, req)
		ch.Next(context.Background())
		if !w.Written() {
			t.Fatalf("no response for %s", name)
		}
		return w.Msg()
	}

	first := ask(alias)
	if first.Rcode != dns.RcodeSuccess || len(first.Answer) != 1 || len(first.Ns) != 1 {
		t.Fatalf("unexpected first reply:\n%v", first)
	}

	lookup := func(name string) *CacheEntry {
		key := CacheKey{Question: dns.Question{
			Name: name, Qtype: dns.TypeAAAA, Qclass: dns.ClassINET,
		}}.Hash()
		e, ok := c.store.LookupByKey(key)
		if !ok {
			t.Fatalf("%s was not cached", name)
		}
		return e
	}

	// Control: the plain NODATA for the target honours SOA.MINIMUM.
	targetEntry := lookup(target)
	if targetEntry.ttl != negativeTTL*time.Second {
		t.Fatalf("control failed: plain NODATA cached for %v, want %ds",
			targetEntry.ttl, negativeTTL)
	}

	aliasEntry := lookup(alias)
	stored := aliasEntry.storedMsg()
	if stored == nil || len(stored.Ns) != 1 {
		t.Fatalf("alias entry does not carry the denial SOA: %v", stored)
	}
	if aliasEntry.ttl > negativeTTL*time.Second {
		t.Errorf("alias->NODATA entry lives %v; its SOA negative TTL is %ds "+
			"(the plain NODATA for the same name and SOA got %v)",
			aliasEntry.ttl, negativeTTL, targetEntry.ttl)
	}

	// Serve check: one second past the SOA negative TTL the negative answer
	// must be gone. Age both entries; the chase's target leg re-resolves, the
	// alias entry — with its stale SOA — must not be served from cache.
	age := (negativeTTL + 1) * time.Second
	aliasEntry.stored = aliasEntry.stored.Add(-age)
	targetEntry.stored = targetEntry.stored.Add(-age)
	upstreamCalls = 0
	second := ask(alias)
	aliasAsked := upstreamCalls >= 2 // alias + target; 1 means only the target leg re-resolved
	if !aliasAsked {
		var soaTTL uint32
		for _, rr := range second.Ns {
			if rr.Header().Rrtype == dns.TypeSOA {
				soaTTL = rr.Header().Ttl
			}
		}
		t.Errorf("%ds after admission the alias->NODATA answer (SOA negative TTL %ds) "+
			"was still served from cache; SOA shown to the client with TTL %d",
			negativeTTL+1, negativeTTL, soaTTL)
	}
}
