package resolver

import (
	"crypto"
	"net"
	"os/signal"
	"path/filepath"
	"sync"
	"syscall"
	"testing"
	"time"

	"github.com/miekg/dns"
	"github.com/semihalev/sdns/config"
	"github.com/semihalev/sdns/middleware/resolver/dnssec"
)

// ---- harness: a fake root server whose DNSKEY answer can be swapped ----

type audit2Root struct {
	mu     sync.Mutex
	answer []dns.RR
}

func (s *audit2Root) set(rrs ...dns.RR) {
	s.mu.Lock()
	s.answer = rrs
	s.mu.Unlock()
}

func (s *audit2Root) ServeDNS(w dns.ResponseWriter, r *dns.Msg) {
	resp := new(dns.Msg)
	resp.SetReply(r)
	resp.Authoritative = true
	if r.Question[0].Qtype == dns.TypeDNSKEY && r.Question[0].Name == "." {
		s.mu.Lock()
		resp.Answer = append(resp.Answer, s.answer...)
		s.mu.Unlock()
	}
	_ = w.WriteMsg(resp)
}

func audit2StartRoot(t *testing.T) (*audit2Root, string) {
	t.Helper()
	pc, err := net.ListenPacket("udp", "127.0.0.1:0")
	if err != nil {
		t.Fatalf("listen: %v", err)
	}
	h := &audit2Root{}
	srv := &dns.Server{PacketConn: pc, Handler: h}
	go func() { _ = srv.ActivateAndServe() }()
	t.Cleanup(func() { _ = srv.Shutdown() })
	return h, pc.LocalAddr().String()
}

type audit2Key struct {
	key    *dns.DNSKEY
	signer crypto.Signer
}

func audit2NewKSK(t *testing.T) audit2Key {
	t.Helper()
	k := &dns.DNSKEY{
		Hdr:       dns.RR_Header{Name: ".", Rrtype: dns.TypeDNSKEY, Class: dns.ClassINET, Ttl: 3600},
		Flags:     257,
		Protocol:  3,
		Algorithm: dns.ED25519,
	}
	priv, err := k.Generate(256)
	if err != nil {
		t.Fatalf("generate: %v", err)
	}
	return audit2Key{key: k, signer: priv.(crypto.Signer)}
}

func audit2Revoked(k *dns.DNSKEY) *dns.DNSKEY {
	c := *k
	c.Flags |= DNSKEYFlagRevoke
	return &c
}

// audit2Sign signs the DNSKEY RRset with signer, announcing keyTag as the
// signing key's tag.
func audit2Sign(t *testing.T, signer crypto.Signer, keyTag uint16, rrset []dns.RR) *dns.RRSIG {
	t.Helper()
	now := time.Now()
	sig := &dns.RRSIG{
		Hdr:         dns.RR_Header{Name: ".", Rrtype: dns.TypeRRSIG, Class: dns.ClassINET, Ttl: 3600},
		TypeCovered: dns.TypeDNSKEY,
		Algorithm:   dns.ED25519,
		Labels:      0,
		OrigTtl:     3600,
		Expiration:  uint32(now.Add(24 * time.Hour).Unix()),
		Inception:   uint32(now.Add(-time.Hour).Unix()),
		KeyTag:      keyTag,
		SignerName:  ".",
	}
	if err := sig.Sign(signer, rrset); err != nil {
		t.Fatalf("sign: %v", err)
	}
	return sig
}

func audit2Resolver(t *testing.T, dir, rootAddr string, anchors ...*dns.DNSKEY) *Resolver {
	t.Helper()
	cfg := new(config.Config)
	cfg.RootServers = []string{rootAddr}
	for _, k := range anchors {
		cfg.RootKeys = append(cfg.RootKeys, k.String())
	}
	cfg.Maxdepth = 30
	cfg.Expire = 600
	cfg.CacheSize = 1024
	cfg.Timeout.Duration = 2 * time.Second
	cfg.Directory = dir
	// DNSSEC stays off so the background run() goroutine never calls AutoTA
	// on its own; the test drives AutoTA directly.
	return NewResolver(cfg)
}

func audit2Trusted(r *Resolver, k *dns.DNSKEY) bool {
	r.RLock()
	defer r.RUnlock()
	for _, rr := range r.rootKeys {
		if have, ok := rr.(*dns.DNSKEY); ok && have.PublicKey == k.PublicKey && have.Algorithm == k.Algorithm {
			return true
		}
	}
	return false
}

// audit2DiskFull makes every write to a regular file fail with EFBIG for the
// duration of fn - the way a full disk behaves: files can still be opened,
// read and created, nothing can be written. Both atomicGobWrite calls of an
// AutoTA run fail, the reads of the existing state succeed.
func audit2DiskFull(t *testing.T, fn func()) {
	t.Helper()
	signal.Ignore(syscall.SIGXFSZ)
	defer signal.Reset(syscall.SIGXFSZ)
	var old syscall.Rlimit
	if err := syscall.Getrlimit(syscall.RLIMIT_FSIZE, &old); err != nil {
		t.Fatalf("getrlimit: %v", err)
	}
	if err := syscall.Setrlimit(syscall.RLIMIT_FSIZE, &syscall.Rlimit{Cur: 0, Max: old.Max}); err != nil {
		t.Fatalf("setrlimit: %v", err)
	}
	defer func() {
		if err := syscall.Setrlimit(syscall.RLIMIT_FSIZE, &old); err != nil {
			t.Fatalf("restore rlimit: %v", err)
		}
	}()
	fn()
}

// TestAuditRevocationForgottenAfterFailedPersistence: A's self-signed
// revocation is accepted in a refresh during which neither the tombstone store
// nor the state file can be written. AutoTA fails closed for that run, but
// keeps no record of the revocation anywhere: the next refresh (disk writable
// again) re-reads the stale state file that still lists A as VALID, and if the
// RRset it fetches does not carry the revocation again (an older, still validly
// signed RRset, or A re-added), A is published as a trust anchor again by the
// very process that accepted its revocation.
func TestAuditRevocationForgottenAfterFailedPersistence(t *testing.T) {
	root, addr := audit2StartRoot(t)
	dir := t.TempDir()

	a := audit2NewKSK(t)
	b := audit2NewKSK(t)
	for dnssec.KeyTag(a.key) == dnssec.KeyTag(b.key) || dnssec.KeyTag(b.key) == dnssec.KeyTag(audit2Revoked(a.key)) {
		b = audit2NewKSK(t)
	}
	r := audit2Resolver(t, dir, addr, a.key, b.key)

	// Refresh 1: ordinary RRset {A, B} signed by both. State file is written.
	plain := []dns.RR{a.key, b.key}
	plainSigA := audit2Sign(t, a.signer, dnssec.KeyTag(a.key), plain)
	plainSigB := audit2Sign(t, b.signer, dnssec.KeyTag(b.key), plain)
	root.set(a.key, b.key, plainSigA, plainSigB)
	r.AutoTA()
	if !audit2Trusted(r, a.key) || !audit2Trusted(r, b.key) {
		t.Fatalf("precondition: A and B should be trusted after the first refresh")
	}
	if _, err := readFromTAFile(filepath.Join(dir, stateFile)); err != nil {
		t.Fatalf("precondition: state file not written: %v", err)
	}

	// Refresh 2: A is revoked (self-signed, co-signed by B); the disk is full,
	// so neither record of the revocation can be written.
	aRev := audit2Revoked(a.key)
	revoked := []dns.RR{aRev, b.key}
	root.set(aRev, b.key,
		audit2Sign(t, a.signer, dnssec.KeyTag(aRev), revoked),
		audit2Sign(t, b.signer, dnssec.KeyTag(b.key), revoked))
	audit2DiskFull(t, func() { r.AutoTA() })
	if r.hasTrustAnchors() {
		t.Fatalf("precondition: AutoTA should have failed closed when neither revocation record could be written")
	}

	// Refresh 3: disk is writable again. The fetched RRset is the earlier one,
	// still validly signed, in which A is not (yet) revoked.
	root.set(a.key, b.key, plainSigA, plainSigB)
	r.AutoTA()

	if audit2Trusted(r, a.key) {
		t.Errorf("key %d, whose self-signed revocation this process accepted one refresh earlier, is published as a trust anchor again",
			dnssec.KeyTag(a.key))
	}
}
