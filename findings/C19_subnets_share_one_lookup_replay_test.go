package resolver

import (
	"context"
	"net"
	"sync"
	"testing"
	"time"

	"github.com/miekg/dns"
	"github.com/semihalev/sdns/internal/mock"
	"github.com/semihalev/sdns/middleware"
	"github.com/semihalev/sdns/middleware/edns"
)

// TestAuditC19ConcurrentSubnetsDoNotShareOneLookup asks the same name from two
// clients in different /24s while the first upstream lookup is still in
// flight. No cache is in the chain (edns -> resolver only), so every client
// question has to reach the authority with that client's own subnet.
//
// Property C19: "An answer for which the authority declared a non-zero scope
// is served only to clients inside that scope ... all sequences of clients
// from different subnets querying the same names."
func TestAuditC19ConcurrentSubnetsDoNotShareOneLookup(t *testing.T) {
	pc, err := net.ListenPacket("udp", "127.0.0.1:0")
	if err != nil {
		t.Fatalf("listen udp: %v", err)
	}

	var (
		mu        sync.Mutex
		subnets   []string
		firstSeen = make(chan struct{})
		release   = make(chan struct{})
		firstOnce sync.Once
		relOnce   sync.Once
	)
	mux := dns.NewServeMux()
	mux.HandleFunc(".", func(w dns.ResponseWriter, r *dns.Msg) {
		reply := new(dns.Msg)
		reply.SetReply(r)
		reply.Authoritative = true
		q := r.Question[0]
		if dns.CanonicalName(q.Name) != "geo.test." || q.Qtype != dns.TypeA {
			reply.Ns = []dns.RR{mustRR(t, ". 30 IN SOA a.root. hostmaster.root. 1 30 30 30 30")}
			_ = w.WriteMsg(reply)
			return
		}

		answer := "geo.test. 300 IN A 192.0.2.99"
		seen := "none"
		if opt := r.IsEdns0(); opt != nil {
			for _, o := range opt.Option {
				sub, ok := o.(*dns.EDNS0_SUBNET)
				if !ok {
					continue
				}
				seen = sub.Address.String()
				switch seen {
				case "198.51.100.0":
					answer = "geo.test. 300 IN A 192.0.2.1"
				case "203.0.113.0":
					answer = "geo.test. 300 IN A 192.0.2.2"
				}
				ropt := new(dns.OPT)
				ropt.Hdr.Name = "."
				ropt.Hdr.Rrtype = dns.TypeOPT
				ropt.SetUDPSize(1232)
				ropt.Option = append(ropt.Option, &dns.EDNS0_SUBNET{
					Code:          dns.EDNS0SUBNET,
					Family:        sub.Family,
					SourceNetmask: sub.SourceNetmask,
					SourceScope:   24,
					Address:       sub.Address,
				})
				reply.Extra = append(reply.Extra, ropt)
			}
		}
		mu.Lock()
		subnets = append(subnets, seen)
		n := len(subnets)
		mu.Unlock()

		if n == 1 {
			// Hold the first answer until the second client's own query
			// arrives (the correct behaviour), or half a second passes.
			firstOnce.Do(func() { close(firstSeen) })
			select {
			case <-release:
			case <-time.After(500 * time.Millisecond):
			}
		} else {
			relOnce.Do(func() { close(release) })
		}

		reply.Answer = []dns.RR{mustRR(t, answer)}
		_ = w.WriteMsg(reply)
	})
	server := &dns.Server{Net: "udp", PacketConn: pc, Handler: mux}
	go func() { _ = server.ActivateAndServe() }()
	time.Sleep(10 * time.Millisecond)
	defer func() { _ = server.Shutdown() }()

	base := makeTestConfig()
	cfg := *base
	cfg.RootServers = []string{pc.LocalAddr().String()}
	cfg.Root6Servers = nil
	cfg.IPv6Access = false
	cfg.DNSSEC = "off"
	cfg.ECS.Enabled = true // forward_v4 defaults to /24, every client eligible

	h := New(&cfg)
	e := edns.New(&cfg)

	ask := func(client, subnet string) string {
		req := new(dns.Msg)
		req.SetQuestion("geo.test.", dns.TypeA)
		req.SetEdns0(1232, false)
		req.IsEdns0().Option = append(req.IsEdns0().Option, &dns.EDNS0_SUBNET{
			Code:          dns.EDNS0SUBNET,
			Family:        1,
			SourceNetmask: 24,
			Address:       net.ParseIP(subnet).To4(),
		})
		w := mock.NewWriter("udp", client+":5353")
		ch := middleware.NewChain([]middleware.Handler{e, h})
		ch.Reset(w, req)
		ch.Next(context.Background())
		if !w.Written() {
			return "no response"
		}
		resp := w.Msg()
		if resp.Rcode != dns.RcodeSuccess || len(resp.Answer) != 1 {
			return "rcode " + dns.RcodeToString[resp.Rcode]
		}
		return resp.Answer[0].(*dns.A).A.String()
	}

	var wg sync.WaitGroup
	var gotA, gotB string
	wg.Add(1)
	go func() {
		defer wg.Done()
		gotA = ask("198.51.100.7", "198.51.100.0")
	}()

	select {
	case <-firstSeen:
	case <-time.After(2 * time.Second):
		t.Fatal("the first client's query never reached the authority")
	}
	// Client A's lookup is now in flight. Client B, from another /24, asks.
	gotB = ask("203.0.113.9", "203.0.113.0")
	wg.Wait()

	mu.Lock()
	seen := append([]string(nil), subnets...)
	mu.Unlock()
	t.Logf("client A got %s, client B got %s, authority saw ECS sources %v", gotA, gotB, seen)

	if gotA != "192.0.2.1" {
		t.Fatalf("client A (198.51.100.0/24): got %s, want 192.0.2.1", gotA)
	}
	if gotB == "192.0.2.1" {
		t.Fatalf("client B in 203.0.113.0/24 was served %s, the answer the authority scoped (SCOPE=24) to "+
			"198.51.100.0/24: its question was folded into client A's in-flight upstream lookup, which carried "+
			"A's subnet (authority saw only %v)", gotB, seen)
	}
	if gotB != "192.0.2.2" {
		t.Fatalf("client B (203.0.113.0/24): got %s, want 192.0.2.2", gotB)
	}
}
