package server

import (
	"context"
	"strings"
	"testing"
	"time"

	"github.com/miekg/dns"
	"github.com/semihalev/sdns/config"
	"github.com/semihalev/sdns/middleware"
	"github.com/semihalev/sdns/middleware/cache"
	"github.com/semihalev/sdns/middleware/edns"
)

// audit1Upstream stands in for the resolver and the authorities behind it.
// Every answer it gives is one a real authoritative server can deliver in a
// single (64 KiB) TCP message:
//
//	alias.audit1.example. TXT  ->  CNAME big.audit1.example.
//	big.audit1.example.   TXT  ->  a TXT RRset of about 65.4 KB
type audit1Upstream struct{}

func (audit1Upstream) Name() string { return "audit1-upstream" }

func audit1BigTXT(owner string) []dns.RR {
	rrs := make([]dns.RR, 0, 17)
	for i := 0; i < 17; i++ {
		txt := &dns.TXT{Hdr: dns.RR_Header{Name: owner, Rrtype: dns.TypeTXT, Class: dns.ClassINET, Ttl: 300}}
		// first string differs per record so the RRset has 17 distinct members
		txt.Txt = append(txt.Txt, strings.Repeat(string(rune('a'+i)), 255))
		for k := 1; k < 15; k++ {
			txt.Txt = append(txt.Txt, strings.Repeat("x", 255))
		}
		rrs = append(rrs, txt)
	}
	return rrs
}

func (audit1Upstream) ServeDNS(ctx context.Context, ch *middleware.Chain) {
	_, req := ch.Materialize(ctx)
	if req == nil {
		return
	}
	resp := new(dns.Msg)
	resp.SetReply(req)
	resp.RecursionAvailable = true
	q := req.Question[0]
	switch strings.ToLower(q.Name) {
	case "alias.audit1.example.":
		resp.Answer = []dns.RR{&dns.CNAME{
			Hdr:    dns.RR_Header{Name: q.Name, Rrtype: dns.TypeCNAME, Class: dns.ClassINET, Ttl: 300},
			Target: "big.audit1.example.",
		}}
	case "big.audit1.example.":
		if q.Qtype == dns.TypeTXT {
			resp.Answer = audit1BigTXT(q.Name)
		}
	}
	_ = ch.Writer.WriteMsg(resp)
	ch.Cancel()
}

// TestAuditOversizeReplyOverTCPIsSilentlyDropped: the cache's CNAME chase
// composes "CNAME + target RRset". Each half fits a DNS message, the sum does
// not (> 65535 octets). The edns layer only checks the size of UDP replies,
// and tcpJob.WriteMsg answers ErrFrameTooLarge after marking the job written
// - nobody looks at that error, so the admitted TCP query receives no reply
// at all (not a TC=1 reply, not a SERVFAIL), and the client sits in its
// timeout. C11 owes every admitted query exactly one reply.
func TestAuditOversizeReplyOverTCPIsSilentlyDropped(t *testing.T) {
	middleware.Reset()
	t.Cleanup(middleware.Reset)
	middleware.Register("edns", func(cfg *config.Config) middleware.Handler { return edns.New(cfg) })
	middleware.Register("cache", func(cfg *config.Config) middleware.Handler { return cache.New(cfg) })
	middleware.Register("audit1-upstream", func(*config.Config) middleware.Handler { return audit1Upstream{} })
	cfg := &config.Config{Bind: "127.0.0.1:0", CacheSize: 1024, Expire: 60}
	middleware.Setup(cfg)
	s := New(cfg)

	ctx, cancel := context.WithCancel(context.Background())
	defer cancel()
	tcp, ok := s.listeners[1].(*tcpListener)
	if !ok {
		t.Fatalf("listener 1 is %T, want the TCP listener", s.listeners[1])
	}
	if err := tcp.Bind(ctx); err != nil {
		t.Fatal(err)
	}
	go func() { _ = tcp.Serve(ctx) }()
	t.Cleanup(func() {
		sctx, scancel := context.WithTimeout(context.Background(), time.Second)
		defer scancel()
		_ = tcp.Shutdown(sctx)
	})
	tcp.mu.Lock()
	addr := tcp.ln.Addr().String()
	tcp.mu.Unlock()

	ask := func(name string) (*dns.Msg, error) {
		req := new(dns.Msg)
		req.SetQuestion(name, dns.TypeTXT)
		req.SetEdns0(1232, false)
		client := &dns.Client{Net: "tcp", Timeout: 2 * time.Second}
		var resp *dns.Msg
		var err error
		for range 20 {
			resp, _, err = client.Exchange(req, addr)
			if err == nil || !strings.Contains(err.Error(), "refused") {
				break
			}
			time.Sleep(25 * time.Millisecond) // listener still coming up
		}
		return resp, err
	}

	// Control: the large RRset on its own fits a TCP frame and is answered.
	resp, err := ask("big.audit1.example.")
	if err != nil {
		t.Fatalf("control query for the large RRset got no reply: %v", err)
	}
	if len(resp.Answer) != 17 {
		t.Fatalf("control: %d answers, want 17", len(resp.Answer))
	}

	// The alias: any single reply honours C11 (TC=1, SERVFAIL, ...). Silence
	// does not.
	resp, err = ask("alias.audit1.example.")
	if err != nil {
		t.Fatalf("admitted TCP query for alias.audit1.example. TXT received no reply at all: %v", err)
	}
	t.Logf("reply: rcode=%s tc=%v answers=%d", dns.RcodeToString[resp.Rcode], resp.Truncated, len(resp.Answer))
}
