package dnssec

// Replays for the C02 finding in VerifyNameErrorNSEC: with GENUINE NSEC records of a zone, NXDOMAIN was accepted for
// (1) an empty non-terminal (the covering NSEC's next name lies BELOW the query name, so the query name exists) and
// (2) a name below a delegation (the covering NSEC is the parent's NSEC at the delegation point: NS, no SOA).
// Run: go test -overlay <overlay mapping middleware/resolver/dnssec/zz_c02_replay_test.go to this file> -vet=off -run TestC02 ./middleware/resolver/dnssec/

import (
	"testing"

	"github.com/miekg/dns"
)

func c02rr(t *testing.T, s string) dns.RR {
	t.Helper()
	rr, err := dns.NewRR(s)
	if err != nil {
		t.Fatal(err)
	}
	return rr
}

func TestC02EmptyNonTerminalIsNotDenied(t *testing.T) {
	// zone example.: apex, a.example., x.y.example.  => y.example. is an empty non-terminal: it EXISTS (NODATA, not NXDOMAIN)
	set := []dns.RR{
		c02rr(t, "example. 300 IN NSEC a.example. NS SOA RRSIG NSEC DNSKEY"),
		c02rr(t, "a.example. 300 IN NSEC x.y.example. A RRSIG NSEC"),
	}
	m := new(dns.Msg)
	m.SetQuestion("y.example.", dns.TypeA)
	m.Rcode = dns.RcodeNameError
	if err := VerifyNameErrorNSEC(m, set); err == nil {
		t.Errorf("NXDOMAIN accepted for the empty non-terminal y.example. from the zone's genuine NSEC records")
	}
}

func TestC02NameBelowDelegationIsNotDenied(t *testing.T) {
	// zone example.: apex, deleg.example. (delegation: NS only), z.example.  => names under deleg.example. belong to the child zone
	set := []dns.RR{
		c02rr(t, "example. 300 IN NSEC deleg.example. NS SOA RRSIG NSEC DNSKEY"),
		c02rr(t, "deleg.example. 300 IN NSEC z.example. NS RRSIG NSEC"),
	}
	m := new(dns.Msg)
	m.SetQuestion("q.deleg.example.", dns.TypeA)
	m.Rcode = dns.RcodeNameError
	if err := VerifyNameErrorNSEC(m, set); err == nil {
		t.Errorf("NXDOMAIN accepted for q.deleg.example. from the PARENT's NSEC at the delegation point deleg.example.")
	}
}

func TestC02NameBelowDNAMEIsNotDenied(t *testing.T) {
	// zone example.: apex, d.example. DNAME elsewhere., z.example.  => names under d.example. are redirected, not absent
	set := []dns.RR{
		c02rr(t, "example. 300 IN NSEC d.example. NS SOA RRSIG NSEC DNSKEY"),
		c02rr(t, "d.example. 300 IN NSEC z.example. DNAME RRSIG NSEC"),
	}
	m := new(dns.Msg)
	m.SetQuestion("q.d.example.", dns.TypeA)
	m.Rcode = dns.RcodeNameError
	if err := VerifyNameErrorNSEC(m, set); err == nil {
		t.Errorf("NXDOMAIN accepted for q.d.example. although d.example. owns a DNAME")
	}
}
