package accesslist

import (
	"context"
	"testing"

	"github.com/miekg/dns"
	"github.com/semihalev/sdns/config"
	"github.com/semihalev/sdns/internal/mock"
	"github.com/semihalev/sdns/middleware"
)

type auditReached struct{ n int }

func (*auditReached) Name() string { return "audit-reached" }
func (r *auditReached) ServeDNS(ctx context.Context, ch *middleware.Chain) {
	r.n++
	ch.Cancel()
}

// TestAuditMappedCIDRAdmitsNobody: the operator spells the client block in
// its IPv4-mapped form, ::ffff:10.0.0.0/104 (that is 10.0.0.0/8 as a
// dual-stack socket presents it; net.ParseCIDR-based matching has always
// admitted 10.x clients for it). netip.ParsePrefix accepts the entry, so
// it is not "unparsable" and nothing is logged, yet no source address at
// all lies in it as far as the set is concerned: the prefix is filed
// under IPv6 while every address inside ::ffff:0:0/96 is unmapped and
// searched under IPv4.
func TestAuditMappedCIDRAdmitsNobody(t *testing.T) {
	cfg := new(config.Config)
	cfg.AccessList = []string{"::ffff:10.0.0.0/104"}
	a := New(cfg)
	if a.allowed.Len() != 1 {
		t.Fatalf("the entry was expected to parse; set holds %d prefixes", a.allowed.Len())
	}

	serve := func(addr string) int {
		rec := &auditReached{}
		ch := middleware.NewChain([]middleware.Handler{a, rec})
		req := new(dns.Msg)
		req.SetQuestion("example.com.", dns.TypeA)
		ch.Reset(mock.NewWriter("udp", addr), req)
		ch.Next(context.Background())
		return rec.n
	}

	// control: outside the block in either spelling
	if n := serve("[::ffff:11.0.0.1]:5353"); n != 0 {
		t.Fatalf("::ffff:11.0.0.1 is outside ::ffff:10.0.0.0/104 but was admitted")
	}

	// The source exactly as a dual-stack listener reports a 10.1.2.3 client:
	// bit for bit inside the configured CIDR.
	if n := serve("[::ffff:10.1.2.3]:5353"); n != 1 {
		t.Errorf("source ::ffff:10.1.2.3 lies in the configured CIDR ::ffff:10.0.0.0/104 but the query was dropped")
	}
	// The same client seen through an IPv4 socket (a mapped source counts as
	// IPv4, so the two must agree).
	if n := serve("10.1.2.3:5353"); n != 1 {
		t.Errorf("source 10.1.2.3 (== ::ffff:10.1.2.3) is covered by ::ffff:10.0.0.0/104 but the query was dropped")
	}
	// Boundaries of the block.
	for _, addr := range []string{"[::ffff:10.0.0.0]:1", "[::ffff:10.255.255.255]:1"} {
		if n := serve(addr); n != 1 {
			t.Errorf("boundary source %s lies in ::ffff:10.0.0.0/104 but the query was dropped", addr)
		}
	}
}
