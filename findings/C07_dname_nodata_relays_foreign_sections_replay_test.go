package resolver

import (
	"context"
	"testing"
	"time"

	"github.com/miekg/dns"
	"github.com/semihalev/sdns/internal/authority"
	"github.com/semihalev/sdns/internal/cache"
	"github.com/semihalev/sdns/internal/dnsutil"
	"github.com/semihalev/sdns/middleware"
)

// C07: "No record owned outside the zone whose servers sent it is ... relayed
// to the client inside the answer."
//
// Route: answer() -> DNAME redirect whose target turns out to hold no data of
// the asked type. Every other exit of answer() passes through
// clearAdditional(), and authority() cuts both sections down to the zone; this
// exit returns the upstream reply's authority and additional sections as they
// came off the wire, with the target's SOA appended.
//
// The servers of zaudit1.test. answer "a.d.zaudit1.test. A" with their own
// DNAME (+ the synthesized CNAME), and pad the authority section with
// "victim-audit1.example. NS ns.attacker.example." and the additional section
// with "victim-audit1.example. A 6.6.6.6". The DNAME target lives in
// oaudit1.test., whose servers answer NODATA.
func TestAuditC07DnameNodataRelaysForeignAuthorityAndAdditional(t *testing.T) {
	_ = makeTestConfig() // sets the test pipeline (edns -> resolver) up once

	const (
		senderZone = "zaudit1.test."
		targetZone = "oaudit1.test."
	)

	var hits int64
	senderAddr, stopSender := startMockAuth(t, &hits, func(q dns.Question) *dns.Msg {
		m := &dns.Msg{}
		m.Authoritative = true
		m.Answer = []dns.RR{
			mustRR(t, "d.zaudit1.test. 300 IN DNAME t.oaudit1.test."),
			mustRR(t, "a.d.zaudit1.test. 300 IN CNAME a.t.oaudit1.test."),
		}
		// Neither of these is the sender's to give.
		m.Ns = []dns.RR{mustRR(t, "victim-audit1.example. 3600 IN NS ns.attacker.example.")}
		m.Extra = []dns.RR{mustRR(t, "victim-audit1.example. 3600 IN A 6.6.6.6")}
		return m
	})
	defer stopSender()

	targetAddr, stopTarget := startMockAuth(t, &hits, func(q dns.Question) *dns.Msg {
		// The target name exists and has no A record.
		m := &dns.Msg{}
		m.Authoritative = true
		m.Ns = []dns.RR{mustRR(t, "oaudit1.test. 30 IN SOA ns.oaudit1.test. h.oaudit1.test. 1 30 30 30 30")}
		return m
	})
	defer stopTarget()

	pipe := middleware.GlobalPipeline()
	if pipe == nil {
		t.Fatal("test pipeline not set up")
	}
	dh, ok := pipe.Get("resolver").(*DNSHandler)
	if !ok || dh.resolver == nil {
		t.Fatal("pipeline has no resolver handler")
	}

	// Both zones are known delegations (glue always means port 53, which a
	// test cannot bind, so the delegation cache is seeded instead).
	for zone, addr := range map[string]string{senderZone: senderAddr, targetZone: targetAddr} {
		servers := &authority.Servers{
			Zone:            zone,
			List:            []*authority.Server{authority.NewServer(addr, authority.IPv4)},
			CheckingDisable: true,
		}
		key := cache.Key(dns.Question{Name: zone, Qtype: dns.TypeNS, Qclass: dns.ClassINET}, true)
		dh.resolver.delegations.Set(key, nil, servers, time.Hour)
	}

	req := new(dns.Msg)
	req.SetQuestion("a.d.zaudit1.test.", dns.TypeA)
	req.SetEdns0(dnsutil.DefaultMsgSize, false)
	req.CheckingDisabled = true // unsigned fixture; the filtering at issue is not the validator's

	ctx := context.WithValue(context.Background(), contextKeyRequestID, req.Id)
	resp := dh.handle(ctx, req)
	if resp == nil {
		t.Fatal("no response")
	}
	if resp.Rcode != dns.RcodeSuccess || len(resp.Answer) == 0 {
		t.Fatalf("fixture did not take the DNAME route: rcode=%s answer=%d\n%v",
			dns.RcodeToString[resp.Rcode], len(resp.Answer), resp)
	}

	inZone := func(name, zone string) bool {
		return dnsutil.NameInZone(dns.CanonicalName(name), zone)
	}
	check := func(section string, rrs []dns.RR) {
		for _, rr := range rrs {
			if rr.Header().Rrtype == dns.TypeOPT {
				continue
			}
			owner := rr.Header().Name
			// What zaudit1.test.'s servers sent must lie in zaudit1.test.;
			// the only other sender on this path is oaudit1.test.
			if !inZone(owner, senderZone) && !inZone(owner, targetZone) {
				t.Errorf("%s section relays a record owned outside the zone whose servers sent it: %s", section, rr)
			}
		}
	}
	check("answer", resp.Answer)
	check("authority", resp.Ns)
	check("additional", resp.Extra)
	if t.Failed() {
		t.Logf("reply handed to the client (and to the cache):\n%v", resp)
	}
}
