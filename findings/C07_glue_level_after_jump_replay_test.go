package resolver

import (
	"net"
	"sync/atomic"
	"testing"
	"time"

	"github.com/miekg/dns"
)

// TestAuditC07GlueBailiwickLostOnCachedDelegationPath shows that the glue
// bailiwick check in checkGlueRR is anchored on rs.level, and that
// resolveWithCachedNameservers sets rs.level to "parent level + 1" instead of
// the label count of the zone it descends into. When a referral jumps more
// than one label (root -> evil.co.test.) and the delegation is found in the
// delegation cache at processDelegation time (a second query for a sibling
// name that started before the first one cached the delegation -- trivially
// triggered by sending two queries at once), the resolver talks to
// evil.co.test.'s servers with rs.level == 1. A referral from those servers
// then gets its glue accepted for any nameserver name under "test.", i.e. for
// names OUTSIDE the delegating zone evil.co.test., and that address is filed
// in the resolver-wide glue cache under the foreign name.
//
// The control sub-test issues the very same kind of referral on the ordinary
// path (delegation found by searchCache, rs.level == 3) and the glue is
// correctly refused there.
func TestAuditC07GlueBailiwickLostOnCachedDelegationPath(t *testing.T) {
	hnet := newHermeticNet(t)
	evil := hnet.DelegateInsecure("evil.co.test.")
	evil.ServeUnsigned(mustRR(t, "a.evil.co.test. 300 IN A 192.0.2.50"))

	const forgedGlue = "198.51.100.66"
	const forgedGlue2 = "198.51.100.67"

	// evil.co.test.'s servers refer b.evil.co.test. and c.evil.co.test. to a
	// nameserver named in a sibling zone (victim.co.test.), which is outside
	// evil.co.test., and attach an address for it.
	addReferral := func(child, nsName, addr string) {
		evil.server.mu.Lock()
		defer evil.server.mu.Unlock()
		evil.server.children[child] = &hermeticReferral{
			zone: child,
			ns: []dns.RR{&dns.NS{
				Hdr: dns.RR_Header{Name: child, Rrtype: dns.TypeNS, Class: dns.ClassINET, Ttl: 3600},
				Ns:  nsName,
			}},
			extra: []dns.RR{&dns.A{
				Hdr: dns.RR_Header{Name: nsName, Rrtype: dns.TypeA, Class: dns.ClassINET, Ttl: 3600},
				A:   net.ParseIP(addr),
			}},
		}
	}
	addReferral("b.evil.co.test.", "ns.victim.co.test.", forgedGlue)
	addReferral("c.evil.co.test.", "ns2.victim.co.test.", forgedGlue2)

	cfg := hnet.Config()
	cfg.QnameMinLevel = 0 // minimisation off: a supported configuration
	handler := hnet.handlerWithConfig(cfg)
	r := handler.resolver

	// Anything dialled at the forged addresses lands on evil's own socket so
	// the test does not wait for network timeouts.
	prev := r.resolveTarget.Load()
	mapper := func(addr string) string {
		if addr == net.JoinHostPort(forgedGlue, "53") || addr == net.JoinHostPort(forgedGlue2, "53") {
			return evil.server.addr
		}
		return (*prev)(addr)
	}
	r.resolveTarget.Store(&mapper)

	// The root holds its reply to query B until query A has completed and
	// cached the evil.co.test. delegation.
	var aDone atomic.Bool
	hnet.root.mu.Lock()
	hnet.root.beforeReply = func(q dns.Question) {
		if q.Name != "b.evil.co.test." {
			return
		}
		deadline := time.Now().Add(1500 * time.Millisecond)
		for !aDone.Load() && time.Now().Before(deadline) {
			time.Sleep(time.Millisecond)
		}
	}
	hnet.root.mu.Unlock()

	bFinished := make(chan struct{})
	go func() {
		defer close(bFinished)
		_, _ = hermeticResolve(t, r, "b.evil.co.test.", dns.TypeA)
	}()

	// Wait until B's query is parked at the root (it saw an empty delegation
	// cache), then run A to completion.
	waitUntil := time.Now().Add(time.Second)
	for hnet.root.asked("b.evil.co.test.", dns.TypeA) == 0 && time.Now().Before(waitUntil) {
		time.Sleep(time.Millisecond)
	}
	if hnet.root.asked("b.evil.co.test.", dns.TypeA) == 0 {
		t.Fatal("fixture: query B never reached the root")
	}
	respA, err := hermeticResolve(t, r, "a.evil.co.test.", dns.TypeA)
	if err != nil || respA == nil || len(respA.Answer) == 0 {
		t.Fatalf("fixture: query A failed: resp=%v err=%v", respA, err)
	}
	if !aDone.CompareAndSwap(false, true) {
		t.Fatal("fixture: aDone already set")
	}
	select {
	case <-bFinished:
	case <-time.After(20 * time.Second):
		t.Fatal("fixture: query B did not finish")
	}

	t.Run("control_ordinary_path_refuses_out_of_zone_glue", func(t *testing.T) {
		_, _ = hermeticResolve(t, r, "c.evil.co.test.", dns.TypeA)
		if addrs, ok := r.getIPv4Cache("ns2.victim.co.test."); ok {
			t.Fatalf("control: out-of-zone glue accepted on the ordinary path too: %v", addrs)
		}
	})

	if addrs, ok := r.getIPv4Cache("ns.victim.co.test."); ok {
		t.Errorf("glue from evil.co.test.'s servers for ns.victim.co.test. (a name outside the delegating zone evil.co.test.) was accepted and cached under that name: %v", addrs)
	}
}
