package dns64

import (
	"context"
	"net"
	"testing"

	"github.com/miekg/dns"
)

// TestAuditSynthTTLIgnoresSOAlessNegativePiece: a DNS64 reply is composed
// from two cached pieces — the AAAA reply that said "nothing usable here" and
// the A reply the addresses are taken from — and has to inherit the shorter
// of their lifetimes. The synthesiser reads the lifetime of the AAAA piece
// from an SOA only. A cached AAAA piece that carries its remaining lifetime
// on other records (a signed NODATA proven by NSEC whose authority omitted
// the SOA; an AAAA RRset that the exclude list strips completely) is treated
// as if it had no lifetime at all, and the client is shown min(A TTL, 600).
func TestAuditSynthTTLIgnoresSOAlessNegativePiece(t *testing.T) {
	const remaining = 3 // seconds the cached AAAA piece still has to live

	t.Run("NODATA proven by NSEC, no SOA", func(t *testing.T) {
		d := New(baseConfig())
		d.queryer = &stubQueryer{resp: aRespMsg("foo.example.org.", 300, "192.0.2.33")}

		// What the cache hands up on a hit: every record of the stored
		// NODATA at the entry's remaining lifetime.
		orig := new(dns.Msg)
		orig.SetQuestion("foo.example.org.", dns.TypeAAAA)
		orig.Response = true
		orig.Rcode = dns.RcodeSuccess
		orig.RecursionAvailable = true
		orig.SetEdns0(4096, true)
		orig.Ns = []dns.RR{
			&dns.NSEC{
				Hdr: dns.RR_Header{Name: "foo.example.org.", Rrtype: dns.TypeNSEC,
					Class: dns.ClassINET, Ttl: remaining},
				NextDomain: "goo.example.org.",
				TypeBitMap: []uint16{dns.TypeA, dns.TypeRRSIG, dns.TypeNSEC},
			},
		}

		ch, mw := makeChain(t, d, &stubAnswerer{msg: orig}, "203.0.113.5:53", "foo.example.org.", dns.TypeAAAA)
		d.ServeDNS(context.Background(), ch)

		resp := mw.Msg()
		if resp == nil || len(resp.Answer) == 0 {
			t.Fatal("no synthesised answer")
		}
		aaaa, ok := resp.Answer[0].(*dns.AAAA)
		if !ok {
			t.Fatalf("first answer is %T, want AAAA", resp.Answer[0])
		}
		if aaaa.Hdr.Ttl > remaining {
			t.Errorf("synthesised AAAA shows TTL %d; the cached AAAA NODATA it was derived from has %d s left",
				aaaa.Hdr.Ttl, remaining)
		}
	})

	t.Run("every AAAA excluded", func(t *testing.T) {
		d := New(baseConfig())
		d.queryer = &stubQueryer{resp: aRespMsg("foo.example.org.", 300, "192.0.2.33")}

		orig := new(dns.Msg)
		orig.SetQuestion("foo.example.org.", dns.TypeAAAA)
		orig.Response = true
		orig.RecursionAvailable = true
		orig.SetEdns0(4096, true)
		orig.Answer = []dns.RR{&dns.AAAA{
			Hdr: dns.RR_Header{Name: "foo.example.org.", Rrtype: dns.TypeAAAA,
				Class: dns.ClassINET, Ttl: remaining},
			AAAA: net.ParseIP("::ffff:c000:221"),
		}}

		ch, mw := makeChain(t, d, &stubAnswerer{msg: orig}, "203.0.113.5:53", "foo.example.org.", dns.TypeAAAA)
		d.ServeDNS(context.Background(), ch)

		resp := mw.Msg()
		if resp == nil || len(resp.Answer) == 0 {
			t.Fatal("no synthesised answer")
		}
		aaaa, ok := resp.Answer[0].(*dns.AAAA)
		if !ok {
			t.Fatalf("first answer is %T, want AAAA", resp.Answer[0])
		}
		if aaaa.Hdr.Ttl > remaining {
			t.Errorf("synthesised AAAA shows TTL %d; the cached AAAA reply that triggered synthesis has %d s left",
				aaaa.Hdr.Ttl, remaining)
		}
	})
}
