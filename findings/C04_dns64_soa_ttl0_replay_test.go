package dns64

import (
	"context"
	"testing"
	"time"

	"github.com/miekg/dns"
	"github.com/semihalev/sdns/internal/mock"
	"github.com/semihalev/sdns/middleware"
	cachemw "github.com/semihalev/sdns/middleware/cache"
)

// TestAuditDNS64SynthOutlivesCachedNoData: a DNS64 answer is composed from two
// pieces — the AAAA NODATA and the A answer — and the TTL shown to the client
// must not exceed the time either piece has left. When the AAAA NODATA comes
// from the cache in the last second of its life, the cache hands it out with
// TTL 0 on its SOA. negativeAAAATTL reports "no SOA" and "SOA with nothing
// left" identically (0), and the caller reads 0 as "no SOA present", so the
// synthesised AAAA falls back to the 600 s no-SOA ceiling and is shown with
// the A record's full TTL.
func TestAuditDNS64SynthOutlivesCachedNoData(t *testing.T) {
	const aTTL = 300

	// synthFor caches an AAAA NODATA for qname with the given time to live,
	// asks AAAA through dns64 -> cache, and returns the TTL on the synthesised
	// AAAA together with how long the cached piece still had when the reply
	// was in hand.
	synthFor := func(t *testing.T, qname string, lifetime time.Duration) (uint32, time.Duration) {
		t.Helper()
		cfg := baseConfig()
		cfg.CacheSize = 1024
		cfg.Expire = 600
		d := New(cfg)
		c := cachemw.New(cfg)
		defer c.Stop()
		d.queryer = &stubQueryer{resp: aRespMsg(qname, aTTL, "192.0.2.33")}

		nodata := new(dns.Msg)
		nodata.SetQuestion(qname, dns.TypeAAAA)
		nodata.Response = true
		nodata.RecursionAvailable = true
		nodata.Ns = []dns.RR{&dns.SOA{
			Hdr: dns.RR_Header{
				Name: "audit-dns64.example.", Rrtype: dns.TypeSOA,
				Class: dns.ClassINET, Ttl: 60,
			},
			Ns: "ns.audit-dns64.example.", Mbox: "hostmaster.audit-dns64.example.",
			Serial: 1, Refresh: 7200, Retry: 3600, Expire: 604800, Minttl: 60,
		}}
		store, ok := c.Store().(*cachemw.Store)
		if !ok {
			t.Fatal("cache store is not *cache.Store")
		}
		// The entry's remaining life is what is left of the delegation lease
		// it was learned through. Any cached NODATA passes through its final
		// second at the end of its negative TTL just the same.
		pieceExpires := time.Now().Add(lifetime)
		store.SetFromResponse(nodata, false, pieceExpires)

		downstreamCalls := 0
		downstream := middleware.HandlerFunc(func(_ context.Context, ch *middleware.Chain) {
			downstreamCalls++
			ch.CancelWithRcode(dns.RcodeServerFailure, false)
		})

		ch := middleware.NewChain([]middleware.Handler{d, c, downstream})
		writer := mock.NewWriter("udp", "203.0.113.5:53000")
		req := new(dns.Msg)
		req.SetQuestion(qname, dns.TypeAAAA)
		req.RecursionDesired = true
		req.SetEdns0(4096, false)
		ch.Reset(writer, req)
		ch.Next(context.Background())
		left := time.Until(pieceExpires)

		if downstreamCalls != 0 {
			if left <= 0 {
				t.Skip("scheduling delay: the cached piece expired before it was served")
			}
			t.Fatalf("precondition: the AAAA NODATA was not served from cache (%d downstream calls)", downstreamCalls)
		}
		resp := writer.Msg()
		if resp == nil {
			t.Fatal("no response")
		}
		for _, rr := range resp.Answer {
			if a, ok := rr.(*dns.AAAA); ok {
				return a.Hdr.Ttl, left
			}
		}
		t.Fatalf("precondition: no synthesised AAAA in reply:\n%v", resp)
		return 0, 0
	}

	// Control: with whole seconds left the composition does inherit the
	// shorter piece.
	if ttl, _ := synthFor(t, "control.audit-dns64.example.", 20*time.Second); ttl > 20 {
		t.Fatalf("control failed: NODATA with 20 s left produced a synthesised AAAA with TTL %d", ttl)
	}

	ttl, left := synthFor(t, "v4only.audit-dns64.example.", 900*time.Millisecond)
	if time.Duration(ttl)*time.Second > left+time.Second {
		t.Errorf("synthesised AAAA shown with TTL %d s; the cached AAAA NODATA it was composed from had %v left "+
			"(its SOA went out with TTL 0, which DNS64 read as \"no SOA\" -> 600 s ceiling -> A TTL %d)",
			ttl, left.Round(time.Millisecond), aTTL)
	}
}
