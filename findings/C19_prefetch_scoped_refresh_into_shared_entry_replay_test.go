package cache

// Replay for a C19 lead: a client allowed to have its ECS forwarded hits a SHARED (global) entry that is due for
// background refresh. The refresh request is a copy of that client's request - clamped client-subnet option included -
// and the refreshed response, whatever scope the authority declares for it, is swapped into the SHARED key.
// Run: go test -overlay <overlay mapping middleware/cache/zz_c19_prefetch_replay_test.go to this file> -vet=off -run TestC19Prefetch ./middleware/cache/

import (
	"context"
	"net"
	"sync/atomic"
	"testing"
	"time"

	"github.com/miekg/dns"
	"github.com/semihalev/sdns/config"
	"github.com/semihalev/sdns/middleware"
)

type c19ScopedRefreshQueryer struct {
	sawMessageECS atomic.Bool
	fired         chan struct{}
}

func (q *c19ScopedRefreshQueryer) Query(_ context.Context, req *dns.Msg) (*dns.Msg, error) {
	q.sawMessageECS.Store(hasEDNSClientSubnet(req))
	resp := new(dns.Msg)
	resp.SetReply(req)
	resp.Answer = []dns.RR{makeRR(req.Question[0].Name + " 300 IN A 198.51.100.77")} // tailored to 203.0.113.0/24
	o := new(dns.OPT)
	o.Hdr.Name, o.Hdr.Rrtype = ".", dns.TypeOPT
	o.Option = append(o.Option, &dns.EDNS0_SUBNET{Code: dns.EDNS0SUBNET, Family: 1, SourceNetmask: 24, SourceScope: 24, Address: net.ParseIP("203.0.113.0").To4()})
	resp.Extra = append(resp.Extra, o)
	close(q.fired)
	return resp, nil
}

func TestC19PrefetchDoesNotPutAScopedAnswerUnderTheSharedKey(t *testing.T) {
	cfg := &config.Config{CacheSize: 1024, Expire: 300, Prefetch: 50}
	cfg.ECS = config.ECSConfig{Enabled: true, ForwardV4Max: 24, ForwardV6Max: 56}
	cache := New(cfg)
	defer cache.Stop()
	queryer := &c19ScopedRefreshQueryer{fired: make(chan struct{})}
	cache.SetPrefetchQueryer(queryer)

	// a shared (SCOPE=0) answer, aged into the prefetch window
	baseReq := nxCutRequest("www.c19.example.", dns.TypeA)
	old := nxCutPositiveResponse(baseReq)
	key := CacheKey{Question: baseReq.Question[0], CD: false}.Hash()
	entry := NewCacheEntryWithKey(old, 5*time.Second, 0, key)
	entry.stored = time.Now().Add(-4 * time.Second)
	cache.positive.Set(key, entry)

	downstream := middleware.HandlerFunc(func(_ context.Context, ch *middleware.Chain) {
		t.Error("cache hit unexpectedly reached downstream")
		ch.Cancel()
	})
	// the ECS client (203.0.113.5, allowed: no client_networks restriction) hits the shared entry
	got := clientECSMarkerExchange(t, cfg, cache, downstream, aggressiveNegativeRequestWithECS("www.c19.example.", dns.TypeA))
	if got.Rcode != dns.RcodeSuccess || len(got.Answer) != 1 {
		t.Fatalf("triggering cache hit=%v", got)
	}
	select {
	case <-queryer.fired:
	case <-time.After(2 * time.Second):
		t.Skip("prefetch did not fire (shared entry not hit by the ECS client)")
	}
	deadline := time.Now().Add(2 * time.Second)
	for time.Now().Before(deadline) && entry.prefetch.Load() {
		time.Sleep(10 * time.Millisecond)
	}
	if queryer.sawMessageECS.Load() {
		t.Errorf("the background refresh of a SHARED entry was asked WITH the triggering client's subnet option")
	}
	if current, ok := cache.positive.Get(key); ok && current != entry {
		msg := current.ToMsg(baseReq)
		if msg != nil && len(msg.Answer) == 1 {
			if a, isA := msg.Answer[0].(*dns.A); isA && a.A.String() == "198.51.100.77" {
				t.Errorf("an answer the authority scoped to 203.0.113.0/24 now sits under the SHARED key and is served to every client: %v", a)
			}
		}
	}
}
