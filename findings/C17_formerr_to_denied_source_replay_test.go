package server

import (
	"bytes"
	"context"
	"net/http"
	"net/http/httptest"
	"sync/atomic"
	"testing"

	"github.com/miekg/dns"
	"github.com/semihalev/sdns/config"
	"github.com/semihalev/sdns/internal/mock"
	"github.com/semihalev/sdns/middleware"
	"github.com/semihalev/sdns/middleware/accesslist"
)

// auditC17Answerer stands in for everything behind the access list
// (cache, resolver): it counts the queries that got past the list and
// answers them.
type auditC17Answerer struct{ hits *atomic.Int64 }

func (auditC17Answerer) Name() string { return "audit-c17-answerer" }

func (a auditC17Answerer) ServeDNS(ctx context.Context, ch *middleware.Chain) {
	a.hits.Add(1)
	_, req := ch.Materialize(ctx)
	if req == nil {
		return
	}
	resp := new(dns.Msg)
	resp.SetReply(req)
	_ = ch.Writer.WriteMsg(resp)
	ch.Cancel()
}

// newAuditC17Server builds a server whose pipeline is the real access
// list (only 10.0.0.0/8 admitted) in front of a counting answerer.
func newAuditC17Server(t *testing.T) (*Server, *atomic.Int64) {
	t.Helper()
	hits := new(atomic.Int64)
	middleware.Reset()
	t.Cleanup(middleware.Reset)
	middleware.Register("accesslist", func(cfg *config.Config) middleware.Handler { return accesslist.New(cfg) })
	middleware.Register("audit-c17-answerer", func(*config.Config) middleware.Handler { return auditC17Answerer{hits: hits} })
	cfg := &config.Config{Bind: "127.0.0.1:0", AccessList: []string{"10.0.0.0/8"}}
	middleware.Setup(cfg)
	return New(cfg), hits
}

// C17: "A query whose source address is outside the configured access list
// gets no reply ... on every transport and on both the wire and decoded
// paths."
//
// The decoded entry shared by DoH, DoH3, DoQ and the raw fallback
// (Server.serveMsgBy) answers a message whose question count is not 1 with
// FORMERR *before* the pipeline — and so before the access list — runs.
// A source the list excludes therefore still gets a DNS reply.
func TestAuditC17DecodedPathRepliesToDeniedSource(t *testing.T) {
	s, hits := newAuditC17Server(t)

	const denied = "192.0.2.7:5353" // outside 10.0.0.0/8
	const allowed = "10.1.2.3:5353"

	wellFormed := new(dns.Msg)
	wellFormed.SetQuestion("example.com.", dns.TypeA)

	// Controls: the list is live. An allowed source is answered, a denied
	// source with an ordinary query is dropped in silence.
	mw := mock.NewWriter("udp", allowed)
	s.ServeMsg(context.Background(), mw, wellFormed.Copy())
	if !mw.Written() || hits.Load() != 1 {
		t.Fatalf("control: allowed source was not served (written=%v hits=%d)", mw.Written(), hits.Load())
	}
	mw = mock.NewWriter("udp", denied)
	s.ServeMsg(context.Background(), mw, wellFormed.Copy())
	if mw.Written() || hits.Load() != 1 {
		t.Fatalf("control: denied source with a well-formed query was served (written=%v hits=%d)", mw.Written(), hits.Load())
	}

	noQuestion := new(dns.Msg)
	noQuestion.Id = 0x1234

	twoQuestions := new(dns.Msg)
	twoQuestions.Id = 0x4321
	twoQuestions.Question = []dns.Question{
		{Name: "a.example.", Qtype: dns.TypeA, Qclass: dns.ClassINET},
		{Name: "b.example.", Qtype: dns.TypeA, Qclass: dns.ClassINET},
	}

	for _, tc := range []struct {
		name  string
		proto string
		req   *dns.Msg
	}{
		{"doq-shaped writer, QDCOUNT=0", "udp", noQuestion},
		{"doh-shaped writer, QDCOUNT=0", "doh", noQuestion},
		{"tcp-shaped writer, QDCOUNT=2", "tcp", twoQuestions},
	} {
		t.Run(tc.name, func(t *testing.T) {
			mw := mock.NewWriter(tc.proto, denied)
			s.ServeMsg(context.Background(), mw, tc.req.Copy())
			if mw.Written() {
				t.Errorf("source %s is outside the access list %v but received a reply (rcode %s)",
					denied, s.cfg.AccessList, dns.RcodeToString[mw.Msg().Rcode])
			}
		})
	}

	// The same through the real DoH handler: a denied client's ordinary
	// query produces no DNS message (HTTP 400), but a QDCOUNT=0 body gets a
	// 200 carrying a FORMERR DNS reply.
	t.Run("DoH POST end to end", func(t *testing.T) {
		post := func(m *dns.Msg) *httptest.ResponseRecorder {
			body, err := m.Pack()
			if err != nil {
				t.Fatal(err)
			}
			r := httptest.NewRequest(http.MethodPost, "/dns-query", bytes.NewReader(body))
			r.Header.Set("Content-Type", "application/dns-message")
			r.RemoteAddr = denied
			rec := httptest.NewRecorder()
			s.ServeHTTP(rec, r)
			return rec
		}
		if rec := post(wellFormed); rec.Code == http.StatusOK {
			t.Fatalf("control: denied DoH client got a DNS answer for a well-formed query")
		}
		rec := post(noQuestion)
		if rec.Code == http.StatusOK && rec.Header().Get("Content-Type") == "application/dns-message" {
			reply := new(dns.Msg)
			_ = reply.Unpack(rec.Body.Bytes())
			t.Errorf("denied DoH client %s received a DNS reply (HTTP 200, rcode %s)",
				denied, dns.RcodeToString[reply.Rcode])
		}
	})
}
