package resolver

import (
	"context"
	"sync/atomic"
	"testing"
	"time"

	"github.com/miekg/dns"
	"github.com/semihalev/sdns/internal/authority"
	"github.com/semihalev/sdns/internal/cache"
)

// TestAuditC08_DelegationCacheKeyCollision shows that the delegation cache
// hands out whatever sits under a 64-bit key without checking that the entry
// is the delegation of the zone that was looked up.
//
// The key is cache.Key(NS <zone> <class>, cd): a non-cryptographic xxhash64 of
// a name the other side chooses. The answer cache verifies the full preimage
// of every hit for exactly that reason; authority.Cache.Get, searchCache and
// the cached branch of processDelegation verify nothing. xxhash64 is
// invertible, so a second preimage among ordinary host-name labels is found
// in about a second of CPU:
//
//	cache.Key(NS aaapirbubd2wxqo.evil.  IN, cd=1)
//	  == cache.Key(NS loop.ghostzone.   IN, cd=1) == 7863592491664092512
//
// Whoever runs evil. delegates that label (its own parent-granted lease,
// renewable for ever) and has one name below it resolved. From then on the
// entry is what searchCache finds for every name under loop.ghostzone.:
// loop.ghostzone.'s parent has withdrawn the zone and no lease for it is
// alive, so the property requires sdns to follow the parent - ask the
// ghostzone. servers and return their NXDOMAIN. Instead the query goes to the
// server of the colliding zone (here the former child, still alive), and the
// parent is never consulted, for as long as the other zone's delegation is
// kept alive.
//
// Nothing is planted in the cache: both delegations are learned from real
// referrals through processDelegation.
func TestAuditC08_DelegationCacheKeyCollision(t *testing.T) {
	const collidingZone = "aaapirbubd2wxqo.evil."
	const ghostZone = "loop.ghostzone."

	ghostQuestion := dns.Question{Name: ghostZone, Qtype: dns.TypeNS, Qclass: dns.ClassINET}
	collidingQuestion := dns.Question{Name: collidingZone, Qtype: dns.TypeNS, Qclass: dns.ClassINET}
	if cache.Key(ghostQuestion, true) != cache.Key(collidingQuestion, true) {
		t.Skip("setup: the two delegation keys no longer collide (key derivation changed)")
	}

	var ghostParentHits, evilParentHits, formerChildHits, ghostNameAtChild int64

	// ghostzone.: the delegation of loop.ghostzone. has been withdrawn.
	ghostParentAddr, stop1 := startMockAuth(t, &ghostParentHits, func(q dns.Question) *dns.Msg {
		m := &dns.Msg{}
		m.Authoritative = true
		m.Rcode = dns.RcodeNameError
		m.Ns = []dns.RR{mustRR(t, "ghostzone. 30 IN SOA ns.ghostzone. hostmaster.ghostzone. 1 30 30 30 30")}
		return m
	})
	defer stop1()

	// evil.: a live zone that delegates the colliding label.
	evilParentAddr, stop2 := startMockAuth(t, &evilParentHits, func(q dns.Question) *dns.Msg {
		m := &dns.Msg{}
		if dns.IsSubDomain(collidingZone, dns.CanonicalName(q.Name)) {
			m.Ns = []dns.RR{mustRR(t, collidingZone+" 3600 IN NS ns."+collidingZone)}
			m.Extra = []dns.RR{mustRR(t, "ns."+collidingZone+" 3600 IN A 192.0.2.66")}
			return m
		}
		m.Authoritative = true
		m.Rcode = dns.RcodeNameError
		m.Ns = []dns.RR{mustRR(t, "evil. 30 IN SOA ns.evil. hostmaster.evil. 1 30 30 30 30")}
		return m
	})
	defer stop2()

	// The former child of loop.ghostzone., still alive; it also serves the
	// colliding zone.
	formerChildAddr, stop3 := startMockAuth(t, &formerChildHits, func(q dns.Question) *dns.Msg {
		name := dns.CanonicalName(q.Name)
		m := &dns.Msg{}
		m.Authoritative = true
		switch {
		case name == "a."+collidingZone && q.Qtype == dns.TypeA:
			m.Answer = []dns.RR{mustRR(t, "a."+collidingZone+" 60 IN A 192.0.2.77")}
		case dns.IsSubDomain(ghostZone, name):
			atomic.AddInt64(&ghostNameAtChild, 1)
			if name == "www."+ghostZone && q.Qtype == dns.TypeA {
				m.Answer = []dns.RR{mustRR(t, "www."+ghostZone+" 600 IN A 192.0.2.55")}
			}
		default:
			m.Rcode = dns.RcodeNameError
			m.Ns = []dns.RR{mustRR(t, collidingZone+" 30 IN SOA ns."+collidingZone+" hostmaster."+collidingZone+" 1 30 30 30 30")}
		}
		return m
	})
	defer stop3()

	base := makeTestConfig()
	cfg := *base
	cfg.IPv6Access = false
	r := newWiredTestResolver(&cfg)
	remap := map[string]string{"192.0.2.66:53": formerChildAddr}
	mapper := func(addr string) string {
		if to, ok := remap[addr]; ok {
			return to
		}
		return addr
	}
	r.resolveTarget.Store(&mapper)

	seed := func(zone, addr string) *authority.Servers {
		s := &authority.Servers{
			Zone:            zone,
			List:            []*authority.Server{authority.NewServer(addr, authority.IPv4)},
			CheckingDisable: true,
		}
		r.delegations.Set(cache.Key(dns.Question{Name: zone, Qtype: dns.TypeNS, Qclass: dns.ClassINET}, true), nil, s, time.Hour)
		return s
	}
	ghostParentServers := seed("ghostzone.", ghostParentAddr)
	evilParentServers := seed("evil.", evilParentAddr)

	ask := func(name string, start *authority.Servers) (*dns.Msg, error) {
		req := new(dns.Msg)
		req.SetQuestion(name, dns.TypeA)
		req.CheckingDisabled = true
		ctx := context.WithValue(context.Background(), contextKeyRequestID, req.Id)
		return r.Resolve(ctx, req, start, true, 30, 0, true, nil)
	}

	// Control: with nothing else cached, a name under the withdrawn zone is
	// answered by the parent.
	if resp, err := ask("www."+ghostZone, ghostParentServers); err != nil || resp.Rcode != dns.RcodeNameError {
		t.Fatalf("control: expected the parent's NXDOMAIN, got %v / %v", resp, err)
	}
	if atomic.LoadInt64(&ghostNameAtChild) != 0 {
		t.Fatal("control: the former child must not have been asked")
	}

	// One ordinary resolution of a name in the colliding zone: its referral is
	// processed and its delegation cached, exactly as for any other zone.
	if resp, err := ask("a."+collidingZone, evilParentServers); err != nil || resp.Rcode != dns.RcodeSuccess || len(resp.Answer) == 0 {
		t.Fatalf("setup: resolving a name in the colliding zone failed: %v / %v", resp, err)
	}

	parentBefore := atomic.LoadInt64(&ghostParentHits)
	m := r.searchCache(dns.Question{Name: "www." + ghostZone, Qtype: dns.TypeA, Qclass: dns.ClassINET}, true, "www."+ghostZone)
	if m.servers != nil && !dns.IsSubDomain(dns.CanonicalName(m.servers.Zone), "www."+ghostZone) {
		t.Errorf("searchCache(www.%s) returned the delegation of %q, which is not an ancestor of the name", ghostZone, m.servers.Zone)
	}

	resp, err := ask("www."+ghostZone, ghostParentServers)
	rcode := "error"
	if err == nil && resp != nil {
		rcode = dns.RcodeToString[resp.Rcode]
	}
	parentAfter := atomic.LoadInt64(&ghostParentHits)
	atChild := atomic.LoadInt64(&ghostNameAtChild)
	t.Logf("www.%s: rcode=%s err=%v; parent asked %d more time(s); former child asked about the withdrawn zone %d time(s)",
		ghostZone, rcode, err, parentAfter-parentBefore, atChild)

	if atChild != 0 {
		t.Errorf("the former child was asked about %s %d time(s) although the parent withdrew the zone and no lease for it is alive", ghostZone, atChild)
	}
	if parentAfter == parentBefore {
		t.Errorf("the parent (ghostzone.) was not consulted for a name under the withdrawn zone")
	}
	if err != nil || resp == nil || resp.Rcode != dns.RcodeNameError {
		t.Errorf("expected the parent's NXDOMAIN, got rcode=%s err=%v", rcode, err)
	}
}
