package resolver

import (
	"crypto"
	"net"
	"os"
	"path/filepath"
	"sync"
	"testing"
	"time"

	"github.com/miekg/dns"
	"github.com/semihalev/sdns/config"
	"github.com/semihalev/sdns/internal/authority"
)

// ---- helpers (extra) ------------------------------------------------

type a4Key struct {
	key  *dns.DNSKEY
	priv crypto.Signer
}

func a4NewKSK(t *testing.T) a4Key {
	t.Helper()
	k := &dns.DNSKEY{
		Hdr:       dns.RR_Header{Name: ".", Rrtype: dns.TypeDNSKEY, Class: dns.ClassINET, Ttl: 3600},
		Flags:     257,
		Protocol:  3,
		Algorithm: dns.ED25519,
	}
	priv, err := k.Generate(256)
	if err != nil {
		t.Fatalf("generate DNSKEY: %v", err)
	}
	return a4Key{key: k, priv: priv.(crypto.Signer)}
}

func (k a4Key) sign(t *testing.T, rrset []dns.RR) *dns.RRSIG {
	t.Helper()
	now := time.Now()
	sig := &dns.RRSIG{
		Hdr:         dns.RR_Header{Name: ".", Rrtype: dns.TypeRRSIG, Class: dns.ClassINET, Ttl: 3600},
		TypeCovered: dns.TypeDNSKEY,
		Algorithm:   k.key.Algorithm,
		OrigTtl:     3600,
		Expiration:  uint32(now.Add(6 * time.Hour).Unix()),  //nolint:gosec // test
		Inception:   uint32(now.Add(-6 * time.Hour).Unix()), //nolint:gosec // test
		KeyTag:      k.key.KeyTag(),
		SignerName:  ".",
	}
	if err := sig.Sign(k.priv, rrset); err != nil {
		t.Fatalf("sign DNSKEY RRset: %v", err)
	}
	return sig
}

type a4Root struct {
	mu     sync.Mutex
	answer []dns.RR
	addr   string
}

func a4StartRoot(t *testing.T) *a4Root {
	t.Helper()
	pc, err := net.ListenPacket("udp", "127.0.0.1:0")
	if err != nil {
		t.Fatalf("listen: %v", err)
	}
	s := &a4Root{addr: pc.LocalAddr().String()}
	mux := dns.NewServeMux()
	mux.HandleFunc(".", func(w dns.ResponseWriter, r *dns.Msg) {
		reply := new(dns.Msg)
		reply.SetReply(r)
		reply.Authoritative = true
		if len(r.Question) == 1 && r.Question[0].Name == "." && r.Question[0].Qtype == dns.TypeDNSKEY {
			s.mu.Lock()
			reply.Answer = append(reply.Answer, s.answer...)
			s.mu.Unlock()
		}
		_ = w.WriteMsg(reply)
	})
	srv := &dns.Server{Net: "udp", PacketConn: pc, Handler: mux}
	go func() { _ = srv.ActivateAndServe() }()
	time.Sleep(20 * time.Millisecond)
	t.Cleanup(func() { _ = srv.Shutdown() })
	return s
}

func (s *a4Root) publish(rrs ...dns.RR) {
	s.mu.Lock()
	s.answer = rrs
	s.mu.Unlock()
}

// a4Resolver: the fields AutoTA needs, without the background run() goroutine.
func a4Resolver(dir, rootAddr string, configured ...*dns.DNSKEY) *Resolver {
	cfg := &config.Config{
		DNSSEC:               "on",
		Maxdepth:             30,
		MaxConcurrentQueries: 16,
		Directory:            dir,
		Timeout:              config.Duration{Duration: 2 * time.Second},
	}
	servers := &authority.Servers{Zone: "."}
	servers.List = append(servers.List, authority.NewServer(rootAddr, authority.IPv4))
	r := &Resolver{
		cfg:             cfg,
		delegations:     authority.NewCache(),
		rootServers:     servers,
		dnssec:          true,
		netTimeout:      2 * time.Second,
		sfGroup:         NewSingleflightWrapper(),
		circuitBreaker:  newCircuitBreaker(),
		maxConcurrent:   make(chan struct{}, cfg.MaxConcurrentQueries),
		resolutionSlots: make(chan struct{}, cfg.MaxConcurrentQueries),
		qnameMinLevel:   10,
	}
	for _, k := range configured {
		r.rootKeys = append(r.rootKeys, k)
		r.configuredRootKeys = append(r.configuredRootKeys, k)
	}
	return r
}

func a4Trusts(r *Resolver, k *dns.DNSKEY) bool {
	r.RLock()
	defer r.RUnlock()
	for _, rr := range r.rootKeys {
		if have, ok := rr.(*dns.DNSKEY); ok && have.Algorithm == k.Algorithm && have.PublicKey == k.PublicKey {
			return true
		}
	}
	return false
}

// TestAuditC09RevocationIgnoredWhenRevokedTagWraps (extra observation):
//
// RFC 4034 App. B key tags are a folded 16-bit checksum. Setting the REVOKE bit
// adds 128 to the sum; when that carries out of the low 16 bits the fold adds
// one more, so for every key whose tag is >= 65408 (1 key in 512) the revoked
// form's tag is old+129 (mod 65536), not old+128. AutoTA, stageRevocationSelf-
// Signatures and verifyFetchedKeysWithWork all locate the anchor being revoked
// with kskCurrent[tag-128] / currentKeys[tag-128]; for such a key the lookup
// misses, the validly self-signed revocation is silently ignored, the key is
// treated as having "merely disappeared" (Missing, trusted 90 more days), no
// tombstone is written, and configuration that still lists it re-adds it as
// Valid after the remove hold-down.
func TestAuditC09RevocationIgnoredWhenRevokedTagWraps(t *testing.T) {
	dir, err := os.MkdirTemp("", "sdns-audit-c09-4-")
	if err != nil {
		t.Fatal(err)
	}
	t.Cleanup(func() { _ = os.RemoveAll(dir) })

	anchor := a4NewKSK(t)
	var victim a4Key
	for i := 0; ; i++ {
		if i > 200000 {
			t.Fatal("no wrapping key found")
		}
		victim = a4NewKSK(t)
		rv := *victim.key
		rv.Flags |= DNSKEYFlagRevoke
		if rv.KeyTag() != victim.key.KeyTag()+DNSKEYFlagRevoke && victim.key.KeyTag() != anchor.key.KeyTag() {
			break
		}
	}
	revoked := *victim.key
	revoked.Flags |= DNSKEYFlagRevoke
	revokedSigner := a4Key{key: &revoked, priv: victim.priv}
	t.Logf("trusted key tag %d, its revoked form has tag %d (not %d)", victim.key.KeyTag(), revoked.KeyTag(), victim.key.KeyTag()+DNSKEYFlagRevoke)

	root := a4StartRoot(t)
	r := a4Resolver(dir, root.addr, anchor.key, victim.key)

	// {A, REVOKED(K)} signed by A and self-signed by REVOKED(K): a textbook RFC 5011 revocation.
	set := []dns.RR{anchor.key, &revoked}
	root.publish(append(set, anchor.sign(t, set), revokedSigner.sign(t, set))...)
	r.AutoTA()

	if a4Trusts(r, victim.key) {
		t.Errorf("a validly self-signed revocation, in an RRset also signed by a trusted anchor, was ignored: key (tag %d) is still a live trust anchor", victim.key.KeyTag())
	}
	tombs, err := readTombstones(filepath.Join(dir, tombstoneFile))
	if err != nil {
		t.Fatal(err)
	}
	if _, ok := tombs[dnskeyMaterialFP(victim.key)]; !ok {
		t.Errorf("no tombstone recorded for the revoked key; it will be re-trusted from configuration after the 90-day remove hold-down")
	}
}
