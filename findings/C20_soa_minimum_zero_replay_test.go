package dns64

import (
	"context"
	"testing"

	"github.com/miekg/dns"
)

// C20: synthesised AAAA TTL is "no larger than both the A TTL and the AAAA
// negative TTL".
//
// The negative TTL of a NODATA reply is min(SOA.TTL, SOA.MINIMUM) (RFC 2308
// section 5; the function's own comment says the same). negativeAAAATTL only
// takes MINIMUM into account when it is > 0, so an SOA with MINIMUM = 0
// ("do not cache negatives") is treated as if MINIMUM were absent and the SOA
// record's own TTL (3600 here) becomes the bound.
func TestAuditC20SynthTTLIgnoresZeroSOAMinimum(t *testing.T) {
	d := New(baseConfig())
	d.queryer = &stubQueryer{resp: aRespMsg("foo.example.org.", 300, "192.0.2.33")}

	// SOA TTL 3600, MINIMUM 0  => negative TTL of the AAAA NODATA is 0.
	orig := noDataMsg("foo.example.org.", 0)
	soa := orig.Ns[0].(*dns.SOA)
	if soa.Hdr.Ttl != 3600 || soa.Minttl != 0 {
		t.Fatalf("test premise broken: SOA ttl=%d minimum=%d", soa.Hdr.Ttl, soa.Minttl)
	}
	negTTL := soa.Hdr.Ttl
	if soa.Minttl < negTTL {
		negTTL = soa.Minttl
	}

	ch, mw := makeChain(t, d, &stubAnswerer{msg: orig}, "203.0.113.5:53", "foo.example.org.", dns.TypeAAAA)
	d.ServeDNS(context.Background(), ch)

	resp := mw.Msg()
	if resp == nil {
		t.Fatalf("no response written")
	}
	seen := 0
	for _, rr := range resp.Answer {
		aaaa, ok := rr.(*dns.AAAA)
		if !ok {
			continue
		}
		seen++
		if aaaa.Hdr.Ttl > negTTL {
			t.Errorf("synthesised AAAA %s has TTL %d, larger than the AAAA negative TTL %d (min of SOA TTL 3600 and SOA MINIMUM 0)",
				aaaa.AAAA, aaaa.Hdr.Ttl, negTTL)
		}
	}
	if seen == 0 {
		t.Fatalf("expected a synthesised AAAA, got %v", resp.Answer)
	}
}
