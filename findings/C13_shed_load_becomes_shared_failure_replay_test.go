package resolver

// Replay for the C13 finding: a query SHED by the resolver's own load limiter (every in-flight resolution slot taken)
// was answered SERVFAIL and that SERVFAIL was admitted to the shared RFC 9520 failure cache, so the NEXT client asking
// the same question was answered "cached error" (EDE 13) without any resolution attempt although nothing upstream failed.
// Run: go test -overlay <overlay mapping middleware/resolver/zz_c13_replay_test.go to this file> -vet=off -run TestC13 ./middleware/resolver/

import (
	"context"
	"testing"
	"time"

	"github.com/miekg/dns"
	"github.com/semihalev/sdns/config"
	"github.com/semihalev/sdns/internal/authority"
	"github.com/semihalev/sdns/internal/dnsutil"
	"github.com/semihalev/sdns/internal/mock"
	"github.com/semihalev/sdns/middleware"
	cachemw "github.com/semihalev/sdns/middleware/cache"
)

func TestC13ShedLoadIsNotSharedFailureState(t *testing.T) {
	root := &authority.Servers{
		Zone: ".",
		List: []*authority.Server{authority.NewServer("127.0.0.1:1", authority.IPv4)},
	}
	r := newAttackHarnessResolver(root)
	r.cfg.QueryTimeout.Duration = 5 * time.Second
	// every in-flight resolution slot is taken: the resolver sheds new lookups at once
	r.resolutionSlots = make(chan struct{}, 1)
	r.resolutionSlots <- struct{}{}
	h := &DNSHandler{resolver: r, cfg: r.cfg}

	c := cachemw.New(&config.Config{CacheSize: 1024, Expire: 300})
	defer c.Stop()

	query := func() *dns.Msg {
		t.Helper()
		req := new(dns.Msg)
		req.SetQuestion("www.shed.example.", dns.TypeA)
		req.SetEdns0(1232, false)
		req.RecursionDesired = true
		w := mock.NewWriter("udp", "192.0.2.10:53000")
		ch := middleware.NewChain([]middleware.Handler{c, h})
		ch.Reset(w, req)
		ch.Next(context.Background())
		if !w.Written() {
			t.Fatal("no response written")
		}
		return w.Msg()
	}
	first := query()
	if first.Rcode != dns.RcodeServerFailure {
		t.Fatalf("shed query: rcode = %s, want SERVFAIL", dns.RcodeToString[first.Rcode])
	}
	// the pool drains: the next client must get a real resolution attempt, not a cached error
	<-r.resolutionSlots
	second := query()
	if ede := dnsutil.GetEDE(second); second.Rcode == dns.RcodeServerFailure && ede != nil && ede.InfoCode == dns.ExtendedErrorCodeCachedError {
		t.Errorf("a load-shed SERVFAIL became shared failure state: the next client was answered from the failure cache (EDE 13: %q)", ede.ExtraText)
	}
}
