package resolver

import (
	"context"
	"fmt"
	"sync"
	"sync/atomic"
	"testing"
	"time"

	"github.com/miekg/dns"
	"github.com/semihalev/sdns/internal/dnsutil"
	"github.com/semihalev/sdns/middleware"
)

// C11 audit: "Expired, cancelled or capacity-refused resolution surfaces as
// SERVFAIL to that client only; it neither wedges nor fails other clients
// waiting on the same name".
//
// (*Resolver).exchange arms the upstream socket with min(now+netTimeout,
// ctx.Deadline()). When the request that LEADS a singleflight lookup runs out
// of its query budget, the socket deadline and the context's own timer are
// due at the same instant. If the socket read returns first, exchange
// correctly classifies the failure as context.DeadlineExceeded
// (contextutil.EffectiveError reads the wall clock), but queryServer can still
// deliver that result to lookup's main loop, because the context's Done
// channel is not closed yet. lookup files the error under fatalErrors without
// looking at it and pickFallbackResponse turns "any fatal error" into
// fatalError(errConnectionFailed) — "All authoritative servers failed".
//
// That value is the shared singleflight result. groupLookup only re-elects a
// follower when the leader's error is request-local; errConnectionFailed is
// not, so every other client collapsed onto the expired leader's lookup is
// failed with SERVFAIL at the LEADER's deadline — with seconds of its own
// budget left and a perfectly healthy (merely slow) authority — and, because
// the follower's own context is live, handleLookupError also publishes an RFC
// 9520 zone failure for the whole zone into the shared failure store.

// auditFailureStore is the minimal middleware.ResolutionFailureStore: it
// answers nothing and records which zones the resolver declared failed.
type auditFailureStore struct {
	mu     sync.Mutex
	failed []string
}

func (s *auditFailureStore) Get(*dns.Msg) (*dns.Msg, bool)             { return nil, false }
func (s *auditFailureStore) SetFromResponse(*dns.Msg, bool, time.Time) {}
func (s *auditFailureStore) ClearZoneFailure(dns.Question, string)     {}
func (s *auditFailureStore) RecordZoneFailure(q dns.Question, zone string) {
	s.mu.Lock()
	s.failed = append(s.failed, zone+" (for "+q.Name+")")
	s.mu.Unlock()
}
func (s *auditFailureStore) zones() []string {
	s.mu.Lock()
	defer s.mu.Unlock()
	return append([]string(nil), s.failed...)
}

func auditQuery(name string) *dns.Msg {
	req := new(dns.Msg)
	req.SetQuestion(dns.Fqdn(name), dns.TypeA)
	req.SetEdns0(dnsutil.DefaultMsgSize, true)
	req.RecursionDesired = true
	return req
}

type auditPairResult struct {
	name       string
	leader     *dns.Msg
	follower   *dns.Msg
	followerIn time.Duration
}

// auditRunPairs runs `pairs` independent (leader, follower) couples, each on
// its own name (its own singleflight key). The leader has leaderBudget left,
// the follower joins the leader's in-flight lookup and has followerBudget; the
// authority answers only after the leader's budget is gone.
func auditRunPairs(
	t *testing.T, h *DNSHandler, zone *hermeticZone, round, pairs int,
	leaderCtx func() (context.Context, context.CancelFunc),
) []auditPairResult {
	t.Helper()

	const (
		followerJoin   = 100 * time.Millisecond
		followerBudget = 5 * time.Second
		answerAfter    = 700 * time.Millisecond
	)

	var release atomic.Bool
	zone.HoldUntil(release.Load, 3*time.Second)

	results := make([]auditPairResult, pairs)
	var wg sync.WaitGroup
	for i := range pairs {
		name := fmt.Sprintf("www-%d-%d.slow.test.", round, i)
		results[i].name = name
		wg.Add(2)
		go func() {
			defer wg.Done()
			ctx, cancel := leaderCtx()
			defer cancel()
			results[i].leader = h.handle(ctx, auditQuery(name))
		}()
		go func() {
			defer wg.Done()
			time.Sleep(followerJoin)
			ctx, cancel := context.WithTimeout(context.Background(), followerBudget)
			defer cancel()
			start := time.Now()
			results[i].follower = h.handle(ctx, auditQuery(name))
			results[i].followerIn = time.Since(start)
		}()
	}
	time.Sleep(answerAfter)
	release.Store(true)
	wg.Wait()
	return results
}

func auditNewSlowZone(t *testing.T, rounds, pairs int) (*DNSHandler, *hermeticZone, *auditFailureStore) {
	t.Helper()
	hnet := newHermeticNet(t)
	zone := hnet.Delegate("slow.test.")
	zone.Serve(mustRR(t, "warm.slow.test. 300 IN A 192.0.2.9"))
	for r := range rounds {
		for i := range pairs {
			zone.Serve(mustRR(t, fmt.Sprintf("www-%d-%d.slow.test. 300 IN A 192.0.2.10", r, i)))
		}
	}

	h := hnet.Handler()
	store := &auditFailureStore{}
	h.SetStore(middleware.Store(store))

	// Learn (and validate) the delegation first, so that the only upstream
	// work left for the audited queries is the final lookup at the zone's own
	// authority — the one the two clients share through singleflight.
	if warm := h.handle(context.Background(), auditQuery("warm.slow.test.")); warm == nil ||
		warm.Rcode != dns.RcodeSuccess || len(warm.Answer) == 0 {
		t.Fatalf("fixture broken: warm-up query did not resolve: %v", warm)
	}
	return h, zone, store
}

func auditCheck(t *testing.T, results []auditPairResult, store *auditFailureStore) (bad int) {
	t.Helper()
	for _, r := range results {
		if r.leader == nil || r.follower == nil {
			t.Fatalf("%s: a client received no reply at all (leader=%v follower=%v)", r.name, r.leader, r.follower)
		}
		if r.leader.Rcode != dns.RcodeServerFailure {
			t.Fatalf("fixture broken: %s leader was expected to expire, got rcode %d", r.name, r.leader.Rcode)
		}
		if r.follower.Rcode != dns.RcodeSuccess || len(r.follower.Answer) == 0 {
			bad++
			ede := dnsutil.GetEDE(r.follower)
			t.Errorf("%s: follower with a 5s budget was failed after %v by the LEADER's expiry: rcode=%s ede=%+v",
				r.name, r.followerIn.Round(time.Millisecond), dns.RcodeToString[r.follower.Rcode], ede)
		}
	}
	if zones := store.zones(); len(zones) > 0 {
		bad++
		t.Errorf("a healthy (slow) zone was published to the shared RFC 9520 failure store because another client's query budget expired: %v", zones)
	}
	return bad
}

// TestAuditExpiredLeaderFailsSingleflightFollowers uses nothing but stock
// context.WithTimeout contexts. Whether the socket deadline or the context
// timer is serviced first is up to the runtime, so several couples are run
// side by side (and a few rounds of them) — on the unmodified code a sizeable
// fraction of the followers is failed.
func TestAuditExpiredLeaderFailsSingleflightFollowers(t *testing.T) {
	const (
		rounds       = 4
		pairs        = 24
		leaderBudget = 300 * time.Millisecond
	)
	h, zone, store := auditNewSlowZone(t, rounds, pairs)

	for round := range rounds {
		results := auditRunPairs(t, h, zone, round, pairs, func() (context.Context, context.CancelFunc) {
			return context.WithTimeout(context.Background(), leaderBudget)
		})
		if bad := auditCheck(t, results, store); bad > 0 {
			t.Fatalf("round %d: an expired resolution was not confined to the client it belonged to", round)
		}
	}
}

// auditLaggingDeadline is a context whose Deadline is honest but whose Done
// channel closes a little late — what every deadline context looks like for
// the few microseconds (or, on a saturated machine, milliseconds) between the
// wall clock reaching the deadline and the runtime servicing the context's
// timer. contextutil.EffectiveError exists precisely because that window is
// real; this makes it wide enough to hit every time.
type auditLaggingDeadline struct {
	context.Context
	deadline time.Time
}

func (c auditLaggingDeadline) Deadline() (time.Time, bool) { return c.deadline, true }

// TestAuditExpiredLeaderFailsSingleflightFollowersTimerLag is the same
// scenario with the ordering pinned: the leader's context timer is serviced
// 50ms after its deadline.
func TestAuditExpiredLeaderFailsSingleflightFollowersTimerLag(t *testing.T) {
	const leaderBudget = 300 * time.Millisecond
	h, zone, store := auditNewSlowZone(t, 1, 1)

	results := auditRunPairs(t, h, zone, 0, 1, func() (context.Context, context.CancelFunc) {
		deadline := time.Now().Add(leaderBudget)
		inner, cancel := context.WithDeadline(context.Background(), deadline.Add(50*time.Millisecond))
		return auditLaggingDeadline{Context: inner, deadline: deadline}, cancel
	})
	if bad := auditCheck(t, results, store); bad > 0 {
		t.Fatalf("an expired resolution was not confined to the client it belonged to")
	}
}
