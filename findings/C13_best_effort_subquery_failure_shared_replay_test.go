package resolver

import (
	"context"
	"testing"

	"github.com/miekg/dns"
	"github.com/semihalev/sdns/config"
	"github.com/semihalev/sdns/internal/authority"
	"github.com/semihalev/sdns/middleware"
	cachemw "github.com/semihalev/sdns/middleware/cache"
)

// C13: "Failures local to one request (work-budget exhaustion, client deadline
// or cancellation, shed load, optional enrichment) never become shared state".
//
// The detached IPv6 nameserver-address discovery marks its whole request tree
// with middleware.WithBestEffortRecursionWork. Every other RFC 9520 writer
// honours that mark (cache.ResponseWriter.WriteMsg via
// cacheableResolutionFailure, Resolver.recordResolutionZoneFailure), but the
// resolver-private DS/DNSKEY path (Resolver.subQuery) hands the failing
// response straight to Store.SetFromResponseWithCut, which files it in the
// shared failure cache unconditionally.
func TestAuditBestEffortSubQueryFailureIsNotShared(t *testing.T) {
	// One authority for the root that refuses everything.
	wire := startAttackWireRecorder(t, func(dns.Question) *dns.Msg {
		return &dns.Msg{MsgHdr: dns.MsgHdr{Rcode: dns.RcodeRefused}}
	})
	root := &authority.Servers{
		Zone: ".",
		List: []*authority.Server{authority.NewServer(wire.addr(), authority.IPv4)},
	}
	r := newAttackHarnessResolver(root)

	cfg := &config.Config{CacheSize: 1024, Expire: 60}
	c := cachemw.New(cfg)
	defer c.Stop()
	store := c.Store()
	r.store.Store(&store)
	full := store.(*cachemw.Store)

	newDS := func() *dns.Msg {
		m := new(dns.Msg)
		m.SetQuestion("signed.example.", dns.TypeDS)
		m.SetEdns0(4096, true)
		return m
	}

	// The request tree of an optional-enrichment job.
	enrichment := middleware.WithBestEffortRecursionWork(context.Background())
	resp, err := r.subQuery(enrichment, newDS())
	if err != nil || resp == nil || resp.Rcode != dns.RcodeRefused {
		t.Fatalf("fixture: subQuery = %v, %v; want the upstream REFUSED", resp, err)
	}
	if wire.count() == 0 {
		t.Fatal("fixture: the authority was never asked")
	}

	if n := full.FailureLen(); n != 0 {
		t.Errorf("optional-enrichment failure became shared RFC 9520 state: FailureLen = %d, want 0", n)
	}

	// An independent, ordinary request tree must not be answered from it.
	before := wire.count()
	if hit, ok := full.GetWithContext(context.Background(), newDS()); ok {
		t.Errorf("independent request served a failure recorded by optional enrichment: rcode=%s, upstream asked %d more times",
			dns.RcodeToString[hit.Rcode], wire.count()-before)
	}
}
