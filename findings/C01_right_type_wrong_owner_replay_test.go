package resolver

import (
	"net"
	"testing"
	"time"

	"github.com/miekg/dns"
)

// auditTamper6 puts an on-path box in front of one hermetic server.
func auditTamper6(t *testing.T, s *hermeticServer, f func(q dns.Question, m *dns.Msg)) {
	t.Helper()
	orig := s.addr
	pc, err := net.ListenPacket("udp", "127.0.0.1:0")
	if err != nil {
		t.Fatal(err)
	}
	mux := dns.NewServeMux()
	mux.HandleFunc(".", func(w dns.ResponseWriter, r *dns.Msg) {
		c := &dns.Client{Net: "udp", Timeout: time.Second, UDPSize: 4096}
		resp, _, err := c.Exchange(r.Copy(), orig)
		if err != nil || resp == nil {
			return
		}
		f(r.Question[0], resp)
		resp.Id = r.Id
		_ = w.WriteMsg(resp)
	})
	srv := &dns.Server{Net: "udp", PacketConn: pc, Handler: mux}
	go func() { _ = srv.ActivateAndServe() }()
	time.Sleep(10 * time.Millisecond)
	t.Cleanup(func() { _ = srv.Shutdown() })
	s.addr = pc.LocalAddr().String()
}

func TestAuditC01RightTypeUnderAnotherOwnerAccepted(t *testing.T) {
	n := newHermeticNet(t)
	z := n.Delegate("secure.test.")
	z.Serve(mustRR(t, "www.secure.test. 300 IN A 192.0.2.10"))
	txt := mustRR(t, "www.secure.test. 300 IN TXT \"x\"")
	z.Serve(txt)
	tsig := z.key.sign(t, []dns.RR{txt})
	other := mustRR(t, "other.secure.test. 300 IN A 192.0.2.66")
	z.Serve(other)
	osig := z.key.sign(t, []dns.RR{other})
	auditTamper6(t, z.server, func(q dns.Question, m *dns.Msg) {
		if q.Name == "www.secure.test." && q.Qtype == dns.TypeA {
			m.Answer = []dns.RR{txt, tsig, other, osig}
		}
	})
	resp := hermeticAsk(t, n.Handler(), "www.secure.test.", dns.TypeA)
	if resp == nil {
		t.Fatal("no response")
	}
	if resp.Rcode == dns.RcodeSuccess && len(resp.Answer) > 0 {
		for _, rr := range resp.Answer {
			if (rr.Header().Rrtype == dns.TypeA || rr.Header().Rrtype == dns.TypeCNAME) && rr.Header().Name == "www.secure.test." {
				return
			}
		}
		t.Errorf("an A question was answered NOERROR (AD=%v) with records none of which is an A record or an alias OWNED BY THE NAME ASKED: %v", resp.AuthenticatedData, resp.Answer)
	}
}

