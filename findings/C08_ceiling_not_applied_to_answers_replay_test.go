package resolver

import (
	"context"
	"testing"
	"time"

	"github.com/miekg/dns"
	"github.com/semihalev/sdns/internal/cache"
	"github.com/semihalev/sdns/internal/mock"
	"github.com/semihalev/sdns/middleware"
	cachemw "github.com/semihalev/sdns/middleware/cache"
)

// TestAuditC08_TwelveHourCeilingNotAppliedToAnswers
//
// Property C08: a delegation is used for at most min(NS TTL, DS TTL,
// shallower cuts, 12 h ceiling) measured from the referral, and every answer
// learned through that delegation has stopped being served by the time the
// lease ends, even if its own TTL is longer.
//
// The delegation cache applies the 12 h ceiling (authority.Cache.SetUntil),
// but the cut deadline that the resolver reports to the answer cache
// (noteCut / ResponseMeta) is observedAt+NS TTL WITHOUT the ceiling. With a
// referral NS TTL of 2 days (what every TLD publishes) and an answer TTL of
// one day, the delegation lease ends after 12 h while the answer cache keeps
// serving the record for 24 h.
func TestAuditC08_TwelveHourCeilingNotAppliedToAnswers(t *testing.T) {
	var ignore int64

	softNeg := func(zone string) *dns.Msg {
		m := &dns.Msg{}
		m.Authoritative = true
		if zone == "." {
			m.Ns = []dns.RR{mustRR(t, ". 30 IN SOA a.root. hostmaster.root. 1 30 30 30 30")}
		} else {
			m.Ns = []dns.RR{mustRR(t, zone+" 30 IN SOA ns."+zone+" hostmaster."+zone+" 1 30 30 30 30")}
		}
		return m
	}

	// ghost. child: answers www.ghost. A with a one-day TTL.
	ghostAddr, stopGhost := startMockAuth(t, &ignore, func(q dns.Question) *dns.Msg {
		if q.Qtype == dns.TypeA && dns.CanonicalName(q.Name) == "www.ghost." {
			m := &dns.Msg{}
			m.Authoritative = true
			m.Answer = []dns.RR{mustRR(t, "www.ghost. 86400 IN A 192.0.2.55")}
			return m
		}
		return softNeg("ghost.")
	})
	defer stopGhost()

	// root: delegates ghost. with a two-day NS TTL (TLD style).
	rootAddr, stopRoot := startMockAuth(t, &ignore, func(q dns.Question) *dns.Msg {
		name := dns.CanonicalName(q.Name)
		if name == "." && q.Qtype == dns.TypeNS {
			m := &dns.Msg{}
			m.Authoritative = true
			m.Answer = []dns.RR{mustRR(t, ". 3600 IN NS a.root.")}
			return m
		}
		if q.Qtype == dns.TypeDS {
			return softNeg(".")
		}
		if dns.IsSubDomain("ghost.", name) {
			m := &dns.Msg{} // referral
			m.Ns = []dns.RR{mustRR(t, "ghost. 172800 IN NS ns.ghost.")}
			m.Extra = []dns.RR{mustRR(t, "ns.ghost. 172800 IN A 192.0.2.21")}
			return m
		}
		return softNeg(".")
	})
	defer stopRoot()

	remap := map[string]string{"192.0.2.21:53": ghostAddr}
	mapper := func(addr string) string {
		if to, ok := remap[addr]; ok {
			return to
		}
		return addr
	}

	base := makeTestConfig()
	cfg := *base
	cfg.RootServers = []string{rootAddr}
	cfg.Root6Servers = nil
	cfg.IPv6Access = false
	cfg.DNSSEC = "off"
	cfg.CacheSize = 1024
	cfg.Prefetch = 0
	cfg.RateLimit = 0

	h := New(&cfg)
	h.resolver.resolveTarget.Store(&mapper)

	cm := cachemw.New(&cfg)
	defer cm.Stop()
	sub := &chainQueryer{handlers: []middleware.Handler{h}}
	cm.SetPrefetchQueryer(sub)
	cm.SetQueryer(sub)

	req := new(dns.Msg)
	req.SetQuestion("www.ghost.", dns.TypeA)
	w := mock.NewWriter("udp", "127.0.0.1:0")
	ch := middleware.NewChain([]middleware.Handler{cm, h})
	ch.Reset(w, req)
	start := time.Now()
	ch.Next(context.Background())
	if !w.Written() {
		t.Fatal("no response written")
	}
	if resp := w.Msg(); resp.Rcode != dns.RcodeSuccess || len(resp.Answer) == 0 {
		t.Fatalf("expected a positive answer, got rcode=%s answers=%d", dns.RcodeToString[resp.Rcode], len(resp.Answer))
	}

	const ceiling = 12 * time.Hour

	// The delegation lease itself honours the 12 h ceiling. dnssec=off makes
	// the handler resolve with CD=1, so the delegation sits in the CD=1 bucket.
	deleg, err := h.resolver.delegations.Get(cache.Key(dns.Question{Name: "ghost.", Qtype: dns.TypeNS, Qclass: dns.ClassINET}, true))
	if err != nil {
		t.Fatalf("ghost. delegation not cached: %v", err)
	}
	leaseEnd := deleg.ExpiresAt
	if leaseEnd.After(time.Now().Add(ceiling)) {
		t.Fatalf("harness: delegation lease %s exceeds the 12 h ceiling", leaseEnd.Sub(start))
	}
	t.Logf("delegation lease ends in %s", time.Until(leaseEnd).Round(time.Second))

	// The answer learned through that delegation must have stopped being
	// served by the time the lease ends.
	store, ok := cm.Store().(*cachemw.Store)
	if !ok {
		t.Fatal("cache StoreProvider did not return *cache.Store")
	}
	probe := new(dns.Msg)
	probe.SetQuestion("www.ghost.", dns.TypeA)
	entry, ok := store.Lookup(probe)
	if !ok {
		t.Fatal("answer was not cached")
	}
	served := time.Duration(entry.TTL()) * time.Second
	t.Logf("answer cache will keep serving www.ghost. A for %s", served)
	if time.Now().Add(served).After(leaseEnd.Add(2 * time.Second)) {
		t.Fatalf("C08 violated: the delegation lease for ghost. ends in %s (12 h ceiling) but the answer "+
			"learned through it stays servable for %s — the 12 h ceiling is not applied to the cut "+
			"deadline handed to the answer cache",
			time.Until(leaseEnd).Round(time.Second), served)
	}
}
