package resolver

// Replays for three C01 findings on the unmodified code (all three FAILED before the repairs, pass after them).
// They use the repository's own hermetic signed-namespace fixture (newHermeticNet etc. in the package's test files).
// Run (nothing is written to the repository):
//   go test -overlay <overlay mapping middleware/resolver/zz_c01_replay_test.go to this file> -vet=off -run TestProbe ./middleware/resolver/

import (
	"testing"

	"github.com/miekg/dns"
)

// probe: DNSKEY RRset signed only by a key that is NOT anchored by the DS.
func TestProbeDNSKEYSelfSignedByUnanchoredKey(t *testing.T) {
	net := newHermeticNet(t)
	zone := net.Delegate("secure.test.")
	attacker := newHermeticKey(t, "secure.test.")
	attacker.key.Flags = 256

	keyset := []dns.RR{zone.key.key, attacker.key}
	zone.server.serve("secure.test.", dns.TypeDNSKEY, append(append([]dns.RR{}, keyset...), attacker.sign(t, keyset))...)
	a := mustRR(t, "www.secure.test. 300 IN A 203.0.113.66")
	zone.server.serve("www.secure.test.", dns.TypeA, a, attacker.sign(t, []dns.RR{a}))

	resp := hermeticAsk(t, net.Handler(), "www.secure.test.", dns.TypeA)
	t.Logf("rcode=%s ad=%v answer=%v", dns.RcodeToString[resp.Rcode], resp.AuthenticatedData, resp.Answer)
	if resp.Rcode != dns.RcodeServerFailure {
		t.Fatalf("forged data accepted: rcode=%s ad=%v", dns.RcodeToString[resp.Rcode], resp.AuthenticatedData)
	}
}

// probe: root-zone negative answer with all signatures stripped.
func TestProbeRootUnsignedNXDOMAIN(t *testing.T) {
	net := newHermeticNet(t)
	net.Delegate("secure.test.")
	soa := mustRR(t, ". 3600 IN SOA ns. hostmaster. 1 3600 600 86400 300")
	net.root.setSOAProof([]dns.RR{soa})
	net.root.setNXProof(nil)
	resp := hermeticAsk(t, net.Handler(), "nosuchtld.", dns.TypeA)
	t.Logf("rcode=%s ad=%v ns=%v", dns.RcodeToString[resp.Rcode], resp.AuthenticatedData, resp.Ns)
	if resp.Rcode != dns.RcodeServerFailure {
		t.Fatalf("unsigned root denial accepted: rcode=%s", dns.RcodeToString[resp.Rcode])
	}
}

// probe: signed zone, negative answer with EMPTY sections.
func TestProbeEmptyNXDOMAINUnderSignedZone(t *testing.T) {
	net := newHermeticNet(t)
	zone := net.Delegate("secure.test.")
	zone.Serve(mustRR(t, "www.secure.test. 300 IN A 192.0.2.10"))
	zone.server.setSOAProof(nil)
	zone.server.setNXProof(nil)
	resp := hermeticAsk(t, net.Handler(), "gone.secure.test.", dns.TypeA)
	t.Logf("rcode=%s ad=%v", dns.RcodeToString[resp.Rcode], resp.AuthenticatedData)
	if resp.Rcode != dns.RcodeServerFailure {
		t.Fatalf("proof-less denial accepted: rcode=%s", dns.RcodeToString[resp.Rcode])
	}
}
