package resolver

import (
	"context"
	"fmt"
	"net"
	"strings"
	"sync/atomic"
	"testing"
	"time"

	"github.com/miekg/dns"
	"github.com/semihalev/sdns/config"
	"github.com/semihalev/sdns/middleware"
)

// TestAuditRotatingReferralIPv6EnrichmentChainIsBounded checks the first
// clause of the property: "Resolving one client query performs a bounded
// amount of work whatever the DNS data looks like" (the examples it lists
// include ever-deeper referrals, nameserver cycles and huge NS sets, and the
// later sentence counts "detached helper lookups" as part of the request
// tree).
//
// The DNS data: the parent of evil. answers every question with a referral
// whose NS RRset has TTL 0 and names two fresh nameservers each time, with
// IPv4 glue and no AAAA. Such a referral is never kept in the delegation
// cache (its lease is already over) and answers below it are not cacheable.
//
// With IPv6 access enabled every processed referral starts a detached IPv6
// address-enrichment job (processDelegation -> lookupV6Nss). Two seconds
// later that job asks for the AAAA of each advertised nameserver; each of
// those lookups walks the referral again, is handed new nameserver names,
// and therefore starts another detached job - per nameserver. The detached
// context deliberately drops the parent's loop-detection values and restarts
// the sub-query depth at zero, and because every generation asks about new
// names the RFC 9520 per-question attempt guard never trips either.
//
// So one client query, answered in milliseconds, leaves behind a population
// of background jobs that doubles every two seconds and keeps sending
// upstream queries. Only enforce mode ties the chain to the request tree's
// budgets; in the default shadow mode, and with the firewall off, nothing
// ends it but the global detached-job cap.
func TestAuditRotatingReferralIPv6EnrichmentChainIsBounded(t *testing.T) {
	for _, mode := range []config.RecursionFirewallMode{
		config.RecursionFirewallModeShadow, // the default
		config.RecursionFirewallModeOff,
	} {
		mode := mode
		t.Run(string(mode), func(t *testing.T) {
			t.Parallel()

			const authGlue = "192.0.2.10"

			var referrals atomic.Int64
			var nsAAAAQuestions atomic.Int64

			// The parent: a fresh TTL-0 delegation on every answer.
			root := startAttackWireRecorder(t, func(q dns.Question) *dns.Msg {
				if !dns.IsSubDomain("evil.", q.Name) {
					return &dns.Msg{MsgHdr: dns.MsgHdr{Rcode: dns.RcodeRefused}}
				}
				gen := referrals.Add(1)
				if q.Qtype == dns.TypeAAAA && strings.HasPrefix(q.Name, "ns-") {
					nsAAAAQuestions.Add(1)
				}
				msg := new(dns.Msg)
				for _, suffix := range []string{"a", "b"} {
					host := fmt.Sprintf("ns-%d%s.evil.", gen, suffix)
					msg.Ns = append(msg.Ns, &dns.NS{
						Hdr: dns.RR_Header{Name: "evil.", Rrtype: dns.TypeNS, Class: dns.ClassINET, Ttl: 0},
						Ns:  host,
					})
					msg.Extra = append(msg.Extra, &dns.A{
						Hdr: dns.RR_Header{Name: host, Rrtype: dns.TypeA, Class: dns.ClassINET, Ttl: 3600},
						A:   net.ParseIP(authGlue).To4(),
					})
				}
				return msg
			})

			// The zone: answers A, has no AAAA for anything.
			soa := &dns.SOA{
				Hdr: dns.RR_Header{Name: "evil.", Rrtype: dns.TypeSOA, Class: dns.ClassINET, Ttl: 0},
				Ns:  "ns.evil.", Mbox: "h.evil.", Serial: 1, Refresh: 60, Retry: 60, Expire: 60, Minttl: 0,
			}
			zone := startAttackWireRecorder(t, func(q dns.Question) *dns.Msg {
				msg := &dns.Msg{MsgHdr: dns.MsgHdr{Authoritative: true}}
				if q.Qtype == dns.TypeA {
					msg.Answer = []dns.RR{&dns.A{
						Hdr: dns.RR_Header{Name: q.Name, Rrtype: dns.TypeA, Class: dns.ClassINET, Ttl: 60},
						A:   net.ParseIP(authGlue).To4(),
					}}
					return msg
				}
				msg.Ns = []dns.RR{soa}
				return msg
			})

			cfg := makeTestConfig()
			cfg.RootServers = []string{root.addr()}
			cfg.Root6Servers = nil
			cfg.RootKeys = nil
			cfg.DNSSEC = "off"
			cfg.IPv6Access = true
			cfg.Directory = t.TempDir()
			cfg.RecursionFirewall.Mode = mode
			handler := New(cfg)

			mapper := func(addr string) string {
				if addr == net.JoinHostPort(authGlue, "53") {
					return zone.addr()
				}
				return addr
			}
			handler.resolver.resolveTarget.Store(&mapper)
			var queryer middleware.Queryer = hermeticQueryer{handler: handler}
			handler.resolver.queryer.Store(&queryer)

			req := new(dns.Msg)
			req.SetQuestion("www.evil.", dns.TypeA)
			req.SetEdns0(1232, false)
			req.RecursionDesired = true

			ctx, cancel := context.WithTimeout(context.Background(), 5*time.Second)
			resp := handler.handle(ctx, req)
			cancel()
			if resp == nil || resp.Rcode != dns.RcodeSuccess || len(resp.Answer) == 0 {
				t.Fatalf("setup: client query did not resolve: %v", resp)
			}
			replied := time.Now()

			type sample struct {
				at        time.Duration
				jobs      int
				referrals int64
				nsAAAA    int64
				wire      int64
			}
			take := func() sample {
				return sample{
					at:        time.Since(replied).Round(100 * time.Millisecond),
					jobs:      len(handler.resolver.v6LookupSlots),
					referrals: referrals.Load(),
					nsAAAA:    nsAAAAQuestions.Load(),
					wire:      root.count() + zone.count(),
				}
			}

			// The client has its answer. Whatever detached enrichment this one
			// query is entitled to has to come to an end.
			var samples []sample
			for _, at := range []time.Duration{500 * time.Millisecond, 5 * time.Second, 9500 * time.Millisecond} {
				time.Sleep(time.Until(replied.Add(at)))
				samples = append(samples, take())
			}
			for _, s := range samples {
				t.Logf("mode=%s +%v: detached IPv6 jobs in flight=%d, referrals served=%d, "+
					"nameserver-AAAA questions at the parent=%d, upstream packets=%d",
					mode, s.at, s.jobs, s.referrals, s.nsAAAA, s.wire)
			}

			mid, last := samples[1], samples[2]
			if last.jobs > 0 || last.wire > mid.wire {
				t.Fatalf("mode=%s: one client query is still producing work %v after it was answered: "+
					"detached IPv6 jobs in flight %d -> %d -> %d, upstream packets %d -> %d -> %d "+
					"(each detached job re-walks the TTL-0 referral, is given new nameserver names, and starts the next jobs)",
					mode, last.at,
					samples[0].jobs, mid.jobs, last.jobs,
					samples[0].wire, mid.wire, last.wire)
			}
		})
	}
}
