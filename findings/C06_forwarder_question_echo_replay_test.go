package forwarder

import (
	"context"
	"net"
	"strings"
	"testing"

	"github.com/miekg/dns"
	"github.com/semihalev/sdns/config"
	"github.com/semihalev/sdns/internal/mock"
	"github.com/semihalev/sdns/middleware"
	"github.com/semihalev/sdns/middleware/edns"
)

// startCaseFoldingUpstream is an upstream that answers correctly but
// normalizes the question name to lower case in its reply - behaviour seen
// from real servers and middleboxes, and the reason 0x20-using resolvers keep
// exception lists. The forwarder accepts such a reply (its question check is
// case-insensitive), so what it then hands the client is what matters.
func startCaseFoldingUpstream(t *testing.T) (addr string, stop func()) {
	t.Helper()

	mux := dns.NewServeMux()
	mux.HandleFunc(".", func(w dns.ResponseWriter, r *dns.Msg) {
		m := new(dns.Msg)
		m.SetReply(r)
		m.RecursionAvailable = true
		name := strings.ToLower(r.Question[0].Name)
		m.Question = []dns.Question{{Name: name, Qtype: r.Question[0].Qtype, Qclass: r.Question[0].Qclass}}
		if rr, err := dns.NewRR(name + " 60 IN A 192.0.2.53"); err == nil {
			m.Answer = []dns.RR{rr}
		}
		_ = w.WriteMsg(m)
	})

	pc, err := net.ListenPacket("udp", "127.0.0.1:0")
	if err != nil {
		t.Fatalf("listen udp: %v", err)
	}
	s := &dns.Server{Net: "udp", Handler: mux, PacketConn: pc}
	go func() { _ = s.ActivateAndServe() }()
	return pc.LocalAddr().String(), func() { _ = s.Shutdown() }
}

func TestAuditForwardedReplyDoesNotEchoClientQuestion(t *testing.T) {
	addr, stop := startCaseFoldingUpstream(t)
	defer stop()

	f := &Forwarder{servers: []*server{{Addr: addr, Proto: "udp"}}}
	handlers := []middleware.Handler{edns.New(&config.Config{}), f}

	const asked = "wWw.ExAmPlE.cOm."
	req := new(dns.Msg)
	req.SetQuestion(asked, dns.TypeA)
	req.SetEdns0(1232, false)

	w := mock.NewWriter("udp", "10.9.0.9:0")
	ch := middleware.NewChain(handlers)
	ch.Reset(w, req)
	ch.Next(context.Background())

	if !w.Written() {
		t.Fatal("query was not answered")
	}
	resp := w.Msg()
	if resp.Rcode != dns.RcodeSuccess || len(resp.Answer) != 1 {
		t.Fatalf("unexpected reply: rcode=%s answers=%d", dns.RcodeToString[resp.Rcode], len(resp.Answer))
	}
	if len(resp.Question) != 1 {
		t.Fatalf("reply has %d questions, want 1", len(resp.Question))
	}
	if got := resp.Question[0].Name; got != asked {
		t.Errorf("C06: reply question %q does not echo the query's question %q", got, asked)
	}
}
