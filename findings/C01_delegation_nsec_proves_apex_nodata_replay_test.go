package resolver

import (
	"net"
	"testing"
	"time"

	"github.com/miekg/dns"
)

// auditC01Tamper3 puts an on-path box in front of one hermetic authority: it
// relays the query to the real server and lets f rewrite the reply before the
// resolver sees it. Must be called before net.Handler() builds the resolver.
func auditC01Tamper3(t *testing.T, s *hermeticServer, f func(q dns.Question, m *dns.Msg)) {
	t.Helper()
	orig := s.addr
	pc, err := net.ListenPacket("udp", "127.0.0.1:0")
	if err != nil {
		t.Fatalf("listen: %v", err)
	}
	mux := dns.NewServeMux()
	mux.HandleFunc(".", func(w dns.ResponseWriter, r *dns.Msg) {
		c := &dns.Client{Net: "udp", Timeout: time.Second, UDPSize: 4096}
		resp, _, err := c.Exchange(r.Copy(), orig)
		if err != nil || resp == nil {
			return
		}
		f(r.Question[0], resp)
		resp.Id = r.Id
		_ = w.WriteMsg(resp)
	})
	srv := &dns.Server{Net: "udp", PacketConn: pc, Handler: mux}
	go func() { _ = srv.ActivateAndServe() }()
	time.Sleep(10 * time.Millisecond)
	t.Cleanup(func() { _ = srv.Shutdown() })
	s.addr = pc.LocalAddr().String()
}

// C01: "every answer or denial sdns returns for a name under an unbroken
// signed chain from the configured trust anchors is exactly what that zone's
// signer published" / "... or missing its DS or denial proof, the client gets
// SERVFAIL".
//
// secure.test. is a signed child of the signed root and publishes an A record
// at its apex. The PARENT's NSEC at the delegation point (owner secure.test.,
// bitmap NS DS RRSIG NSEC - NS set, SOA clear) is genuine, signed by the root,
// and obtainable by anyone. RFC 6840 section 4.1 / RFC 4035 section 5.4: such
// an "ancestor delegation" NSEC proves nothing about the name except the
// absence of DS. An on-path attacker answers the resolver's question to the
// root (which should have been a referral) with NOERROR + root SOA + that
// NSEC. VerifyNODATANSEC (and the NSEC3 twin) only look at the qtype/CNAME
// bits of the exact-owner record, so the denial validates and the client is
// told, with AD=1, that secure.test. has no A record - which the zone's own
// signer never said.
func TestAuditC01AncestorDelegationNSECProvesNODATA(t *testing.T) {
	n := newHermeticNet(t)
	z := n.Delegate("secure.test.")
	z.Serve(mustRR(t, "secure.test. 300 IN A 192.0.2.10")) // the truth, signed by the child

	// The record an NSEC-signed parent publishes for a secure delegation.
	nsec := &dns.NSEC{
		Hdr:        dns.RR_Header{Name: "secure.test.", Rrtype: dns.TypeNSEC, Class: dns.ClassINET, Ttl: 3600},
		NextDomain: "zz.test.",
		TypeBitMap: []uint16{dns.TypeNS, dns.TypeDS, dns.TypeRRSIG, dns.TypeNSEC},
	}
	nsecSig := n.rootKey.sign(t, []dns.RR{nsec})
	n.root.mu.Lock()
	rootSOA := append([]dns.RR{}, n.root.soaProof...) // root SOA + its RRSIG, genuine
	n.root.mu.Unlock()

	auditC01Tamper3(t, n.root, func(q dns.Question, m *dns.Msg) {
		if q.Name == "secure.test." && q.Qtype == dns.TypeA {
			// Replace the referral by a replayed, fully signed "NODATA".
			m.Authoritative = true
			m.Rcode = dns.RcodeSuccess
			m.Answer, m.Extra = nil, nil
			m.Ns = append(append([]dns.RR{}, rootSOA...), nsec, nsecSig)
		}
	})

	resp := hermeticAsk(t, n.Handler(), "secure.test.", dns.TypeA)

	if resp.Rcode == dns.RcodeSuccess && len(resp.Answer) == 0 {
		t.Fatalf("client was told secure.test. has no A record (NOERROR/NODATA, AD=%v) on the strength of the "+
			"parent's delegation-point NSEC (NS set, SOA clear); the child zone publishes that A record. "+
			"Want SERVFAIL.", resp.AuthenticatedData)
	}
	if resp.Rcode != dns.RcodeServerFailure {
		t.Fatalf("rcode = %s, want SERVFAIL", dns.RcodeToString[resp.Rcode])
	}
	_ = z
}
