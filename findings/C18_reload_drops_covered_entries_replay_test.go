package blocklist

import (
	"reflect"
	"testing"

	"github.com/semihalev/sdns/config"
)

// C18: "After any interleaving of API additions, removals and batch updates
// has completed, the persisted local list reloads to exactly the in-memory
// list."
//
// Set/SetBatch store every requested entry (setLocked never consults Exists),
// and persist writes all of them, but the reload path (parseHostFile) only
// stores a line when the name is not already blocked: `if !b.Exists(c) {
// b.set(c) }`. So an entry that is covered by another entry is in memory and
// in the file, and is dropped on reload. persist writes plain entries before
// wildcard ones, so "example.com" followed by "*.example.com" loses the
// wildcard deterministically.
func TestAuditReloadDropsCoveredEntries(t *testing.T) {
	cfg := new(config.Config)
	cfg.Nullroute = "0.0.0.0"
	cfg.Nullroutev6 = "::0"
	cfg.BlockListDir = t.TempDir()

	b1 := New(cfg)
	if !b1.Set("example.com") || !b1.Set("*.example.com") {
		t.Fatal("Set failed")
	}

	b2 := New(cfg) // reload from the persisted local file

	if !reflect.DeepEqual(b1.m, b2.m) || !reflect.DeepEqual(b1.wild, b2.wild) {
		t.Errorf("reloaded list differs from the in-memory list:\n in memory: plain=%v wildcard=%v\n reloaded : plain=%v wildcard=%v", b1.m, b1.wild, b2.m, b2.wild)
	}

	// The difference is observable: the same later removal leaves the two
	// instances blocking different names.
	b1.Remove("example.com")
	b2.Remove("example.com")
	if got, want := b2.Exists("sub.example.com."), b1.Exists("sub.example.com."); got != want {
		t.Errorf("after Remove(example.com): reloaded instance blocks sub.example.com. = %v, original instance = %v", got, want)
	}
}
