package resolver

import (
	"context"
	"crypto"
	"net"
	"os"
	"path/filepath"
	"testing"
	"time"

	"github.com/miekg/dns"
	"github.com/semihalev/sdns/config"
)

type a2Key struct {
	key  *dns.DNSKEY
	priv crypto.Signer
}

func a2NewKSK(t *testing.T) a2Key {
	t.Helper()
	k := &dns.DNSKEY{
		Hdr:       dns.RR_Header{Name: ".", Rrtype: dns.TypeDNSKEY, Class: dns.ClassINET, Ttl: 3600},
		Flags:     257,
		Protocol:  3,
		Algorithm: dns.ED25519,
	}
	priv, err := k.Generate(256)
	if err != nil {
		t.Fatalf("generate DNSKEY: %v", err)
	}
	return a2Key{key: k, priv: priv.(crypto.Signer)}
}

func (k a2Key) sign(t *testing.T, rrset []dns.RR) *dns.RRSIG {
	t.Helper()
	now := time.Now()
	sig := &dns.RRSIG{
		Hdr:         dns.RR_Header{Name: ".", Rrtype: dns.TypeRRSIG, Class: dns.ClassINET, Ttl: 3600},
		TypeCovered: dns.TypeDNSKEY,
		Algorithm:   k.key.Algorithm,
		OrigTtl:     3600,
		Expiration:  uint32(now.Add(6 * time.Hour).Unix()),  //nolint:gosec // test
		Inception:   uint32(now.Add(-6 * time.Hour).Unix()), //nolint:gosec // test
		KeyTag:      k.key.KeyTag(),
		SignerName:  ".",
	}
	if err := sig.Sign(k.priv, rrset); err != nil {
		t.Fatalf("sign DNSKEY RRset: %v", err)
	}
	return sig
}

func a2Trusts(r *Resolver, k *dns.DNSKEY) bool {
	r.RLock()
	defer r.RUnlock()
	for _, rr := range r.rootKeys {
		if have, ok := rr.(*dns.DNSKEY); ok && have.PublicKey == k.PublicKey && have.Algorithm == k.Algorithm {
			return true
		}
	}
	return false
}

// TestAuditC09RestartRepublishesTombstonedConfiguredKey:
//
// "A key whose self-signed revocation was accepted is never published as a
// trust anchor again - not after restarts, ... configuration that still lists
// it".
//
// NewResolver copies cfg.RootKeys verbatim into the live trust set r.rootKeys
// without consulting the tombstone store. The tombstone filter only runs
// inside AutoTA, which the background run() goroutine reaches after waiting for
// middleware.Ready() and after checkPriming() has finished its network round
// trips (seconds when the roots are slow or unreachable). The resolver is
// serving queries during that whole window, and verifyRootKeys — the check
// that authenticates the root DNSKEY RRset for every validated lookup — accepts
// a DNSKEY RRset signed by nothing but the revoked key.
func TestAuditC09RestartRepublishesTombstonedConfiguredKey(t *testing.T) {
	dir, err := os.MkdirTemp("", "sdns-audit-c09-2-")
	if err != nil {
		t.Fatal(err)
	}
	t.Cleanup(func() { _ = os.RemoveAll(dir) })

	revokedKey := a2NewKSK(t) // K: revoked earlier, config never updated
	activeKey := a2NewKSK(t)  // A: current anchor

	// Durable state left behind by the previous process, as AutoTA writes it
	// after accepting K's self-signed revocation: K tombstoned, A valid.
	revokedForm := *revokedKey.key
	revokedForm.Flags |= DNSKEYFlagRevoke
	if err := writeTombstones(filepath.Join(dir, tombstoneFile), Tombstones{
		dnskeyMaterialFP(&revokedForm): {DNSKey: &revokedForm, FirstSeen: time.Now().Add(-48 * time.Hour)},
	}); err != nil {
		t.Fatalf("seed tombstones: %v", err)
	}
	if err := writeToTAFile(filepath.Join(dir, stateFile), TrustAnchors{
		activeKey.key.KeyTag(): {DNSKey: activeKey.key, State: StateValid, FirstSeen: time.Now().Add(-400 * 24 * time.Hour)},
	}); err != nil {
		t.Fatalf("seed state: %v", err)
	}

	// Make the process look like a running server: once the middleware
	// pipeline is ready (package helper), the resolver's background goroutine
	// proceeds to checkPriming() and only then to AutoTA().
	_ = makeTestConfig()

	// A root that is slow to answer (here: never answers), so priming takes as
	// long as it can in production when the roots are slow or unreachable.
	silent, err := net.ListenPacket("udp", "127.0.0.1:0")
	if err != nil {
		t.Fatal(err)
	}
	t.Cleanup(func() { _ = silent.Close() })

	// Restart with configuration that still lists the revoked key.
	cfg := new(config.Config)
	cfg.RootServers = []string{silent.LocalAddr().String()}
	cfg.RootKeys = []string{revokedKey.key.String(), activeKey.key.String()}
	cfg.DNSSEC = "on"
	cfg.Maxdepth = 30
	cfg.Expire = 600
	cfg.CacheSize = 1024
	cfg.Timeout.Duration = 2 * time.Second
	cfg.Directory = dir

	r := NewResolver(cfg)

	// The resolver is now constructed and (once the pipeline is ready) serving.
	if a2Trusts(r, revokedKey.key) {
		t.Errorf("after restart the live trust set contains the tombstoned key (tag %d) that config still lists", revokedKey.key.KeyTag())
	}

	// And it stays there while the (ready) server primes its root list.
	time.Sleep(time.Second)
	if a2Trusts(r, revokedKey.key) {
		t.Errorf("one second into serving, the tombstoned key is still a live trust anchor (AutoTA has not run yet)")
	}

	// What that means for validation: a root DNSKEY RRset signed ONLY by the
	// revoked key is accepted as authentic.
	attackerKey := a2NewKSK(t)
	forged := new(dns.Msg)
	forged.SetQuestion(".", dns.TypeDNSKEY)
	forged.Response = true
	rrset := []dns.RR{revokedKey.key, attackerKey.key}
	forged.Answer = append(rrset, revokedKey.sign(t, rrset))
	ok, verr := r.verifyRootKeys(context.Background(), forged)
	if ok {
		t.Errorf("verifyRootKeys accepted a root DNSKEY RRset authenticated only by the revoked (tombstoned) key")
	} else {
		t.Logf("verifyRootKeys rejected: %v", verr)
	}
}
