package server

import (
	"context"
	"errors"
	"net"
	"os"
	"sync/atomic"
	"testing"
	"time"

	"github.com/miekg/dns"
	"github.com/semihalev/sdns/config"
	"github.com/semihalev/sdns/middleware"
	"github.com/semihalev/sdns/middleware/cache"
	"github.com/semihalev/sdns/middleware/edns"
	"github.com/semihalev/sdns/middleware/resolver"
)

// C11 audit: "A query that is admitted ... receives exactly one reply, never
// two, no later than the configured query timeout plus a small scheduling
// margin, regardless of upstream behaviour - silence, slowness, truncation,
// resets, garbage, answers to the wrong question".
//
// An authority that answers with an EXTENDED rcode — BADCOOKIE (23) from a
// server that enforces DNS cookies, BADVERS (16), BADKEY (17)... ; the upper
// bits travel in the OPT record — is an ordinary, well-formed upstream reply.
// The resolver keeps it as the lookup's fallback response and
// DNSHandler.handle hands it to the client chain with Rcode 23 intact (only
// REFUSED and NOTZONE are mapped to SERVFAIL). For a client that did not use
// EDNS the edns writer strips the OPT, and a message whose Rcode is above 15
// without an OPT cannot be packed ("dns: bad extended rcode"). The chain's
// base writer has already marked the response written, the transport's
// WriteMsg returns the pack error, nothing is sent and the job is released:
// the admitted query gets NO reply at all, over UDP and over TCP, and the
// client is left to time out.

// auditCookieEnforcingAuthority is a loopback authority that answers the
// resolver's priming query and refuses every other query with the given rcode
// — BADCOOKIE is what a cookie-enforcing server sends a client that presented
// no valid server cookie.
func auditCookieEnforcingAuthority(t *testing.T, rcode int, asked *atomic.Int64) string {
	t.Helper()
	pc, err := net.ListenPacket("udp", "127.0.0.1:0")
	if err != nil {
		t.Fatalf("listen udp: %v", err)
	}
	mux := dns.NewServeMux()
	mux.HandleFunc(".", func(w dns.ResponseWriter, r *dns.Msg) {
		if q := r.Question[0]; q.Name == "." && q.Qtype == dns.TypeNS {
			// The resolver's start-up priming query: answer it properly so
			// that priming leaves no failure state behind.
			reply := new(dns.Msg)
			reply.SetReply(r)
			reply.Authoritative = true
			ns, _ := dns.NewRR(". 3600 IN NS a.root.")
			reply.Answer = []dns.RR{ns}
			_ = w.WriteMsg(reply)
			return
		}
		asked.Add(1)
		reply := new(dns.Msg)
		reply.SetRcode(r, rcode)
		if rcode > 0xF {
			// An extended rcode's upper bits live in the OPT record.
			reply.SetEdns0(1232, false)
		}
		_ = w.WriteMsg(reply)
	})
	s := &dns.Server{Net: "udp", PacketConn: pc, Handler: mux}
	go func() { _ = s.ActivateAndServe() }()
	t.Cleanup(func() { _ = s.Shutdown() })
	time.Sleep(10 * time.Millisecond)
	return pc.LocalAddr().String()
}

func auditStartResolvingServer(t *testing.T, root string) (udpAddr, tcpAddr string) {
	t.Helper()

	middleware.Reset()
	t.Cleanup(middleware.Reset)
	middleware.Register("edns", func(cfg *config.Config) middleware.Handler { return edns.New(cfg) })
	middleware.Register("cache", func(cfg *config.Config) middleware.Handler { return cache.New(cfg) })
	middleware.Register("resolver", func(cfg *config.Config) middleware.Handler { return resolver.New(cfg) })

	dir, err := os.MkdirTemp("", "sdns-audit-")
	if err != nil {
		t.Fatal(err)
	}
	t.Cleanup(func() { _ = os.RemoveAll(dir) })

	cfg := &config.Config{
		Bind:        "127.0.0.1:0",
		RootServers: []string{root},
		DNSSEC:      "off",
		CacheSize:   1024,
		Expire:      600,
		Maxdepth:    30,
		Directory:   dir,
	}
	cfg.Timeout.Duration = 2 * time.Second
	cfg.QueryTimeout.Duration = 2 * time.Second
	middleware.Setup(cfg)
	s := New(cfg)

	ctx, cancel := context.WithCancel(context.Background())
	udp := s.listeners[0].(*udpListener)
	tcp := s.listeners[1].(*tcpListener)
	if err := udp.Bind(ctx); err != nil {
		t.Fatal(err)
	}
	if err := tcp.Bind(ctx); err != nil {
		t.Fatal(err)
	}
	go func() { _ = udp.Serve(ctx) }()
	go func() { _ = tcp.Serve(ctx) }()
	t.Cleanup(func() {
		sctx, scancel := context.WithTimeout(context.Background(), time.Second)
		defer scancel()
		_ = udp.Shutdown(sctx)
		_ = tcp.Shutdown(sctx)
		cancel()
	})

	udp.mu.Lock()
	udpAddr = udp.pcs[0].LocalAddr().String()
	udp.mu.Unlock()
	tcp.mu.Lock()
	tcpAddr = tcp.ln.Addr().String()
	tcp.mu.Unlock()

	// Wait until both listeners answer. qtype ANY is refused by the resolver
	// (NOTIMP) before any upstream work, so the warm-up leaves the upstream
	// path and the failure cache untouched.
	for _, probe := range []struct{ net, addr string }{{"udp", udpAddr}, {"tcp", tcpAddr}} {
		up := false
		for range 40 {
			req := new(dns.Msg)
			req.SetQuestion("warmup.invalid.", dns.TypeANY)
			req.SetEdns0(1232, false)
			c := &dns.Client{Net: probe.net, Timeout: 3 * time.Second}
			if _, _, err := c.Exchange(req, probe.addr); err == nil {
				up = true
				break
			}
			time.Sleep(50 * time.Millisecond)
		}
		if !up {
			t.Fatalf("fixture broken: %s listener never answered", probe.net)
		}
	}
	return udpAddr, tcpAddr
}

func TestAuditExtendedRcodeFromUpstreamLeavesPlainClientUnanswered(t *testing.T) {
	// The configured query timeout is 2s; a stub client waiting 3s has given
	// the server its whole budget and a generous margin on top.
	const clientPatience = 3 * time.Second

	for _, transport := range []string{"udp", "tcp"} {
		t.Run(transport, func(t *testing.T) {
			var asked atomic.Int64
			root := auditCookieEnforcingAuthority(t, dns.RcodeBadCookie, &asked)
			udpAddr, tcpAddr := auditStartResolvingServer(t, root)
			addr := udpAddr
			if transport == "tcp" {
				addr = tcpAddr
			}
			c := &dns.Client{Net: transport, Timeout: clientPatience}

			// The audited query: well-formed, class IN, type A, RD=1, no OPT —
			// what a plain stub resolver sends.
			req := new(dns.Msg)
			req.SetQuestion("www.example.", dns.TypeA)
			start := time.Now()
			resp, _, err := c.Exchange(req, addr)
			elapsed := time.Since(start).Round(time.Millisecond)
			if asked.Load() == 0 {
				t.Fatalf("fixture broken: the upstream was never consulted for the audited query")
			}

			// The server is alive and well afterwards: the very next client
			// (EDNS or not) is answered at once.
			after := new(dns.Msg)
			after.SetQuestion("www.example.", dns.TypeA)
			if again, _, aerr := c.Exchange(after, addr); aerr != nil {
				t.Errorf("follow-up query got no reply either: %v", aerr)
			} else {
				t.Logf("follow-up client: reply rcode=%s", dns.RcodeToString[again.Rcode])
			}

			if err != nil {
				var ne net.Error
				if errors.As(err, &ne) && ne.Timeout() {
					t.Fatalf("admitted %s query received NO reply within %v (query timeout is 2s) after the upstream answered BADCOOKIE (upstream was asked %d time(s)): %v",
						transport, elapsed, asked.Load(), err)
				}
				t.Fatalf("admitted %s query failed after %v: %v", transport, elapsed, err)
			}
			t.Logf("plain client: reply rcode=%s after %v", dns.RcodeToString[resp.Rcode], elapsed)
		})
	}
}
