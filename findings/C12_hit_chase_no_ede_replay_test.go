package cache

import (
	"context"
	"errors"
	"testing"

	"github.com/miekg/dns"
	"github.com/semihalev/sdns/config"
	"github.com/semihalev/sdns/internal/dnsutil"
	"github.com/semihalev/sdns/internal/mock"
	"github.com/semihalev/sdns/middleware"
	"github.com/semihalev/sdns/middleware/edns"
)

type auditLimitQueryer struct {
	err   error
	calls int
}

func (q *auditLimitQueryer) Query(context.Context, *dns.Msg) (*dns.Msg, error) {
	q.calls++
	return nil, q.err
}

// TestAuditCacheHitChaseOverBudgetCarriesEDE drives the property clause
// "the over-budget reply is a SERVFAIL (with an Extended DNS Error for EDNS
// clients)" through the cache-HIT route: a cached alias whose target is no
// longer cached is chased from handleCacheHit, the chase runs out of budget
// in enforce mode, and the EDNS client must still see the policy EDE exactly
// as it does on the cache-miss route.
func TestAuditCacheHitChaseOverBudgetCarriesEDE(t *testing.T) {
	cfg := &config.Config{CacheSize: 1024, Expire: 300}
	c := New(cfg)
	defer c.Stop()

	const alias = "alias-hit.example."
	q := dns.Question{Name: alias, Qtype: dns.TypeA, Qclass: dns.ClassINET}

	// 1. Admit the alias (CNAME only, target not cached) exactly the way a
	// previous successful resolution leaves it once the target's own short
	// TTL has run out.
	stored := new(dns.Msg)
	stored.SetQuestion(alias, dns.TypeA)
	stored.Response = true
	stored.RecursionAvailable = true
	stored.Answer = []dns.RR{&dns.CNAME{
		Hdr:    dns.RR_Header{Name: alias, Rrtype: dns.TypeCNAME, Class: dns.ClassINET, Ttl: 300},
		Target: "target.example.",
	}}
	key := CacheKey{Question: q, CD: false}.Hash()
	c.Set(key, stored)
	if _, ok := c.store.LookupByKey(key); !ok {
		t.Fatal("setup: alias entry was not admitted")
	}

	// 2. An enforce-mode request tree whose budget is already spent: the
	// chase's internal sub-query is rejected.
	ledger := middleware.NewRecursionWorkLedger(middleware.RecursionWorkPolicy{
		Mode:               middleware.RecursionWorkEnforce,
		MaxOutboundQueries: 1,
		MaxInternalQueries: 1,
	})
	if err := ledger.Debit(middleware.RecursionWorkInternalQuery); err != nil {
		t.Fatal(err)
	}
	limitErr := ledger.Debit(middleware.RecursionWorkInternalQuery)
	if !errors.Is(limitErr, middleware.ErrRecursionWorkLimit) {
		t.Fatalf("setup: second debit = %v, want work limit", limitErr)
	}
	ctx := middleware.WithRecursionWork(context.Background(), ledger)
	queryer := &auditLimitQueryer{err: limitErr}
	c.SetQueryer(queryer)

	downstreamCalled := false
	downstream := middleware.HandlerFunc(func(_ context.Context, ch *middleware.Chain) {
		downstreamCalled = true
		ch.Cancel()
	})

	// 3. An EDNS client asks for the alias. The real edns middleware sits in
	// front of the cache, as in the default pipeline.
	req := new(dns.Msg)
	req.SetQuestion(alias, dns.TypeA)
	req.SetEdns0(dnsutil.DefaultMsgSize, true)
	writer := mock.NewWriter("udp", "192.0.2.1:53000")
	chain := middleware.NewChain([]middleware.Handler{edns.New(cfg), c, downstream})
	chain.Reset(writer, req)
	chain.Next(ctx)

	if downstreamCalled {
		t.Fatal("setup: request missed the cache; the hit route was not exercised")
	}
	if queryer.calls != 1 {
		t.Fatalf("setup: chase sub-queries = %d, want 1", queryer.calls)
	}
	got := writer.Msg()
	if got == nil || got.Rcode != dns.RcodeServerFailure {
		t.Fatalf("over-budget reply = %#v, want SERVFAIL", got)
	}
	if got.IsEdns0() == nil {
		t.Fatal("EDNS client got a reply without OPT")
	}
	ede := dnsutil.GetEDE(got)
	if ede == nil {
		t.Fatalf("over-budget SERVFAIL on the cache-hit chase route carries no Extended DNS Error for an EDNS client:\n%v", got)
	}
	if ede.InfoCode != middleware.RecursionWorkEDECode || ede.ExtraText != middleware.RecursionWorkEDEText {
		t.Fatalf("EDE = (%d,%q), want (%d,%q)", ede.InfoCode, ede.ExtraText,
			middleware.RecursionWorkEDECode, middleware.RecursionWorkEDEText)
	}
}
