package server

import (
	"context"
	"net"
	"testing"
	"time"

	"github.com/miekg/dns"
	"github.com/semihalev/sdns/config"
	"github.com/semihalev/sdns/middleware"
	"github.com/semihalev/sdns/middleware/cache"
	"github.com/semihalev/sdns/middleware/edns"
)

// audit2SilentUpstream stands in for the resolver in front of authorities
// that never answer: it waits out the query's own budget (the context the
// server and the cache hand it) and then reports SERVFAIL, exactly as
// resolver.DNSHandler does when every exchange runs into the deadline.
type audit2SilentUpstream struct{}

func (audit2SilentUpstream) Name() string { return "audit2-silent-upstream" }

func (audit2SilentUpstream) ServeDNS(ctx context.Context, ch *middleware.Chain) {
	ctx, req := ch.Materialize(ctx)
	if req == nil {
		return
	}
	<-ctx.Done()
	resp := new(dns.Msg)
	resp.SetRcode(req, dns.RcodeServerFailure)
	_ = ch.Writer.WriteMsg(resp)
	ch.Cancel()
}

// TestAuditQueuedQueryExpiresWithoutAnyReply: small concurrency limits
// (ingressworkers=1, ingressqueue=4) and a silent upstream. The first query
// occupies the only worker for the whole query timeout. Four more distinct
// queries arrive meanwhile; the ready queue has room for all of them, so none
// is shed: each holds a slab and is counted in flight. When the worker gets
// to them their budget (anchored at arrival) is spent - and Server.serveWire /
// serveMsgBy / ServeRawReplay just return on an expired context, writing
// nothing. C11 says an expired resolution surfaces as SERVFAIL to that
// client, and that every admitted query receives exactly one reply.
func TestAuditQueuedQueryExpiresWithoutAnyReply(t *testing.T) {
	const queryTimeout = 400 * time.Millisecond

	middleware.Reset()
	t.Cleanup(middleware.Reset)
	middleware.Register("edns", func(cfg *config.Config) middleware.Handler { return edns.New(cfg) })
	middleware.Register("cache", func(cfg *config.Config) middleware.Handler { return cache.New(cfg) })
	middleware.Register("audit2-silent-upstream", func(*config.Config) middleware.Handler { return audit2SilentUpstream{} })
	cfg := &config.Config{
		Bind: "127.0.0.1:0", CacheSize: 1024, Expire: 60,
		IngressWorkers: 1, IngressQueue: 4,
	}
	cfg.QueryTimeout.Duration = queryTimeout
	middleware.Setup(cfg)
	s := New(cfg)

	ctx, cancel := context.WithCancel(context.Background())
	defer cancel()
	udp, ok := s.listeners[0].(*udpListener)
	if !ok {
		t.Fatalf("listener 0 is %T, want the UDP listener", s.listeners[0])
	}
	if err := udp.Bind(ctx); err != nil {
		t.Fatal(err)
	}
	go func() { _ = udp.Serve(ctx) }()
	t.Cleanup(func() {
		sctx, scancel := context.WithTimeout(context.Background(), time.Second)
		defer scancel()
		_ = udp.Shutdown(sctx)
	})
	udp.mu.Lock()
	addr := udp.pcs[0].LocalAddr().String()
	engine := udp.engine
	udp.mu.Unlock()
	for i := 0; i < 400 && !udp.Serving(); i++ {
		time.Sleep(5 * time.Millisecond)
	}
	if engine.workers != 1 || cap(engine.ready) != 4 {
		t.Fatalf("engine has %d workers and a queue of %d, want 1 and 4", engine.workers, cap(engine.ready))
	}
	dropFullBefore := udpDropFull.Value()

	conn, err := net.Dial("udp", addr)
	if err != nil {
		t.Fatal(err)
	}
	defer conn.Close()

	names := []string{"a.audit2.example.", "b.audit2.example.", "c.audit2.example.", "d.audit2.example.", "e.audit2.example."}
	packets := make([][]byte, len(names))
	for i, name := range names {
		req := new(dns.Msg)
		req.SetQuestion(name, dns.TypeA)
		req.Id = uint16(200 + i)
		if packets[i], err = req.Pack(); err != nil {
			t.Fatal(err)
		}
	}

	start := time.Now()
	if _, err := conn.Write(packets[0]); err != nil {
		t.Fatal(err)
	}
	time.Sleep(50 * time.Millisecond) // the only worker is now inside the first query
	for _, p := range packets[1:] {   // four more, back to back: they fit the queue of four
		if _, err := conn.Write(p); err != nil {
			t.Fatal(err)
		}
	}

	replies := map[uint16]int{}
	buf := make([]byte, 4096)
	_ = conn.SetReadDeadline(start.Add(queryTimeout + 50*time.Millisecond + queryTimeout + time.Second))
	got := 0
	for got < len(names) {
		n, rerr := conn.Read(buf)
		if rerr != nil {
			break
		}
		m := new(dns.Msg)
		if m.Unpack(buf[:n]) != nil {
			continue
		}
		replies[m.Id]++
		got++
		t.Logf("id=%d rcode=%s after %v", m.Id, dns.RcodeToString[m.Rcode], time.Since(start).Round(time.Millisecond))
	}

	if shed := udpDropFull.Value() - dropFullBefore; shed != 0 {
		t.Fatalf("%d queries were shed at ingress; the scenario needs all five admitted", shed)
	}
	for i, name := range names {
		switch n := replies[uint16(200+i)]; {
		case n == 0:
			t.Errorf("%s (admitted, queued, not shed) received no reply at all - expected SERVFAIL once its budget was spent", name)
		case n > 1:
			t.Errorf("%s received %d replies", name, n)
		}
	}
}
