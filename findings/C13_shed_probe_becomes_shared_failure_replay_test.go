package resolver

import (
	"context"
	"hash/maphash"
	"net"
	"testing"
	"time"

	"github.com/miekg/dns"
	"github.com/semihalev/sdns/config"
	"github.com/semihalev/sdns/internal/authority"
	"github.com/semihalev/sdns/internal/cache"
	"github.com/semihalev/sdns/internal/dnsutil"
	"github.com/semihalev/sdns/internal/mock"
	"github.com/semihalev/sdns/middleware"
	cachemw "github.com/semihalev/sdns/middleware/cache"
)

// C13: "Failures local to one request (work-budget exhaustion, client deadline
// or cancellation, shed load, optional enrichment) never become shared state".
//
// A signed zone (parent.test.) whose servers also answer for an unsigned child
// (child.parent.test.) without a referral sends an answer with no RRSIGs, so
// Resolver.answer asks provenInsecureDelegation for the DS proof. That DS
// lookup starts at the root; here the root zone's in-flight quota is taken by
// other clients' lookups, so groupLookup sheds it with errZoneCapacity
// (middleware.ErrResolutionShed — request-local by definition).
// provenInsecureDelegation / isZoneSecure reduce every lookup error to a bare
// bool, answer() turns that into dnssec.ErrNoSignatures, the handler can no
// longer see the request-local cause and writes an unmarked SERVFAIL, and
// cache.ResponseWriter files it in the shared RFC 9520 failure cache.
func TestAuditShedDSProofLookupDoesNotBecomeSharedFailure(t *testing.T) {
	const (
		parent = "parent.test."
		qname  = "www.child.parent.test."
	)

	// Authority for parent.test. (and, without a referral, its unsigned
	// child): answers A questions, unsigned.
	wire := startAttackWireRecorder(t, func(q dns.Question) *dns.Msg {
		if q.Qtype != dns.TypeA {
			return &dns.Msg{MsgHdr: dns.MsgHdr{Authoritative: true}}
		}
		return &dns.Msg{
			MsgHdr: dns.MsgHdr{Authoritative: true},
			Answer: []dns.RR{&dns.A{
				Hdr: dns.RR_Header{Name: q.Name, Rrtype: dns.TypeA, Class: dns.ClassINET, Ttl: 300},
				A:   net.IPv4(192, 0, 2, 44),
			}},
		}
	})
	server := func() *authority.Server { return authority.NewServer(wire.addr(), authority.IPv4) }

	root := &authority.Servers{Zone: ".", List: []*authority.Server{server()}}
	r := newAttackHarnessResolver(root)
	r.dnssec = true
	r.cfg.QueryTimeout = config.Duration{Duration: 10 * time.Second}

	// A trust anchor exists, and parent.test. is a known signed delegation.
	rootKey, _ := makeZoneKeyRes(t, ".")
	r.rootKeys = []dns.RR{rootKey}
	parentKey, _ := makeZoneKeyRes(t, parent)
	parentDS := []dns.RR{parentKey.ToDS(dns.SHA256)}
	r.delegations.Set(
		cache.Key(dns.Question{Name: parent, Qtype: dns.TypeNS, Qclass: dns.ClassINET}, false),
		parentDS,
		&authority.Servers{Zone: parent, List: []*authority.Server{server()}},
		time.Hour,
	)

	// Per-zone in-flight quota of one; the root's is held by somebody else's
	// lookup. (Re-seed on the 1/4096 chance the two zones share a bucket.)
	for {
		r.zoneInflight = newZoneInflightLimiter(1)
		if maphash.String(r.zoneInflight.seed, ".")%zoneInflightBuckets !=
			maphash.String(r.zoneInflight.seed, parent)%zoneInflightBuckets {
			break
		}
	}
	releaseRoot, ok := r.zoneInflight.acquire(".")
	if !ok {
		t.Fatal("fixture: could not take the root zone's in-flight slot")
	}

	c := cachemw.New(&config.Config{CacheSize: 1024, Expire: 60})
	defer c.Stop()
	store := c.Store()
	r.store.Store(&store)
	full := store.(*cachemw.Store)
	handler := &DNSHandler{resolver: r, cfg: r.cfg}

	ask := func() *dns.Msg {
		req := new(dns.Msg)
		req.SetQuestion(qname, dns.TypeA)
		req.SetEdns0(1232, true)
		w := mock.NewWriter("udp", "192.0.2.1:53000")
		ch := middleware.NewChain([]middleware.Handler{c, handler})
		ch.Reset(w, req)
		ch.Next(context.Background())
		return w.Msg()
	}

	first := ask()
	if first == nil || first.Rcode != dns.RcodeServerFailure {
		t.Fatalf("fixture: first response = %v, want the SERVFAIL caused by the shed DS lookup", first)
	}
	if wire.count() == 0 {
		t.Fatal("fixture: the authority was never asked")
	}

	if n := full.FailureLen(); n != 0 {
		t.Errorf("a lookup shed for lack of in-flight capacity became shared RFC 9520 state: FailureLen = %d, want 0", n)
	}

	// The pressure is gone. An independent client must get a fresh
	// resolution, not the other request's shed load replayed as EDE 13.
	releaseRoot()
	before := wire.count()
	second := ask()
	if ede := dnsutil.GetEDE(second); second != nil && second.Rcode == dns.RcodeServerFailure &&
		ede != nil && ede.InfoCode == dns.ExtendedErrorCodeCachedError {
		t.Errorf("independent client was answered from the failure cache (SERVFAIL, EDE 13 %q) with %d upstream queries",
			ede.ExtraText, wire.count()-before)
	}
}
