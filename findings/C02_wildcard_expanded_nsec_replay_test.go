package dnssec

import (
	"crypto"
	"testing"
	"time"

	"github.com/miekg/dns"
	"github.com/semihalev/sdns/internal/dnsutil"
)

// C02 audit 1: a wildcard-expanded NSEC is taken at face value.
//
// The zone example. below is perfectly ordinary:
//
//	example.        SOA NS
//	*.example.      TXT            (a wildcard)
//	a.example.      A
//	child.example.  NS DS          (a SECURE delegation)
//	www.example.    A
//
// Its NSEC chain therefore holds   *.example. NSEC a.example. TXT RRSIG NSEC,
// signed with RRSIG.Labels = 1. Anyone can obtain that RRset re-labelled with
// an owner of their choosing simply by asking the zone's own servers for
// "<anything>.example. NSEC": the wildcard answers, the RDATA and the RRSIG
// are the genuine ones, only the owner name on the wire differs, and the
// signature still verifies because RFC 4035 section 5.3.2 rebuilds
// "*.example." from the Labels field before hashing.
//
// The real owner of such a record is the wildcard, not the name printed on it.
// sdns never compares RRSIG.Labels with the owner of an authority-section
// NSEC, so the denial validators read the printed owner as the start of the
// interval. The two steps below are exactly what Resolver.authority() does
// with a negative response (verifyDNSSEC -> VerifyRRSIG, then FilterRRsToZone
// + VerifyNameErrorNSEC / VerifyNODATANSEC).

func auditC02ZoneKey(t *testing.T, zone string) (*dns.DNSKEY, crypto.Signer) {
	t.Helper()
	key := &dns.DNSKEY{
		Hdr:       dns.RR_Header{Name: zone, Rrtype: dns.TypeDNSKEY, Class: dns.ClassINET, Ttl: 3600},
		Flags:     256,
		Protocol:  3,
		Algorithm: dns.ECDSAP256SHA256,
	}
	priv, err := key.Generate(256)
	if err != nil {
		t.Fatalf("generate key: %v", err)
	}
	return key, priv.(crypto.Signer)
}

// auditC02Sign signs rrset the way a zone signer does; the library sets
// Labels itself (owner labels, minus one for a leading "*").
func auditC02Sign(t *testing.T, key *dns.DNSKEY, priv crypto.Signer, rrset ...dns.RR) *dns.RRSIG {
	t.Helper()
	h := rrset[0].Header()
	sig := &dns.RRSIG{
		Hdr:         dns.RR_Header{Name: h.Name, Rrtype: dns.TypeRRSIG, Class: h.Class, Ttl: h.Ttl},
		TypeCovered: h.Rrtype,
		Algorithm:   key.Algorithm,
		OrigTtl:     h.Ttl,
		Expiration:  uint32(time.Now().Add(6 * time.Hour).Unix()),
		Inception:   uint32(time.Now().Add(-6 * time.Hour).Unix()),
		KeyTag:      key.KeyTag(),
		SignerName:  key.Hdr.Name,
	}
	if err := sig.Sign(priv, rrset); err != nil {
		t.Fatalf("sign %s: %v", h.Name, err)
	}
	return sig
}

// auditC02Expand is what an authoritative server does when the wildcard
// answers a query for owner: same RDATA, same RRSIG, new owner name.
func auditC02Expand(nsec *dns.NSEC, sig *dns.RRSIG, owner string) (*dns.NSEC, *dns.RRSIG) {
	n := dns.Copy(nsec).(*dns.NSEC)
	s := dns.Copy(sig).(*dns.RRSIG)
	n.Hdr.Name = owner
	s.Hdr.Name = owner
	return n, s
}

func TestAuditC02WildcardExpandedNSECReplay(t *testing.T) {
	const zone = "example."
	key, priv := auditC02ZoneKey(t, zone)
	keys := map[uint16][]*dns.DNSKEY{key.KeyTag(): {key}}

	soa := &dns.SOA{
		Hdr: dns.RR_Header{Name: zone, Rrtype: dns.TypeSOA, Class: dns.ClassINET, Ttl: 300},
		Ns:  "ns.example.", Mbox: "root.example.", Serial: 1, Refresh: 1, Retry: 1, Expire: 1, Minttl: 300,
	}
	soaSig := auditC02Sign(t, key, priv, soa)

	wildNSEC := &dns.NSEC{
		Hdr:        dns.RR_Header{Name: "*.example.", Rrtype: dns.TypeNSEC, Class: dns.ClassINET, Ttl: 300},
		NextDomain: "a.example.",
		TypeBitMap: []uint16{dns.TypeTXT, dns.TypeRRSIG, dns.TypeNSEC},
	}
	wildSig := auditC02Sign(t, key, priv, wildNSEC)
	if wildSig.Labels != 1 {
		t.Fatalf("setup: wildcard RRSIG Labels = %d, want 1", wildSig.Labels)
	}

	// the two steps Resolver.authority() performs on a negative response
	accepts := func(msg *dns.Msg, nxdomain bool) (bool, error, error) {
		ok, sigErr := VerifyRRSIG(zone, keys, msg)
		nsecSet := dnsutil.FilterRRsToZone(dnsutil.ExtractRRSet(msg.Ns, "", dns.TypeNSEC), zone)
		var proofErr error
		if nxdomain {
			proofErr = VerifyNameErrorNSEC(msg, nsecSet)
		} else {
			proofErr = VerifyNODATANSEC(msg, nsecSet)
		}
		return ok && sigErr == nil && proofErr == nil, sigErr, proofErr
	}

	t.Run("control: the record under its real owner denies nothing that exists", func(t *testing.T) {
		msg := new(dns.Msg)
		msg.SetQuestion("www.example.", dns.TypeA)
		msg.Rcode = dns.RcodeNameError
		msg.Ns = []dns.RR{soa, soaSig, wildNSEC, wildSig}
		if ok, sigErr := VerifyRRSIG(zone, keys, msg); !ok || sigErr != nil {
			t.Fatalf("setup: genuine records must verify: ok=%v err=%v", ok, sigErr)
		}
		if accepted, _, _ := accepts(msg, true); accepted {
			t.Fatalf("setup: *.example. NSEC a.example. must not deny www.example.")
		}
	})

	t.Run("NXDOMAIN for a name that exists", func(t *testing.T) {
		// www.example. exists. The wildcard NSEC, as served for the query
		// "m.example. NSEC", reads  m.example. NSEC a.example.  - an interval
		// that wraps and so spans www.example. and *.example. alike.
		nsec, sig := auditC02Expand(wildNSEC, wildSig, "m.example.")
		msg := new(dns.Msg)
		msg.SetQuestion("www.example.", dns.TypeA)
		msg.Rcode = dns.RcodeNameError
		msg.Ns = []dns.RR{soa, soaSig, nsec, sig}

		accepted, sigErr, proofErr := accepts(msg, true)
		if accepted {
			t.Errorf("NXDOMAIN for the existing name www.example. was validated from the "+
				"wildcard's own NSEC re-labelled m.example. (RRSIG Labels=%d, owner labels=%d): "+
				"VerifyRRSIG err=%v, VerifyNameErrorNSEC err=%v",
				sig.Labels, dns.CountLabel(nsec.Hdr.Name), sigErr, proofErr)
		}
	})

	t.Run("no DS for a secure delegation", func(t *testing.T) {
		// child.example. has a DS. Re-labelled child.example., the wildcard's
		// NSEC lists neither DS nor SOA and is read as proof that it has none.
		nsec, sig := auditC02Expand(wildNSEC, wildSig, "child.example.")
		msg := new(dns.Msg)
		msg.SetQuestion("child.example.", dns.TypeDS)
		msg.Ns = []dns.RR{soa, soaSig, nsec, sig}

		accepted, sigErr, proofErr := accepts(msg, false)
		if accepted {
			t.Errorf("DS NODATA for the secure delegation child.example. was validated from the "+
				"wildcard's NSEC re-labelled child.example.: VerifyRRSIG err=%v, VerifyNODATANSEC err=%v",
				sigErr, proofErr)
		}
		// and the stricter RFC 8198 evaluator agrees, so the record is also
		// admitted to the shared aggressive-negative cache under that owner
		if accepted {
			nsecSet := dnsutil.FilterRRsToZone(dnsutil.ExtractRRSet(msg.Ns, "", dns.TypeNSEC), zone)
			if res, err := EvaluateAggressiveNSEC(msg.Question[0], zone, nsecSet); err == nil && res.Rcode == dns.RcodeSuccess {
				t.Logf("EvaluateAggressiveNSEC also classifies it NODATA: eligible for the shared denial cache")
			}
		}
	})
}
