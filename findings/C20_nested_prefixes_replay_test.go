package dns64

import (
	"net"
	"testing"

	"github.com/semihalev/sdns/config"
)

// TestAuditC20NestedPrefixesBreakReversibility: with prefixes 2001:db8::/32 and 2001:db8:100::/40 the address
// synthesised for 198.51.100.0 under the /40 (2001:db8:1c6:3364::) is also the /32 embedding of 1.198.51.100, and
// the PTR path takes the first configured prefix that contains the address: the synthesised address does not map
// back to the IPv4 address it was made from. "reversible ... maps back to the same IPv4 address" cannot hold for two
// prefixes one of which contains the other; such a configuration must not be compiled as it stands.
func TestAuditC20NestedPrefixesBreakReversibility(t *testing.T) {
	cfg := &config.Config{}
	cfg.DNS64.Enabled = true
	cfg.DNS64.Prefixes = []string{"2001:db8::/32", "2001:db8:100::/40"}
	c := compileConfig(cfg)
	if c == nil {
		t.Fatal("no compiled config")
	}
	v4 := net.IPv4(198, 51, 100, 0).To4()
	for _, p := range c.prefixes {
		synth := embedIPv4(p.net, v4)
		// what the PTR path does: first configured prefix containing the address
		for _, q := range c.prefixes {
			if !q.net.Contains(synth) {
				continue
			}
			back, ok := extractIPv4(q.net, synth)
			if !ok || !back.Equal(v4) {
				t.Errorf("address %v synthesised for %v under %v maps back to %v (ok=%v) through %v", synth, v4, p.net, back, ok, q.net)
			}
			break
		}
	}
}
