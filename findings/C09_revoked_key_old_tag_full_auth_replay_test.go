package resolver

import (
	"crypto"
	"net"
	"sync"
	"testing"
	"time"

	"github.com/miekg/dns"
	"github.com/semihalev/sdns/config"
	"github.com/semihalev/sdns/middleware/resolver/dnssec"
)

// ---- harness: a fake root server whose DNSKEY answer can be swapped ----

type audit1Root struct {
	mu     sync.Mutex
	answer []dns.RR
}

func (s *audit1Root) set(rrs ...dns.RR) {
	s.mu.Lock()
	s.answer = rrs
	s.mu.Unlock()
}

func (s *audit1Root) ServeDNS(w dns.ResponseWriter, r *dns.Msg) {
	resp := new(dns.Msg)
	resp.SetReply(r)
	resp.Authoritative = true
	if r.Question[0].Qtype == dns.TypeDNSKEY && r.Question[0].Name == "." {
		s.mu.Lock()
		resp.Answer = append(resp.Answer, s.answer...)
		s.mu.Unlock()
	}
	_ = w.WriteMsg(resp)
}

func audit1StartRoot(t *testing.T) (*audit1Root, string) {
	t.Helper()
	pc, err := net.ListenPacket("udp", "127.0.0.1:0")
	if err != nil {
		t.Fatalf("listen: %v", err)
	}
	h := &audit1Root{}
	srv := &dns.Server{PacketConn: pc, Handler: h}
	go func() { _ = srv.ActivateAndServe() }()
	t.Cleanup(func() { _ = srv.Shutdown() })
	return h, pc.LocalAddr().String()
}

type audit1Key struct {
	key    *dns.DNSKEY
	signer crypto.Signer
}

func audit1NewKSK(t *testing.T) audit1Key {
	t.Helper()
	k := &dns.DNSKEY{
		Hdr:       dns.RR_Header{Name: ".", Rrtype: dns.TypeDNSKEY, Class: dns.ClassINET, Ttl: 3600},
		Flags:     257,
		Protocol:  3,
		Algorithm: dns.ED25519,
	}
	priv, err := k.Generate(256)
	if err != nil {
		t.Fatalf("generate: %v", err)
	}
	return audit1Key{key: k, signer: priv.(crypto.Signer)}
}

func audit1Revoked(k *dns.DNSKEY) *dns.DNSKEY {
	c := *k
	c.Flags |= DNSKEYFlagRevoke
	return &c
}

// audit1Sign signs the DNSKEY RRset with signer, announcing keyTag as the
// signing key's tag.
func audit1Sign(t *testing.T, signer crypto.Signer, keyTag uint16, rrset []dns.RR) *dns.RRSIG {
	t.Helper()
	now := time.Now()
	sig := &dns.RRSIG{
		Hdr:         dns.RR_Header{Name: ".", Rrtype: dns.TypeRRSIG, Class: dns.ClassINET, Ttl: 3600},
		TypeCovered: dns.TypeDNSKEY,
		Algorithm:   dns.ED25519,
		Labels:      0,
		OrigTtl:     3600,
		Expiration:  uint32(now.Add(24 * time.Hour).Unix()),
		Inception:   uint32(now.Add(-time.Hour).Unix()),
		KeyTag:      keyTag,
		SignerName:  ".",
	}
	if err := sig.Sign(signer, rrset); err != nil {
		t.Fatalf("sign: %v", err)
	}
	return sig
}

func audit1Resolver(t *testing.T, dir, rootAddr string, anchors ...*dns.DNSKEY) *Resolver {
	t.Helper()
	cfg := new(config.Config)
	cfg.RootServers = []string{rootAddr}
	for _, k := range anchors {
		cfg.RootKeys = append(cfg.RootKeys, k.String())
	}
	cfg.Maxdepth = 30
	cfg.Expire = 600
	cfg.CacheSize = 1024
	cfg.Timeout.Duration = 2 * time.Second
	cfg.Directory = dir
	// DNSSEC stays off so the background run() goroutine never calls AutoTA
	// on its own; the test drives AutoTA directly.
	return NewResolver(cfg)
}

func audit1Trusted(r *Resolver, k *dns.DNSKEY) bool {
	r.RLock()
	defer r.RUnlock()
	for _, rr := range r.rootKeys {
		if have, ok := rr.(*dns.DNSKEY); ok && have.PublicKey == k.PublicKey && have.Algorithm == k.Algorithm {
			return true
		}
	}
	return false
}

// TestAuditRevokedKeyOldTagSignaturePromotesNewKey: the fetched root DNSKEY
// RRset revokes anchor A (REVOKE bit set, validly self-signed) and is signed by
// nobody but A. One of A's two signatures announces A's pre-revocation key tag,
// so verifyFetchedKeysWithWork matches it against the still-unrevoked copy of A
// in the candidate set and reports the RRset as fully authenticated by a
// non-revoked anchor. The same run then accepts A's revocation AND promotes a
// pending key to trust anchor on A's authority alone.
func TestAuditRevokedKeyOldTagSignaturePromotesNewKey(t *testing.T) {
	root, addr := audit1StartRoot(t)
	dir := t.TempDir()

	a := audit1NewKSK(t)
	b := audit1NewKSK(t)
	n := audit1NewKSK(t)
	for dnssec.KeyTag(a.key) == dnssec.KeyTag(b.key) || dnssec.KeyTag(n.key) == dnssec.KeyTag(a.key) ||
		dnssec.KeyTag(n.key) == dnssec.KeyTag(b.key) || dnssec.KeyTag(n.key) == dnssec.KeyTag(audit1Revoked(a.key)) ||
		dnssec.KeyTag(b.key) == dnssec.KeyTag(audit1Revoked(a.key)) {
		b = audit1NewKSK(t)
		n = audit1NewKSK(t)
	}

	// State as an earlier process left it: A and B valid, N seen 31 days ago
	// and waiting for its add hold-down.
	state := TrustAnchors{
		dnssec.KeyTag(a.key): {DNSKey: a.key, State: StateValid, FirstSeen: time.Now().Add(-400 * 24 * time.Hour)},
		dnssec.KeyTag(b.key): {DNSKey: b.key, State: StateValid, FirstSeen: time.Now().Add(-400 * 24 * time.Hour)},
		dnssec.KeyTag(n.key): {DNSKey: n.key, State: StateAddPend, FirstSeen: time.Now().Add(-31 * 24 * time.Hour)},
	}
	if err := writeToTAFile(dir+"/"+stateFile, state); err != nil {
		t.Fatalf("seed state: %v", err)
	}

	r := audit1Resolver(t, dir, addr, a.key, b.key)

	aRev := audit1Revoked(a.key)
	rrset := []dns.RR{aRev, b.key, n.key}
	sigSelf := audit1Sign(t, a.signer, dnssec.KeyTag(aRev), rrset) // the revocation's self-signature
	sigOld := audit1Sign(t, a.signer, dnssec.KeyTag(a.key), rrset) // same private key, pre-revocation tag
	// B, the only anchor that is not being revoked, has NOT signed this RRset.
	root.set(aRev, b.key, n.key, sigSelf, sigOld)

	r.AutoTA()

	if audit1Trusted(r, a.key) {
		t.Fatalf("precondition: A's revocation was not accepted")
	}
	tomb, err := readTombstones(dir + "/" + tombstoneFile)
	if err != nil || tomb[dnskeyMaterialFP(a.key)] == nil {
		t.Fatalf("precondition: A's revocation was not recorded (err=%v)", err)
	}
	if audit1Trusted(r, n.key) {
		t.Errorf("DNSKEY response authenticated only by the key it revokes promoted pending key %d to trust anchor; "+
			"it may do nothing but complete that revocation", dnssec.KeyTag(n.key))
	}
}
