package blocklist

import ("testing"; "github.com/semihalev/sdns/config")

func TestReplayEscapedDot(t *testing.T) {
	b := New(&config.Config{BlockListDir: t.TempDir()})
	b.set("b.com.")
	if b.Exists(`a\.b.com.`) {
		t.Fatalf(`Exists("a\.b.com.") = true with only "b.com." listed: "a\.b" is ONE label, b.com. is not a parent domain`)
	}
}
