package dnssec

import (
	"encoding/base32"
	"math/big"
	"strings"
	"testing"

	"github.com/miekg/dns"
)

// C02 audit 2: the parent's NSEC/NSEC3 at a delegation point is accepted as
// a NODATA proof for any type at that name.
//
// example. delegates child.example. (NS + DS). The parent's denial record at
// that owner lists NS DS RRSIG NSEC and no SOA: it comes from the parent side
// of the cut and speaks only for DS (RFC 4035 section 5.2, RFC 6840 section
// 4.1 - an "ancestor delegation" NSEC/NSEC3 MUST NOT be used to assume the
// non-existence of any other RRs at or below that name). Everything else at
// child.example. - A, MX, SOA, DNSKEY ... - lives in the child zone.
//
// VerifyNODATANSEC and VerifyNODATAForZoneWithWork (the validators
// Resolver.authority() runs on a NOERROR/empty response) only look for the
// queried type and CNAME in the bitmap, so replaying the parent's genuine,
// correctly signed record in answer to "child.example. A" validates with AD=1
// although child.example. A exists. The RFC 8198 evaluator in the same package
// (validateAggressiveExactNODATA) refuses exactly this.

func auditC02NSEC3Owner(t *testing.T, name, zone string) (owner, next string) {
	t.Helper()
	enc := base32.HexEncoding.WithPadding(base32.NoPadding)
	h := dns.HashName(name, dns.SHA1, 0, "")
	raw, err := enc.DecodeString(strings.ToUpper(h))
	if err != nil || len(raw) != 20 {
		t.Fatalf("hash %q: %v", h, err)
	}
	n := new(big.Int).Add(new(big.Int).SetBytes(raw), big.NewInt(1))
	nb := n.FillBytes(make([]byte, 20))
	return strings.ToLower(h) + "." + zone, enc.EncodeToString(nb)
}

func TestAuditC02DelegationPointNODATA(t *testing.T) {
	parentSide := []uint16{dns.TypeNS, dns.TypeDS, dns.TypeRRSIG, dns.TypeNSEC}

	t.Run("NSEC", func(t *testing.T) {
		set := []dns.RR{&dns.NSEC{
			Hdr:        dns.RR_Header{Name: "child.example.", Rrtype: dns.TypeNSEC, Class: dns.ClassINET, Ttl: 300},
			NextDomain: "d.example.",
			TypeBitMap: parentSide,
		}}

		// control: the evaluator meant to behave alike refuses the record
		if _, err := EvaluateAggressiveNSEC(dns.Question{Name: "child.example.", Qtype: dns.TypeA, Qclass: dns.ClassINET}, "example.", set); err == nil {
			t.Fatalf("setup: EvaluateAggressiveNSEC is expected to refuse a delegation-point NSEC for qtype A")
		}

		for _, qtype := range []uint16{dns.TypeA, dns.TypeMX, dns.TypeSOA, dns.TypeDNSKEY} {
			msg := new(dns.Msg)
			msg.SetQuestion("child.example.", qtype)
			if err := VerifyNODATANSEC(msg, set); err == nil {
				t.Errorf("VerifyNODATANSEC accepted the parent-side delegation NSEC (NS DS, no SOA) "+
					"as proof that child.example. has no %s", dns.TypeToString[qtype])
			}
		}
	})

	t.Run("NSEC3", func(t *testing.T) {
		owner, next := auditC02NSEC3Owner(t, "child.example.", "example.")
		set := []dns.RR{&dns.NSEC3{
			Hdr:        dns.RR_Header{Name: owner, Rrtype: dns.TypeNSEC3, Class: dns.ClassINET, Ttl: 300},
			Hash:       dns.SHA1,
			HashLength: 20,
			NextDomain: next,
			TypeBitMap: []uint16{dns.TypeNS, dns.TypeDS, dns.TypeRRSIG},
		}}

		if _, err := EvaluateAggressiveNSEC3(dns.Question{Name: "child.example.", Qtype: dns.TypeA, Qclass: dns.ClassINET}, "example.", set, nil); err == nil {
			t.Fatalf("setup: EvaluateAggressiveNSEC3 is expected to refuse a delegation-point NSEC3 for qtype A")
		}

		for _, qtype := range []uint16{dns.TypeA, dns.TypeMX, dns.TypeSOA, dns.TypeDNSKEY} {
			msg := new(dns.Msg)
			msg.SetQuestion("child.example.", qtype)
			secure, err := VerifyNODATAForZoneWithWork(msg, set, "example.", nil)
			if err == nil {
				t.Errorf("VerifyNODATAForZoneWithWork accepted the parent-side delegation NSEC3 (NS DS, no SOA) "+
					"as proof that child.example. has no %s (secure=%v)", dns.TypeToString[qtype], secure)
			}
		}
	})
}
