package resolver

import (
	"net"
	"testing"
	"time"

	"github.com/miekg/dns"
)

// auditC01Tamper2 puts an on-path box in front of one hermetic authority: it
// relays the query to the real server and lets f rewrite the reply before the
// resolver sees it. Must be called before net.Handler() builds the resolver.
func auditC01Tamper2(t *testing.T, s *hermeticServer, f func(q dns.Question, m *dns.Msg)) {
	t.Helper()
	orig := s.addr
	pc, err := net.ListenPacket("udp", "127.0.0.1:0")
	if err != nil {
		t.Fatalf("listen: %v", err)
	}
	mux := dns.NewServeMux()
	mux.HandleFunc(".", func(w dns.ResponseWriter, r *dns.Msg) {
		c := &dns.Client{Net: "udp", Timeout: time.Second, UDPSize: 4096}
		resp, _, err := c.Exchange(r.Copy(), orig)
		if err != nil || resp == nil {
			return
		}
		f(r.Question[0], resp)
		resp.Id = r.Id
		_ = w.WriteMsg(resp)
	})
	srv := &dns.Server{Net: "udp", PacketConn: pc, Handler: mux}
	go func() { _ = srv.ActivateAndServe() }()
	time.Sleep(10 * time.Millisecond)
	t.Cleanup(func() { _ = srv.Shutdown() })
	s.addr = pc.LocalAddr().String()
}

// C01: "if any response on the path is unsigned ... or missing its DS or
// denial proof, the client gets SERVFAIL (with an Extended DNS Error when it
// speaks EDNS), never altered data."
//
// www.secure.test. A exists and is signed. The attacker simply empties the
// authoritative reply: rcode NOERROR, no answer, no authority. resolve() falls
// through to its "no answer, no authority" tail and hands the client a clean
// NOERROR/NODATA without ever consulting the validator, although the zone is
// signed (DS chain from the trust anchor) and the denial carries no proof.
func TestAuditC01EmptyNoErrorFromSignedZoneAccepted(t *testing.T) {
	n := newHermeticNet(t)
	z := n.Delegate("secure.test.")
	z.Serve(mustRR(t, "www.secure.test. 300 IN A 192.0.2.10"))

	auditC01Tamper2(t, z.server, func(q dns.Question, m *dns.Msg) {
		if q.Name == "www.secure.test." && q.Qtype == dns.TypeA {
			m.Rcode = dns.RcodeSuccess
			m.Answer, m.Ns, m.Extra = nil, nil, nil
		}
	})

	resp := hermeticAsk(t, n.Handler(), "www.secure.test.", dns.TypeA) // EDNS, DO=1, CD=0

	if resp.Rcode != dns.RcodeServerFailure {
		t.Fatalf("rcode = %s (answer=%d authority=%d), want SERVFAIL: a NOERROR reply from a signed zone "+
			"with neither data nor an NSEC/NSEC3 denial proof was passed to the client as NODATA",
			dns.RcodeToString[resp.Rcode], len(resp.Answer), len(resp.Ns))
	}
	opt := resp.IsEdns0()
	if opt == nil {
		t.Fatal("SERVFAIL to an EDNS client carries no OPT, so no Extended DNS Error")
	}
	hasEDE := false
	for _, o := range opt.Option {
		if _, ok := o.(*dns.EDNS0_EDE); ok {
			hasEDE = true
		}
	}
	if !hasEDE {
		t.Fatal("SERVFAIL to an EDNS client carries no Extended DNS Error")
	}
}
