package doh

import (
	"net/http"
	"net/http/httptest"
	"testing"

	"github.com/miekg/dns"
)

// TestAuditDoHJSONNameReachesTheChainInOneSpelling: the text of the ?name= parameter can spell a name in ways the
// unpacker never produces (a decimal escape of a printable octet, an unescaped special, a raw high octet). Every layer
// behind the server keys, compares and suffix-matches names assuming the unpacker's spelling: dns64's exclude_zones test
// (audits/C20-audit1), the cache key against the wire key and the purge route (audits/C03-audit3), the failure cache's
// fold (audits/C03-audit2). The decoded entry must hand the chain the same spelling a wire query for that name carries.
func TestAuditDoHJSONNameReachesTheChainInOneSpelling(t *testing.T) {
	for param, want := range map[string]string{
		"foo.ex%5C097mple.org":  "foo.example.org.",
		"user@host.example":     "user\\@host.example.",
		"caf%C3%A9.example":     "caf\\195\\169.example.",
		"plain.example.":        "plain.example.",
	} {
		var seen string
		h := HandleJSON(func(m *dns.Msg) *dns.Msg {
			seen = m.Question[0].Name
			r := new(dns.Msg)
			r.SetReply(m)
			return r
		})
		rec := httptest.NewRecorder()
		h(rec, httptest.NewRequest(http.MethodGet, "/dns-query?type=AAAA&name="+param, nil))
		if rec.Code != http.StatusOK {
			t.Errorf("name=%s: HTTP %d", param, rec.Code)
			continue
		}
		if seen != want {
			t.Errorf("name=%s: the chain saw %q, a wire query for the same name carries %q", param, seen, want)
		}
	}
}
