package resolver

import (
	"net"
	"testing"

	"github.com/miekg/dns"
)

// C07: "glue addresses are used only for nameserver names inside the
// delegating zone and never loopback or local-interface addresses".
//
// usableAddr() refuses 127.0.0.0/8, ::1 (also IPv4-mapped) and the addresses
// of the local interfaces, but lets the unspecified address through. An
// unspecified destination is not "nowhere": Go's dialer documents that "if the
// host is ... a literal unspecified IP address ... the local system is
// assumed", and connects such a socket to the loopback address. So glue
// "ns.child.zaudit2.test. A 0.0.0.0" (or AAAA ::) makes the resolver send the
// zone's queries to 127.0.0.1:53 / [::1]:53 - itself.
func TestAuditC07UnspecifiedGlueIsDialledAsLoopback(t *testing.T) {
	cfg := makeTestConfig() // IPv6Access is on in the test configuration
	r := newWiredTestResolver(cfg)

	// A referral from the servers of zaudit2.test. (level 2), perfectly in
	// bailiwick: the nameserver name is inside the delegating zone.
	referral := new(dns.Msg)
	referral.SetQuestion("www.child.zaudit2.test.", dns.TypeA)
	referral.Response = true
	referral.Ns = []dns.RR{mustRR(t, "child.zaudit2.test. 300 IN NS ns.child.zaudit2.test.")}
	referral.Extra = []dns.RR{
		mustRR(t, "ns.child.zaudit2.test. 300 IN A 0.0.0.0"),
		mustRR(t, "ns.child.zaudit2.test. 300 IN AAAA ::"),
		// control: these two are refused today
		mustRR(t, "ns.child.zaudit2.test. 300 IN A 127.0.0.1"),
		mustRR(t, "ns.child.zaudit2.test. 300 IN AAAA ::1"),
	}

	info := r.extractDelegationInfo(referral)
	servers, _, _ := r.checkGlueRR(referral, info.hosts, 2)

	for _, server := range servers.List {
		if server.UDPAddr == nil {
			continue
		}
		// The exact call exchange() makes for a UDP upstream.
		conn, err := r.dialUDP(server)
		if err != nil {
			// e.g. no IPv6 on this host: nothing is sent anywhere.
			t.Logf("glue address %s: dial failed (%v)", server.Addr, err)
			continue
		}
		remote, _ := conn.RemoteAddr().(*net.UDPAddr)
		_ = conn.Close()
		if remote != nil && (remote.IP.IsLoopback() || isLocalIP(remote.IP)) {
			t.Errorf("glue address %s was accepted as a server of child.zaudit2.test. and is dialled as %s: "+
				"the resolver queries a loopback/local address", server.Addr, remote)
		}
	}

	// The filter itself, so the defect is pinned where it lives.
	for _, ip := range []net.IP{net.IPv4zero, net.IPv6unspecified, net.ParseIP("::ffff:0.0.0.0")} {
		if addr, ok := usableAddr(ip); ok {
			t.Errorf("usableAddr(%s) = %s, true: the unspecified address names the local system", ip, addr)
		}
	}
}
