package server

import (
	"bytes"
	"net"
	"strings"
	"testing"

	"github.com/miekg/dns"
	"github.com/semihalev/sdns/internal/wire"
)

// auditBigReply builds a reply whose uncompressed length is a little over
// the pooled packer's 4096-byte buffer, so internal/wire.TryPack declines it
// and the owned transport's Msg path encodes it instead. fill is the octet
// the TXT padding is made of; tail is the last record of the message.
func auditBigReply(fill byte, tail dns.RR) *dns.Msg {
	m := new(dns.Msg)
	m.SetQuestion("big.audit.test.", dns.TypeA)
	m.Response = true
	for range 17 {
		m.Answer = append(m.Answer, &dns.TXT{
			Hdr: dns.RR_Header{Name: "big.audit.test.", Rrtype: dns.TypeTXT, Class: dns.ClassINET, Ttl: 30},
			Txt: []string{strings.Repeat(string(fill), 250)},
		})
	}
	m.Answer = append(m.Answer, tail)
	return m
}

// TestAuditTCPMsgPathPacksIntoDirtySlab: a reply the fast packer declines
// must leave the server with the bytes the library's own Pack produces - the
// same bytes the fast packer would have produced had it handled the message.
// The owned TCP/DoT (and UDP) transports encode such a reply with
// PackBuffer straight into the job's reused TX slab, which still holds the
// previous reply; the library does not write the four rdata octets of an A
// record whose address is a 16-byte non-IPv4 value, so those four octets of
// the reply are whatever the previous tenant of the slab sent.
func TestAuditTCPMsgPathPacksIntoDirtySlab(t *testing.T) {
	odd := &dns.A{
		Hdr: dns.RR_Header{Name: "big.audit.test.", Rrtype: dns.TypeA, Class: dns.ClassINET, Ttl: 30},
		A:   net.ParseIP("2001:db8::1"), // 16 octets, not an IPv4-mapped address
	}

	// Reference 1: the fast packer, when it handles a message carrying this
	// record, emits the library's bytes (zeros for the rdata).
	small := new(dns.Msg)
	small.SetQuestion("big.audit.test.", dns.TypeA)
	small.Answer = []dns.RR{odd}
	smallWant, err := small.Copy().Pack()
	if err != nil {
		t.Fatal(err)
	}
	handled, _ := wire.TryPack(small, func(body []byte) error {
		if !bytes.Equal(body, smallWant) {
			t.Fatalf("fast packer differs from the library on the small message")
		}
		return nil
	})
	if !handled {
		t.Fatal("fast packer declined the small message")
	}

	// One slab, two tenants. The first connection's reply is ordinary.
	j := newTCPJob(nil, false)
	j.stream = &tcpStream{}
	first := auditBigReply('S', &dns.TXT{
		Hdr: dns.RR_Header{Name: "big.audit.test.", Rrtype: dns.TypeTXT, Class: dns.ClassINET, Ttl: 30},
		Txt: []string{strings.Repeat("S", 250)},
	})
	if err := j.WriteMsg(first); err != nil {
		t.Fatalf("first reply: %v", err)
	}

	// The slab is reused by another connection (the engine parks slabs in a
	// shared cache; nothing clears tx in between).
	j.written = false
	j.stream = &tcpStream{}
	second := auditBigReply('p', odd)
	probe := *second
	probe.Compress = false
	if probe.Len() <= 4096 {
		t.Fatalf("test message too small to be declined: %d", probe.Len())
	}
	if handled, _ := wire.TryPack(second, func([]byte) error { return nil }); handled {
		t.Fatal("fast packer unexpectedly handled the big message")
	}
	want, err := second.Copy().Pack()
	if err != nil {
		t.Fatal(err)
	}
	if err := j.WriteMsg(second); err != nil {
		t.Fatalf("second reply: %v", err)
	}
	got := j.stream.drain[2:j.stream.held]
	if !bytes.Equal(got, want) {
		i := 0
		for i < len(got) && i < len(want) && got[i] == want[i] {
			i++
		}
		t.Fatalf("reply declined by the fast packer differs from the library's Pack at offset %d: sent % x, library % x (the sent octets are the previous reply's)",
			i, got[i:min(i+4, len(got))], want[i:min(i+4, len(want))])
	}
}
