package ratelimit

import (
	"context"
	"net"
	"strings"
	"testing"
	"time"

	"github.com/miekg/dns"
	"github.com/semihalev/sdns/config"
	"github.com/semihalev/sdns/internal/mock"
	"github.com/semihalev/sdns/middleware"
	"github.com/semihalev/sdns/middleware/edns"
)

const auditCookie = "a1b2c3d4e5f60718" // 8-byte client cookie, hex form

// auditQuery is an ordinary UDP query carrying a client cookie plus the
// options a reply must never hand back: a client-subnet option and
// (optionally) an option the server does not implement.
func auditQuery(withForeign bool, padding int) *dns.Msg {
	q := new(dns.Msg)
	q.SetQuestion("example.com.", dns.TypeA)
	q.SetEdns0(512, false)
	opt := q.IsEdns0()
	opt.Option = append(opt.Option,
		&dns.EDNS0_COOKIE{Code: dns.EDNS0COOKIE, Cookie: auditCookie},
		&dns.EDNS0_SUBNET{
			Code:          dns.EDNS0SUBNET,
			Family:        1,
			SourceNetmask: 24,
			Address:       net.ParseIP("198.51.100.0").To4(),
		},
	)
	if withForeign {
		opt.Option = append(opt.Option, &dns.EDNS0_LOCAL{Code: 65001, Data: []byte("not-yours")})
	}
	if padding > 0 {
		opt.Option = append(opt.Option, &dns.EDNS0_PADDING{Padding: make([]byte, padding)})
	}
	return q
}

func auditChain(r *RateLimit) []middleware.Handler {
	// The production order: ratelimit runs ahead of edns, and something
	// further down would answer. Nothing further down is reached here.
	terminal := middleware.HandlerFunc(func(_ context.Context, ch *middleware.Chain) {
		ch.Cancel()
	})
	return []middleware.Handler{r, edns.New(&config.Config{CookieSecret: "secret"}), terminal}
}

func auditCheckReply(t *testing.T, w *mock.Writer) {
	t.Helper()
	if !w.Written() {
		t.Fatal("stale cookie over UDP should have been answered with BADCOOKIE")
	}
	resp := w.Msg()
	if resp.Rcode != dns.RcodeBadCookie {
		t.Fatalf("rcode = %s, want BADCOOKIE", dns.RcodeToString[resp.Rcode])
	}
	opt := resp.IsEdns0()
	if opt == nil {
		t.Fatal("BADCOOKIE reply has no OPT")
	}
	for _, o := range opt.Option {
		switch v := o.(type) {
		case *dns.EDNS0_SUBNET:
			t.Errorf("C06: reply reflects the client-subnet option %s", v.String())
		case *dns.EDNS0_LOCAL:
			t.Errorf("C06: reply reflects foreign option code %d (%q)", v.Code, v.Data)
		case *dns.EDNS0_COOKIE:
			if !strings.HasPrefix(v.Cookie, auditCookie) {
				t.Errorf("cookie %q does not answer client cookie %q", v.Cookie, auditCookie)
			}
		}
	}
}

// Wire-born request (the owned UDP listener's normal entry): the packet is
// strict-path eligible, ratelimit materializes it for the BADCOOKIE reply.
func TestAuditBadCookieReplyReflectsClientSubnetWire(t *testing.T) {
	r := New(&config.Config{ClientRateLimit: 100, CookieSecret: "secret"})
	handlers := auditChain(r)

	serve := func() *mock.Writer {
		raw, err := auditQuery(false, 0).Pack()
		if err != nil {
			t.Fatalf("pack: %v", err)
		}
		req := new(middleware.Request)
		if !req.ParseWire(raw, time.Now(), nil) {
			t.Fatal("query refused by ParseWire")
		}
		w := mock.NewWriter("udp", "10.9.0.1:0")
		ch := middleware.NewChain(handlers)
		ch.ResetWire(w, req)
		ch.Next(context.Background())
		return w
	}

	if w := serve(); w.Written() {
		t.Fatal("first query should pass the limiter unanswered")
	}
	// The limiter now remembers client+server cookie; the bare client
	// cookie is stale and earns BADCOOKIE.
	auditCheckReply(t, serve())
}

// Decoded request (what a query with an unknown option, or any non-strict
// shape, becomes): same reply route, same reflection, foreign option too.
func TestAuditBadCookieReplyReflectsForeignOptionsDecoded(t *testing.T) {
	r := New(&config.Config{ClientRateLimit: 100, CookieSecret: "secret"})
	handlers := auditChain(r)

	serve := func() *mock.Writer {
		w := mock.NewWriter("udp", "10.9.0.2:0")
		ch := middleware.NewChain(handlers)
		ch.Reset(w, auditQuery(true, 0))
		ch.Next(context.Background())
		return w
	}

	if w := serve(); w.Written() {
		t.Fatal("first query should pass the limiter unanswered")
	}
	auditCheckReply(t, serve())
}

// The same route ignores the advertised UDP size: the request's OPT rides
// back whole, so a client that advertised 512 octets gets a larger reply
// with TC clear.
func TestAuditBadCookieReplyExceedsAdvertisedUDPSize(t *testing.T) {
	r := New(&config.Config{ClientRateLimit: 100, CookieSecret: "secret"})
	handlers := auditChain(r)

	serve := func() *mock.Writer {
		raw, err := auditQuery(false, 700).Pack()
		if err != nil {
			t.Fatalf("pack: %v", err)
		}
		req := new(middleware.Request)
		if !req.ParseWire(raw, time.Now(), nil) {
			t.Fatal("query refused by ParseWire")
		}
		w := mock.NewWriter("udp", "10.9.0.3:0")
		ch := middleware.NewChain(handlers)
		ch.ResetWire(w, req)
		ch.Next(context.Background())
		return w
	}

	if w := serve(); w.Written() {
		t.Fatal("first query should pass the limiter unanswered")
	}
	w := serve()
	if !w.Written() {
		t.Fatal("stale cookie over UDP should have been answered")
	}
	resp := w.Msg()
	packed, err := resp.Pack()
	if err != nil {
		t.Fatalf("pack reply: %v", err)
	}
	const limit = 512 // max(512, min(advertised 512, 1232))
	if len(packed) > limit && !resp.Truncated {
		t.Errorf("C06: UDP reply is %d bytes with TC clear; client advertised %d", len(packed), limit)
	}
}
