package resolver

import (
	"context"
	"testing"
	"time"

	"github.com/miekg/dns"
	"github.com/semihalev/sdns/internal/cache"
	"github.com/semihalev/sdns/middleware"
)

// TestAuditC08_ReferralDSTTLIgnoredForCheckingDisabled
//
// Property C08: a delegation is used for at most "the smaller of the
// referral's NS and DS TTLs".
//
// processDelegation only bounds the lease by the DS set that
// validateDelegation RETAINED. For a checking-disabled resolution (a CD=1
// client, or every query when dnssec = "off", where the handler forces CD)
// validateDelegation returns findDS(ctx, "", name, parentDS, true); starting
// from the root parentDS is empty, findDS falls through and returns nil, and
// the DS RRset the parent put in the referral is dropped on the floor. The
// lease is then the NS TTL alone, however short the referral's DS TTL is.
func TestAuditC08_ReferralDSTTLIgnoredForCheckingDisabled(t *testing.T) {
	var ignore int64

	softNeg := func(zone string) *dns.Msg {
		m := &dns.Msg{}
		m.Authoritative = true
		if zone == "." {
			m.Ns = []dns.RR{mustRR(t, ". 30 IN SOA a.root. hostmaster.root. 1 30 30 30 30")}
		} else {
			m.Ns = []dns.RR{mustRR(t, zone+" 30 IN SOA ns."+zone+" hostmaster."+zone+" 1 30 30 30 30")}
		}
		return m
	}

	ghostAddr, stopGhost := startMockAuth(t, &ignore, func(q dns.Question) *dns.Msg {
		if q.Qtype == dns.TypeA && dns.CanonicalName(q.Name) == "www.ghost." {
			m := &dns.Msg{}
			m.Authoritative = true
			m.Answer = []dns.RR{mustRR(t, "www.ghost. 3600 IN A 192.0.2.55")}
			return m
		}
		return softNeg("ghost.")
	})
	defer stopGhost()

	const dsRR = "ghost. 2 IN DS 12345 8 2 49FD46E6C4B45C55D4AC49FD46E6C4B45C55D4AC49FD46E6C4B45C55D4AC1234"

	rootAddr, stopRoot := startMockAuth(t, &ignore, func(q dns.Question) *dns.Msg {
		name := dns.CanonicalName(q.Name)
		if name == "." && q.Qtype == dns.TypeNS {
			m := &dns.Msg{}
			m.Authoritative = true
			m.Answer = []dns.RR{mustRR(t, ". 3600 IN NS a.root.")}
			return m
		}
		if q.Qtype == dns.TypeDS && name == "ghost." {
			m := &dns.Msg{}
			m.Authoritative = true
			m.Answer = []dns.RR{mustRR(t, dsRR)}
			return m
		}
		if q.Qtype == dns.TypeDS {
			return softNeg(".")
		}
		if dns.IsSubDomain("ghost.", name) {
			// Referral: NS TTL one hour, DS TTL two seconds.
			m := &dns.Msg{}
			m.Ns = []dns.RR{
				mustRR(t, "ghost. 3600 IN NS ns.ghost."),
				mustRR(t, dsRR),
			}
			m.Extra = []dns.RR{mustRR(t, "ns.ghost. 3600 IN A 192.0.2.21")}
			return m
		}
		return softNeg(".")
	})
	defer stopRoot()

	remap := map[string]string{"192.0.2.21:53": ghostAddr}
	mapper := func(addr string) string {
		if to, ok := remap[addr]; ok {
			return to
		}
		return addr
	}

	base := makeTestConfig()
	cfg := *base
	cfg.RootServers = []string{rootAddr}
	cfg.Root6Servers = nil
	cfg.IPv6Access = false
	cfg.DNSSEC = "off"
	r := newWiredTestResolver(&cfg)
	r.resolveTarget.Store(&mapper)

	req := new(dns.Msg)
	req.SetQuestion("www.ghost.", dns.TypeA)
	req.SetEdns0(1232, true)
	req.CheckingDisabled = true
	ctx := context.WithValue(context.Background(), contextKeyRequestID, req.Id)
	var meta middleware.ResponseMeta
	ctx = middleware.WithResponseMeta(ctx, &meta)

	observed := time.Now()
	resp, err := r.Resolve(ctx, req, r.rootServers, true, 30, 0, true, nil)
	if err != nil {
		t.Fatalf("resolve failed: %v", err)
	}
	if resp.Rcode != dns.RcodeSuccess || len(resp.Answer) == 0 {
		t.Fatalf("expected a positive answer, got rcode=%s answers=%d", dns.RcodeToString[resp.Rcode], len(resp.Answer))
	}

	// min(NS TTL 3600, DS TTL 2) = 2 s, measured from the referral.
	limit := time.Now().Add(2 * time.Second)

	if cut := meta.CutUntil(); cut.IsZero() || cut.After(limit) {
		t.Errorf("C08 violated: answer cut deadline is %s after the referral, want <= 2s (the referral's DS TTL)",
			cut.Sub(observed).Round(time.Millisecond))
	}

	deleg, derr := r.delegations.Get(cache.Key(dns.Question{Name: "ghost.", Qtype: dns.TypeNS, Qclass: dns.ClassINET}, true))
	if derr == nil && deleg.ExpiresAt.After(limit) {
		t.Errorf("C08 violated: referral carried NS TTL 3600 and DS TTL 2, but the ghost. delegation is leased for %s "+
			"(the referral's DS TTL is ignored when checking is disabled)",
			deleg.ExpiresAt.Sub(observed).Round(time.Second))
	}
}
