package resolver

import (
	"context"
	"net"
	"strings"
	"sync"
	"testing"
	"time"

	"github.com/miekg/dns"
	"github.com/semihalev/sdns/internal/cache"
)

// Two different, valid question names whose 64-bit question hash
// (internal/cache.Key: xxhash64 over class, type, CD byte and the folded
// name) is the same. xxhash64 is not collision resistant: its four lanes are
// updated by invertible steps, so a second 64-byte block that drives the
// lanes to the same state is solved for directly (a few thousand trials to
// keep the bytes inside the hostname-safe alphabet).
const (
	auditCollideLeader   = "xxxxxxxxxxxxxxxxxxxxxxxxxx.21aaaaaa15gaaaaa09maaaaazdtaaaa.h5gbaaaamypdaaaarryfaaaawk7haaaaq.test."
	auditCollideFollower = "xxxxxxxxxxxxxxxxxxxxxxxxxx.uzeth667paghwctjqn027kd51wqnvnn.7^#sz^9j]*,wi#}a9-p?t80xmg3l:|tiq.test."
)

// TestAuditSharedLookupAnswersOnlyItsOwnQuestion: a reply must answer the
// query of the client it is delivered to. Resolver.groupLookup shares one
// upstream lookup between concurrent callers under a key made of the 64-bit
// HASH of the question, not the question. A caller whose (different) question
// hashes alike joins the other caller's lookup, is handed a copy of the
// response to that other question, has its own name written over the
// response's question name, and relays the result to its client: here the
// client asking for a name that exists (one A record) is told NXDOMAIN — the
// answer to the other client's query.
func TestAuditSharedLookupAnswersOnlyItsOwnQuestion(t *testing.T) {
	qL := dns.Question{Name: auditCollideLeader, Qtype: dns.TypeA, Qclass: dns.ClassINET}
	qF := dns.Question{Name: auditCollideFollower, Qtype: dns.TypeA, Qclass: dns.ClassINET}
	if auditCollideLeader == auditCollideFollower || cache.Key(qL) != cache.Key(qF) {
		t.Fatalf("setup: the two names must differ and share a question hash (%d vs %d)",
			cache.Key(qL), cache.Key(qF))
	}
	for _, n := range []string{auditCollideLeader, auditCollideFollower} {
		if _, ok := dns.IsDomainName(n); !ok {
			t.Fatalf("setup: %q is not a domain name", n)
		}
	}
	pc, err := net.ListenPacket("udp", "127.0.0.1:0")
	if err != nil {
		t.Fatalf("listen udp: %v", err)
	}
	var (
		once          sync.Once
		leaderArrived = make(chan struct{})
		release       = make(chan struct{})
		mu            sync.Mutex
		followerAsked int // full follower question seen upstream
	)
	mux := dns.NewServeMux()
	mux.HandleFunc(".", func(w dns.ResponseWriter, r *dns.Msg) {
		reply := new(dns.Msg)
		reply.SetReply(r)
		reply.Authoritative = true
		if len(r.Question) == 1 && r.Question[0].Qtype == dns.TypeA {
			switch strings.ToLower(r.Question[0].Name) {
			case auditCollideLeader:
				// Does not exist. Held until the other client is in flight.
				once.Do(func() { close(leaderArrived) })
				<-release
				reply.Rcode = dns.RcodeNameError
			case auditCollideFollower:
				mu.Lock()
				followerAsked++
				mu.Unlock()
				reply.Answer = append(reply.Answer, &dns.A{
					Hdr: dns.RR_Header{Name: r.Question[0].Name, Rrtype: dns.TypeA, Class: dns.ClassINET, Ttl: 300},
					A:   net.IPv4(192, 0, 2, 20),
				})
			}
		}
		// Everything else (the minimised ancestors, root priming): NOERROR,
		// empty — the resolver moves on to the next label.
		_ = w.WriteMsg(reply)
	})
	server := &dns.Server{Net: "udp", PacketConn: pc, Handler: mux}
	go func() { _ = server.ActivateAndServe() }()
	time.Sleep(10 * time.Millisecond)
	defer func() { _ = server.Shutdown() }()

	cfg := makeTestConfig()
	cfg.RootServers = []string{pc.LocalAddr().String()}
	cfg.Root6Servers = nil
	cfg.IPv6Access = false
	cfg.DNSSEC = "off"
	handler := New(cfg)

	ask := func(name string, id uint16) *dns.Msg {
		m := new(dns.Msg)
		m.SetQuestion(name, dns.TypeA)
		m.Id = id
		return handler.handle(context.Background(), m)
	}

	// Control: on its own, the follower's name resolves to its A record.
	if r := ask(auditCollideFollower, 7); r == nil || r.Rcode != dns.RcodeSuccess || len(r.Answer) != 1 {
		t.Fatalf("setup: %q alone must resolve to one A record, got %v", auditCollideFollower, r)
	}

	var leaderReply, followerReply *dns.Msg
	var wg sync.WaitGroup
	wg.Add(1)
	go func() {
		defer wg.Done()
		leaderReply = ask(auditCollideLeader, 1001)
	}()
	select {
	case <-leaderArrived:
	case <-time.After(3 * time.Second):
		close(release)
		t.Fatal("setup: the first client's question never reached the authority")
	}
	wg.Add(1)
	go func() {
		defer wg.Done()
		followerReply = ask(auditCollideFollower, 2002)
	}()
	// Give the second client time to walk down (loopback round trips) to its
	// full question and reach the shared lookup while the first is in flight.
	time.Sleep(500 * time.Millisecond)
	close(release)
	wg.Wait()

	if leaderReply == nil || leaderReply.Rcode != dns.RcodeNameError {
		t.Fatalf("setup: first client should get NXDOMAIN for its own question, got %v", leaderReply)
	}
	if followerReply == nil {
		t.Fatal("second client got no reply")
	}
	if followerReply.Id != 2002 {
		t.Errorf("second client's reply ID = %d, want 2002", followerReply.Id)
	}
	if followerReply.Rcode != dns.RcodeSuccess || len(followerReply.Answer) != 1 {
		mu.Lock()
		asked := followerAsked
		mu.Unlock()
		t.Errorf("second client asked %q (exists, one A record) and was answered rcode=%s with %d answers: "+
			"it received the reply to the first client's query %q (its own question went upstream %d time(s), the control only)",
			auditCollideFollower, dns.RcodeToString[followerReply.Rcode], len(followerReply.Answer),
			auditCollideLeader, asked)
	}
}
