package cache

import (
	"testing"
	"time"
)

// C16: "removal or eviction never makes another key ... miscounted" and
// "once writers stop the reported length equals the number of reachable
// entries".
//
// SegmentUInt64Map.Clear (reached through SyncUInt64Map.Clear) empties the
// segments one lock at a time and only afterwards does count.Store(0). A key
// stored into an already-swept segment while the sweep is still running is
// counted by the writer and then wiped from the counter by the blind Store(0):
// the entry stays reachable but Len() no longer knows about it, and it stays
// wrong forever (a later Del of that key drives Len() negative).
//
// The test only uses a segment lock to pin the interleaving: Clear is paused
// at the last segment, one ordinary Set lands in segment 0, Clear resumes.
func TestAuditClearLosesConcurrentInsertFromLen(t *testing.T) {
	m := NewSyncUInt64Map[int](8)
	seg := m.data

	// A key living in segment 0 (swept first) and a sentinel in the
	// second-to-last segment (swept just before the one we pin).
	lastIdx := uint(len(seg.segments) - 1)
	var early, sentinel uint64
	for k := uint64(1); early == 0 || sentinel == 0; k++ {
		switch seg.getSegmentIndex(k) {
		case 0:
			if early == 0 {
				early = k
			}
		case lastIdx - 1:
			if sentinel == 0 {
				sentinel = k
			}
		}
	}
	m.Set(sentinel, 7)

	// Pin Clear at the last segment.
	seg.segments[lastIdx].rwlock.Lock()
	cleared := make(chan struct{})
	go func() {
		m.Clear()
		close(cleared)
	}()
	deadline := time.Now().Add(5 * time.Second)
	for m.Has(sentinel) {
		if time.Now().After(deadline) {
			seg.segments[lastIdx].rwlock.Unlock()
			t.Fatal("Clear never reached the pinned segment")
		}
		time.Sleep(time.Millisecond)
	}

	// Segment 0 has been swept already; an ordinary writer stores into it.
	m.Set(early, 1)

	seg.segments[lastIdx].rwlock.Unlock()
	<-cleared

	// Everything is quiescent now.
	reachable := 0
	m.ForEach(func(uint64, int) bool { reachable++; return true })
	v, ok := m.Get(early)
	t.Logf("after Clear: Get(early)=(%d,%v) reachable=%d Len=%d", v, ok, reachable, m.Len())

	if int64(reachable) != m.Len() {
		t.Errorf("writers stopped: Len() = %d but %d entries are reachable (key %d still yields %d,%v)",
			m.Len(), reachable, early, v, ok)
	}

	// The miscount is permanent and goes negative once the key is removed.
	m.Del(early)
	if m.Len() < 0 {
		t.Errorf("after deleting the surviving key Len() = %d (negative)", m.Len())
	}
}
