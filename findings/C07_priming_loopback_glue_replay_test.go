package resolver

import (
	"net"
	"testing"
	"time"

	"github.com/miekg/dns"
)

// TestAuditC07PrimingAcceptsLoopbackAndLocalGlue covers the root-priming
// route (checkPriming), which turns the additional-section addresses of the
// ". NS" reply into the resolver's root server list.
//
// Every other route that turns upstream-supplied addresses into servers
// (checkGlueRR for referral glue, searchAddrs for looked-up NS addresses)
// passes them through usableAddr, which drops loopback and local-interface
// addresses. checkPriming does not: it takes netip.AddrFromSlice() verbatim.
// The glue is in the unsigned additional section, so DNSSEC validation of the
// ". NS" RRset (which this fixture satisfies) does not protect it.
func TestAuditC07PrimingAcceptsLoopbackAndLocalGlue(t *testing.T) {
	rootKey := newHermeticKey(t, ".")

	nsRR := &dns.NS{
		Hdr: dns.RR_Header{Name: ".", Rrtype: dns.TypeNS, Class: dns.ClassINET, Ttl: 3600},
		Ns:  "ns.root.",
	}
	nsSig := rootKey.sign(t, []dns.RR{nsRR})
	keySig := rootKey.sign(t, []dns.RR{rootKey.key})

	// Addresses the property forbids as glue: loopback (v4 and v6) and, when
	// the host has one, an address of a local non-loopback interface.
	forbidden := map[string]bool{
		"127.0.0.1:53": true,
		"[::1]:53":     true,
	}
	glue := []dns.RR{
		&dns.A{
			Hdr: dns.RR_Header{Name: "ns.root.", Rrtype: dns.TypeA, Class: dns.ClassINET, Ttl: 3600},
			A:   net.IPv4(127, 0, 0, 1),
		},
		&dns.AAAA{
			Hdr:  dns.RR_Header{Name: "ns.root.", Rrtype: dns.TypeAAAA, Class: dns.ClassINET, Ttl: 3600},
			AAAA: net.ParseIP("::1"),
		},
	}
	for _, ip := range localIPaddrs {
		if ip4 := ip.To4(); ip4 != nil && !ip4.IsLoopback() {
			forbidden[net.JoinHostPort(ip4.String(), "53")] = true
			glue = append(glue, &dns.A{
				Hdr: dns.RR_Header{Name: "ns.root.", Rrtype: dns.TypeA, Class: dns.ClassINET, Ttl: 3600},
				A:   ip4,
			})
			break
		}
	}

	pc, err := net.ListenPacket("udp", "127.0.0.1:0")
	if err != nil {
		t.Fatalf("listen: %v", err)
	}
	mux := dns.NewServeMux()
	mux.HandleFunc(".", func(w dns.ResponseWriter, r *dns.Msg) {
		if len(r.Question) != 1 {
			return
		}
		q := r.Question[0]
		reply := new(dns.Msg)
		reply.SetReply(r)
		reply.Authoritative = true
		switch {
		case q.Name == "." && q.Qtype == dns.TypeNS:
			reply.Answer = []dns.RR{nsRR, nsSig}
			reply.Extra = append(reply.Extra, glue...)
		case q.Name == "." && q.Qtype == dns.TypeDNSKEY:
			reply.Answer = []dns.RR{rootKey.key, keySig}
		default:
			reply.Rcode = dns.RcodeNameError
		}
		_ = w.WriteMsg(reply)
	})
	server := &dns.Server{Net: "udp", PacketConn: pc, Handler: mux}
	go func() { _ = server.ActivateAndServe() }()
	t.Cleanup(func() { _ = server.Shutdown() })
	time.Sleep(20 * time.Millisecond)

	hnet := &hermeticNet{tb: t}
	cfg := makeTestConfig()
	cfg.Directory = hnet.workDir()
	cfg.RootServers = []string{pc.LocalAddr().String()}
	cfg.Root6Servers = nil
	cfg.IPv6Access = true
	cfg.DNSSEC = "on"
	cfg.RootKeys = []string{rootKey.key.String()}

	r := NewResolver(cfg)

	// Run the priming route synchronously (run() also calls it in the
	// background once the middleware is ready; the outcome is the same).
	r.checkPriming()

	r.rootServers.RLock()
	defer r.rootServers.RUnlock()
	if len(r.rootServers.List) == 0 {
		t.Fatal("root server list is empty")
	}
	for _, s := range r.rootServers.List {
		if forbidden[s.Addr] {
			t.Errorf("priming installed a loopback/local-interface glue address as a root server: %s", s.Addr)
		}
	}
}
