package edns

// Replay for the C19 finding: an EDNS version != 0 query from a client allowed to have its ECS forwarded was answered
// BADVERS with the (clamped) client-subnet option still attached: "no ECS option is ever returned to a client" broken.
// Run (nothing is written to the repository):
//   go test -overlay <overlay mapping middleware/edns/zz_c19_replay_test.go to this file> -vet=off -run TestC19BadVersEchoesECS ./middleware/edns/

import (
	"context"
	"testing"

	"github.com/miekg/dns"
	"github.com/semihalev/sdns/config"
	"github.com/semihalev/sdns/internal/mock"
	"github.com/semihalev/sdns/middleware"
)

func TestC19BadVersEchoesECS(t *testing.T) {
	cfg := new(config.Config)
	cfg.ECS = config.ECSConfig{Enabled: true, ForwardV4Max: 24}
	e := New(cfg)
	ch := middleware.NewChain([]middleware.Handler{e, &dummy{}})

	req := ecsRequest("example.com.", 28, "203.0.113.42")
	req.IsEdns0().SetVersion(1)
	mw := mock.NewWriter("udp", "203.0.113.42:0")
	ch.Reset(mw, req)
	ch.Next(context.Background())

	written := mw.Msg()
	if written == nil {
		t.Fatal("no response written")
	}
	if written.Rcode != dns.RcodeBadVers&0xF && written.IsEdns0() == nil {
		t.Fatalf("expected a BADVERS reply with OPT, got rcode %d", written.Rcode)
	}
	if got := findSubnet(written.IsEdns0()); got != nil {
		t.Errorf("BADVERS reply echoes the client's ECS option back: %+v", got)
	}
}
