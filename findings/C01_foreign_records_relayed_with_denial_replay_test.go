package resolver

import (
	"net"
	"testing"
	"time"

	"github.com/miekg/dns"
)

// auditTamper4 puts an on-path box in front of one hermetic server.
func auditTamper4(t *testing.T, s *hermeticServer, f func(q dns.Question, m *dns.Msg)) {
	t.Helper()
	orig := s.addr
	pc, err := net.ListenPacket("udp", "127.0.0.1:0")
	if err != nil {
		t.Fatal(err)
	}
	mux := dns.NewServeMux()
	mux.HandleFunc(".", func(w dns.ResponseWriter, r *dns.Msg) {
		c := &dns.Client{Net: "udp", Timeout: time.Second, UDPSize: 4096}
		resp, _, err := c.Exchange(r.Copy(), orig)
		if err != nil || resp == nil {
			return
		}
		f(r.Question[0], resp)
		resp.Id = r.Id
		_ = w.WriteMsg(resp)
	})
	srv := &dns.Server{Net: "udp", PacketConn: pc, Handler: mux}
	go func() { _ = srv.ActivateAndServe() }()
	time.Sleep(10 * time.Millisecond)
	t.Cleanup(func() { _ = srv.Shutdown() })
	s.addr = pc.LocalAddr().String()
}

func TestAuditC01ForeignRecordsRelayedWithDenial(t *testing.T) {
	n := newHermeticNet(t)
	z := n.Delegate("secure.test.")
	z.Serve(mustRR(t, "www.secure.test. 300 IN A 192.0.2.10"))
	auditTamper4(t, z.server, func(q dns.Question, m *dns.Msg) {
		if q.Name == "www.secure.test." && q.Qtype == dns.TypeAAAA {
			m.Ns = append(m.Ns, mustRR(t, "bank.example. 300 IN A 6.6.6.6"))
			m.Ns = append(m.Ns, mustRR(t, "bank.example. 300 IN SOA a. b. 1 2 3 4 5"))
			m.Extra = append(m.Extra, mustRR(t, "www.bank.example. 300 IN A 6.6.6.6"))
		}
	})
	resp := hermeticAsk(t, n.Handler(), "www.secure.test.", dns.TypeAAAA)
	if resp == nil {
		t.Fatal("no response")
	}
	for _, sec := range [][]dns.RR{resp.Answer, resp.Ns, resp.Extra} {
		for _, rr := range sec {
			if rr.Header().Rrtype == dns.TypeOPT {
				continue
			}
			if !dns.IsSubDomain("secure.test.", rr.Header().Name) {
				t.Errorf("record owned outside the zone whose servers sent it was relayed with the denial (AD=%v): %v", resp.AuthenticatedData, rr)
			}
		}
	}
}

