package dns64

import (
	"context"
	"testing"

	"github.com/miekg/dns"
)

// C20: "Synthesis happens only for ... non-excluded zones".
//
// exclude_zones is documented as a suffix match ("matches the zone and every
// name under it"). Every name is under the root zone, so exclude_zones = ["."]
// excludes everything. compileConfig accepts the entry (zoneExcluded's comment
// claims `"." is not allowed in the config`, but nothing rejects it) and
// zoneExcluded then only ever matches the literal root name, because it looks
// for the suffix "." + "." = "..". The operator's exclusion is silently dead
// and every name is synthesised.
func TestAuditC20RootExcludeZoneIsIgnored(t *testing.T) {
	cfg := baseConfig()
	cfg.DNS64.ExcludeZones = []string{"."}
	d := New(cfg)
	if d == nil {
		t.Fatalf("DNS64 unexpectedly disabled")
	}
	if len(d.cfg.excludeZones) != 1 || d.cfg.excludeZones[0] != "." {
		t.Fatalf("test premise broken: root exclude zone was not accepted as an exclusion: %v", d.cfg.excludeZones)
	}
	if !dns.IsSubDomain(d.cfg.excludeZones[0], "foo.example.org.") {
		t.Fatalf("test premise broken")
	}

	sq := &stubQueryer{resp: aRespMsg("foo.example.org.", 300, "192.0.2.33")}
	d.queryer = sq
	ch, mw := makeChain(t, d, &stubAnswerer{msg: noDataMsg("foo.example.org.", 3600)}, "203.0.113.5:53", "foo.example.org.", dns.TypeAAAA)
	d.ServeDNS(context.Background(), ch)

	resp := mw.Msg()
	if resp == nil {
		t.Fatalf("no response written")
	}
	if sq.last != nil {
		t.Errorf("foo.example.org. lies in the excluded zone \".\" but DNS64 issued the secondary A lookup")
	}
	for _, rr := range resp.Answer {
		if aaaa, ok := rr.(*dns.AAAA); ok {
			t.Errorf("foo.example.org. lies in the excluded zone \".\" but the reply carries synthesised AAAA %s", aaaa.AAAA)
		}
	}
}
