package resolver

import (
	"context"
	"fmt"
	"strings"
	"sync"
	"sync/atomic"
	"testing"
	"time"

	"github.com/miekg/dns"
	"github.com/semihalev/sdns/internal/dnsutil"
	"github.com/semihalev/sdns/internal/mock"
	"github.com/semihalev/sdns/middleware"
	cachemw "github.com/semihalev/sdns/middleware/cache"
)

// C11 audit: "Expired, cancelled or capacity-refused resolution surfaces as
// SERVFAIL to that client only; it neither wedges nor fails other clients
// waiting on the same name".
//
// groupLookup sheds a zone-level lookup when the zone's in-flight quota (or
// the global resolution-slot pool) is full and reports it as errZoneCapacity /
// errResolutionCapacity, which wrap middleware.ErrResolutionShed — a
// request-local error that the handler marks and the cache refuses to admit to
// the RFC 9520 failure cache. That holds while the shed lookup is the client's
// own. It is forgotten one level down: when the lookup that is shed is the
// nameserver-ADDRESS lookup a referral needs (out-of-bailiwick NS, no glue),
// lookupV4Nss special-cases work-limit, max-recursion, cancel, deadline and
// attempt-limit errors but not ErrResolutionShed. It just `continue`s, ends up
// with an empty server list, and processDelegation turns the local capacity
// refusal into errNoReachableAuth: it publishes a zone-wide RFC 9520 failure
// (recordResolutionZoneFailure) and returns a SERVFAIL that is NOT
// request-local, which the cache middleware records as well.
//
// Result: a moment of local saturation at the nameserver's zone makes the
// resolver answer every other client asking for the delegated zone with a
// cached SERVFAIL for the failure-cache backoff (5s, doubling), without ever
// contacting the perfectly healthy authority — long after the capacity that
// was refused has been given back.

// auditSubPipelineQueryer mirrors middleware.pipelineQueryer (whose
// constructor needs an unexported *Pipeline): internal writer, the request
// tree's retry guard, and request-local failures surfaced as errors.
type auditSubPipelineQueryer struct{ handlers []middleware.Handler }

func (q *auditSubPipelineQueryer) Query(ctx context.Context, req *dns.Msg) (*dns.Msg, error) {
	ctx, _ = middleware.EnsureResolutionAttemptGuard(ctx)
	w := mock.NewWriter("tcp", "127.0.0.255:0") // the internal sentinel
	ch := middleware.NewChain(q.handlers)
	ch.Reset(w, req)
	ch.Next(ctx)
	if err := middleware.RecursionWorkEnforcementError(ctx); err != nil {
		return nil, err
	}
	if err := middleware.RequestLocalFailureForResponse(ctx, w.Msg()); err != nil {
		return nil, err
	}
	if !w.Written() {
		return nil, middleware.ErrNoResponse
	}
	return w.Msg(), nil
}

func TestAuditShedNameserverLookupPoisonsOtherClients(t *testing.T) {
	var ignore int64

	soa := func(zone string) *dns.Msg {
		m := &dns.Msg{}
		m.Authoritative = true
		owner, host := zone, "ns."+zone
		if zone == "." {
			host = "a.root."
		}
		m.Ns = []dns.RR{mustRR(t, owner+" 30 IN SOA "+host+" hostmaster."+host+" 1 30 30 30 30")}
		return m
	}
	answerA := func(name, ip string) *dns.Msg {
		m := &dns.Msg{}
		m.Authoritative = true
		m.Answer = []dns.RR{mustRR(t, name+" 300 IN A "+ip)}
		return m
	}

	// child. — the zone the clients care about. Healthy, fast, and counted.
	var childAsked atomic.Int64
	childAddr, stopChild := startMockAuth(t, &ignore, func(q dns.Question) *dns.Msg {
		childAsked.Add(1)
		name := dns.CanonicalName(q.Name)
		if q.Qtype == dns.TypeA && strings.HasSuffix(name, ".child.") {
			return answerA(name, "192.0.2.80")
		}
		return soa("child.")
	})
	defer stopChild()

	// nszone. — where child.'s nameserver is named. It answers the
	// nameserver's address at once; the busy-*.nszone. names are what other
	// clients are waiting on, and they are held until the test lets go.
	var (
		busyHeld    atomic.Int64
		releaseBusy = make(chan struct{})
		releaseOnce sync.Once
	)
	release := func() { releaseOnce.Do(func() { close(releaseBusy) }) }
	defer release()
	nszoneAddr, stopNSZone := startMockAuth(t, &ignore, func(q dns.Question) *dns.Msg {
		name := dns.CanonicalName(q.Name)
		switch {
		case q.Qtype == dns.TypeA && name == "ns.nszone.":
			return answerA(name, "192.0.2.31")
		case q.Qtype == dns.TypeA && name == "ns-child.nszone.":
			return answerA(name, "192.0.2.32")
		case q.Qtype == dns.TypeA && strings.HasPrefix(name, "busy-"):
			busyHeld.Add(1)
			select {
			case <-releaseBusy:
			case <-time.After(1500 * time.Millisecond): // stay inside one 2s upstream attempt
			}
			return answerA(name, "192.0.2.90")
		case q.Qtype == dns.TypeA && strings.HasSuffix(name, ".nszone."):
			return answerA(name, "192.0.2.91")
		}
		return soa("nszone.")
	})
	defer stopNSZone()

	rootAddr, stopRoot := startMockAuth(t, &ignore, func(q dns.Question) *dns.Msg {
		name := dns.CanonicalName(q.Name)
		switch {
		case name == "." && q.Qtype == dns.TypeNS:
			m := &dns.Msg{}
			m.Authoritative = true
			m.Answer = []dns.RR{mustRR(t, ". 3600 IN NS a.root.")}
			return m
		case q.Qtype == dns.TypeDS:
			return soa(".")
		case dns.IsSubDomain("child.", name):
			// Out-of-bailiwick nameserver: no glue the resolver may use, so
			// it has to look ns-child.nszone. up before it can reach child.
			m := &dns.Msg{}
			m.Ns = []dns.RR{mustRR(t, "child. 3600 IN NS ns-child.nszone.")}
			return m
		case dns.IsSubDomain("nszone.", name):
			m := &dns.Msg{}
			m.Ns = []dns.RR{mustRR(t, "nszone. 3600 IN NS ns.nszone.")}
			m.Extra = []dns.RR{mustRR(t, "ns.nszone. 3600 IN A 192.0.2.31")}
			return m
		}
		return soa(".")
	})
	defer stopRoot()

	remap := map[string]string{
		"192.0.2.31:53": nszoneAddr,
		"192.0.2.32:53": childAddr,
	}
	mapper := func(addr string) string {
		if to, ok := remap[addr]; ok {
			return to
		}
		return addr
	}

	base := makeTestConfig()
	cfg := *base
	cfg.RootServers = []string{rootAddr}
	cfg.Root6Servers = nil
	cfg.DNSSEC = "off"
	cfg.IPv6Access = false
	cfg.CacheSize = 1024
	cfg.RateLimit = 0
	cfg.Prefetch = 0
	// 64 concurrent upstream queries -> a per-zone in-flight quota of
	// max(64/16, 16) = 16 (the default 1000 gives 62; same code, more clients).
	cfg.MaxConcurrentQueries = 64
	const zoneQuota = 16

	h := New(&cfg)
	h.resolver.resolveTarget.Store(&mapper)
	cm := cachemw.New(&cfg)
	defer cm.Stop()
	// What middleware.Setup auto-wires in production.
	h.SetStore(cm.Store())
	var sub middleware.Queryer = &auditSubPipelineQueryer{handlers: []middleware.Handler{cm, h}}
	h.SetQueryer(sub)
	cm.SetQueryer(sub)

	ask := func(name string) *dns.Msg {
		req := new(dns.Msg)
		req.SetQuestion(name, dns.TypeA)
		req.SetEdns0(dnsutil.DefaultMsgSize, false)
		w := mock.NewWriter("udp", "198.51.100.7:5353")
		ch := middleware.NewChain([]middleware.Handler{cm, h})
		ch.Reset(w, req)
		ctx, cancel := context.WithTimeout(context.Background(), 5*time.Second)
		defer cancel()
		ch.Next(ctx)
		return w.Msg()
	}
	describe := func(m *dns.Msg) string {
		if m == nil {
			return "<no reply>"
		}
		s := fmt.Sprintf("rcode=%s answers=%d", dns.RcodeToString[m.Rcode], len(m.Answer))
		if ede := dnsutil.GetEDE(m); ede != nil {
			s += fmt.Sprintf(" ede=%d(%s)", ede.InfoCode, ede.ExtraText)
		}
		return s
	}

	// The namespace works: nszone. resolves (and its delegation is learned).
	if resp := ask("probe.nszone."); resp == nil || resp.Rcode != dns.RcodeSuccess || len(resp.Answer) == 0 {
		t.Fatalf("fixture broken: probe.nszone. did not resolve: %s", describe(resp))
	}

	// Load: zoneQuota clients are waiting on (slow) names in nszone. Each of
	// their lookups legitimately holds one of nszone.'s in-flight slots.
	var busy sync.WaitGroup
	for i := range zoneQuota {
		busy.Add(1)
		go func() {
			defer busy.Done()
			_ = ask(fmt.Sprintf("busy-%d.nszone.", i))
		}()
	}
	deadline := time.Now().Add(3 * time.Second)
	for busyHeld.Load() < zoneQuota && time.Now().Before(deadline) {
		time.Sleep(5 * time.Millisecond)
	}
	if busyHeld.Load() < zoneQuota {
		t.Fatalf("fixture broken: only %d/%d slow lookups reached nszone.", busyHeld.Load(), zoneQuota)
	}

	// Client 1 asks for www.child. while nszone. is at its quota. Its
	// nameserver-address lookup is capacity-refused; a SERVFAIL to THIS client
	// is what the property allows.
	first := ask("www.child.")
	if first == nil {
		t.Fatal("client 1 received no reply")
	}
	t.Logf("client 1 (during saturation): %s", describe(first))
	if first.Rcode != dns.RcodeServerFailure {
		t.Fatalf("fixture broken: the nameserver-address lookup was not shed (quota not reached?): %s", describe(first))
	}

	// Load stops; every slot goes home. nszone. resolves again at once.
	release()
	busy.Wait()
	if resp := ask("after.nszone."); resp == nil || resp.Rcode != dns.RcodeSuccess {
		t.Fatalf("fixture broken: nszone. did not recover after the load stopped: %s", describe(resp))
	}

	// Client 2 asks the same question, client 3 a sibling name. Nothing is
	// saturated any more and child.'s authority has been healthy all along.
	second := ask("www.child.")
	third := ask("other.child.")
	t.Logf("client 2 (after load stopped): %s", describe(second))
	t.Logf("client 3 (after load stopped): %s", describe(third))
	t.Logf("queries that ever reached child.'s authority: %d", childAsked.Load())

	for i, resp := range []*dns.Msg{second, third} {
		if resp == nil {
			t.Fatalf("client %d received no reply", i+2)
		}
		if resp.Rcode != dns.RcodeSuccess || len(resp.Answer) == 0 {
			t.Errorf("client %d was failed by another client's capacity refusal: %s", i+2, describe(resp))
		}
	}
	if childAsked.Load() == 0 {
		t.Errorf("child.'s healthy authority was never contacted; the clients were answered from failure state published by a capacity-refused request")
	}
}
