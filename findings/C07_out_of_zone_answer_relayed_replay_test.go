package resolver

import (
	"context"
	"testing"

	"github.com/miekg/dns"
	"github.com/semihalev/sdns/internal/dnsutil"
)

// TestAuditC07AnswerRelaysOutOfZoneRecords drives a real referral chain
// (root -> evil.test. / bank.test.) against loopback authorities.
//
// The evil.test. servers answer "www.evil.test. A" with a CNAME into
// bank.test. AND, in the same answer section, an A record owned by
// www.bank.test. -- a name outside the zone whose servers sent it. The
// property says such a record must never be relayed to the client inside the
// answer (nor used to answer the question); the only acceptable data for
// www.bank.test. is what bank.test.'s own servers publish (192.0.2.80).
func TestAuditC07AnswerRelaysOutOfZoneRecords(t *testing.T) {
	hnet := newHermeticNet(t)

	bank := hnet.DelegateInsecure("bank.test.")
	bank.ServeUnsigned(mustRR(t, "www.bank.test. 300 IN A 192.0.2.80"))

	evil := hnet.DelegateInsecure("evil.test.")
	// One answer section, served by evil.test.'s authority for the question
	// (www.evil.test., A): an in-zone CNAME plus a forged out-of-zone target.
	evil.server.serve("www.evil.test.", dns.TypeA,
		mustRR(t, "www.evil.test. 300 IN CNAME www.bank.test."),
		mustRR(t, "www.bank.test. 300 IN A 198.51.100.66"),
	)
	// A plain piggy-back: an unrelated out-of-zone record next to a
	// legitimate in-zone answer.
	evil.server.serve("plain.evil.test.", dns.TypeA,
		mustRR(t, "plain.evil.test. 300 IN A 192.0.2.99"),
		mustRR(t, "login.bank.test. 300 IN A 198.51.100.67"),
	)

	handler := hnet.Handler()

	for _, qname := range []string{"www.evil.test.", "plain.evil.test."} {
		req := new(dns.Msg)
		req.SetQuestion(qname, dns.TypeA)
		req.SetEdns0(dnsutil.DefaultMsgSize, true)

		// handler.handle is exactly what DNSHandler.ServeDNS writes to the
		// client.
		resp := handler.handle(context.Background(), req)
		if resp == nil {
			t.Fatalf("%s: nil response", qname)
		}
		if resp.Rcode != dns.RcodeSuccess {
			t.Fatalf("%s: rcode = %s, want NOERROR (fixture problem)", qname, dns.RcodeToString[resp.Rcode])
		}
		if len(resp.Answer) == 0 {
			t.Fatalf("%s: empty answer (fixture problem)", qname)
		}

		for _, rr := range resp.Answer {
			owner := rr.Header().Name
			if !dns.IsSubDomain("evil.test.", owner) {
				t.Errorf("%s: answer sent by evil.test.'s servers relays a record owned outside that zone to the client: %s", qname, rr.String())
			}
			if a, ok := rr.(*dns.A); ok && (a.A.String() == "198.51.100.66" || a.A.String() == "198.51.100.67") {
				t.Errorf("%s: forged bank.test. address from evil.test.'s servers reached the client: %s", qname, rr.String())
			}
		}
	}
}
