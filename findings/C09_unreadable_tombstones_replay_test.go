package resolver

import (
	"crypto"
	"net"
	"os"
	"path/filepath"
	"sync"
	"testing"
	"time"

	"github.com/miekg/dns"
	"github.com/semihalev/sdns/config"
	"github.com/semihalev/sdns/internal/authority"
)

// ---- helpers (audit 1) ------------------------------------------------

type a1Key struct {
	key  *dns.DNSKEY
	priv crypto.Signer
}

func a1NewKSK(t *testing.T) a1Key {
	t.Helper()
	k := &dns.DNSKEY{
		Hdr:       dns.RR_Header{Name: ".", Rrtype: dns.TypeDNSKEY, Class: dns.ClassINET, Ttl: 3600},
		Flags:     257,
		Protocol:  3,
		Algorithm: dns.ED25519,
	}
	priv, err := k.Generate(256)
	if err != nil {
		t.Fatalf("generate DNSKEY: %v", err)
	}
	return a1Key{key: k, priv: priv.(crypto.Signer)}
}

func (k a1Key) sign(t *testing.T, rrset []dns.RR) *dns.RRSIG {
	t.Helper()
	now := time.Now()
	sig := &dns.RRSIG{
		Hdr:         dns.RR_Header{Name: ".", Rrtype: dns.TypeRRSIG, Class: dns.ClassINET, Ttl: 3600},
		TypeCovered: dns.TypeDNSKEY,
		Algorithm:   k.key.Algorithm,
		Labels:      0,
		OrigTtl:     3600,
		Expiration:  uint32(now.Add(6 * time.Hour).Unix()),  //nolint:gosec // test
		Inception:   uint32(now.Add(-6 * time.Hour).Unix()), //nolint:gosec // test
		KeyTag:      k.key.KeyTag(),
		SignerName:  ".",
	}
	if err := sig.Sign(k.priv, rrset); err != nil {
		t.Fatalf("sign DNSKEY RRset: %v", err)
	}
	return sig
}

// a1Root is a loopback "root server" that answers ". DNSKEY" with whatever
// the test currently publishes.
type a1Root struct {
	mu     sync.Mutex
	answer []dns.RR
	addr   string
}

func a1StartRoot(t *testing.T) *a1Root {
	t.Helper()
	pc, err := net.ListenPacket("udp", "127.0.0.1:0")
	if err != nil {
		t.Fatalf("listen: %v", err)
	}
	s := &a1Root{addr: pc.LocalAddr().String()}
	mux := dns.NewServeMux()
	mux.HandleFunc(".", func(w dns.ResponseWriter, r *dns.Msg) {
		reply := new(dns.Msg)
		reply.SetReply(r)
		reply.Authoritative = true
		if len(r.Question) == 1 && r.Question[0].Name == "." && r.Question[0].Qtype == dns.TypeDNSKEY {
			s.mu.Lock()
			reply.Answer = append(reply.Answer, s.answer...)
			s.mu.Unlock()
		}
		_ = w.WriteMsg(reply)
	})
	srv := &dns.Server{Net: "udp", PacketConn: pc, Handler: mux}
	go func() { _ = srv.ActivateAndServe() }()
	time.Sleep(20 * time.Millisecond)
	t.Cleanup(func() { _ = srv.Shutdown() })
	return s
}

func (s *a1Root) publish(rrs ...dns.RR) {
	s.mu.Lock()
	s.answer = rrs
	s.mu.Unlock()
}

// a1Resolver builds a Resolver the way NewResolver does for the fields AutoTA
// needs, but without the background run() goroutine, so the test alone decides
// when AutoTA runs.
func a1Resolver(dir, rootAddr string, configured ...*dns.DNSKEY) *Resolver {
	cfg := &config.Config{
		DNSSEC:               "on",
		Maxdepth:             30,
		MaxConcurrentQueries: 16,
		Directory:            dir,
		Timeout:              config.Duration{Duration: 2 * time.Second},
	}
	servers := &authority.Servers{Zone: "."}
	servers.List = append(servers.List, authority.NewServer(rootAddr, authority.IPv4))

	r := &Resolver{
		cfg:             cfg,
		delegations:     authority.NewCache(),
		rootServers:     servers,
		dnssec:          true,
		netTimeout:      2 * time.Second,
		sfGroup:         NewSingleflightWrapper(),
		circuitBreaker:  newCircuitBreaker(),
		maxConcurrent:   make(chan struct{}, cfg.MaxConcurrentQueries),
		resolutionSlots: make(chan struct{}, cfg.MaxConcurrentQueries),
		qnameMinLevel:   10,
	}
	for _, k := range configured {
		r.rootKeys = append(r.rootKeys, k)
		r.configuredRootKeys = append(r.configuredRootKeys, k)
	}
	return r
}

func a1Trusts(r *Resolver, k *dns.DNSKEY) bool {
	r.RLock()
	defer r.RUnlock()
	for _, rr := range r.rootKeys {
		if have, ok := rr.(*dns.DNSKEY); ok &&
			have.Algorithm == k.Algorithm && have.Protocol == k.Protocol && have.PublicKey == k.PublicKey {
			return true
		}
	}
	return false
}

// TestAuditC09UnreadableTombstoneStoreTrustsRevokedKey:
//
// "... if neither record of a new revocation can be persisted, or the
// revocation store is unreadable, validation fails closed instead of
// trusting it" and "A key whose self-signed revocation was accepted is never
// published as a trust anchor again - not after ... configuration that still
// lists it".
//
// AutoTA fails closed only when the tombstone file opens and then fails to
// gob-decode. When the file exists but cannot be opened (EACCES, ELOOP, EMFILE,
// EIO ...) it logs a warning and carries on with an EMPTY tombstone set: the
// revoked key that configuration still lists is merged back in as Valid and
// published, and the end-of-run writeTombstones then replaces the real store
// with the empty one, making the loss permanent.
func TestAuditC09UnreadableTombstoneStoreTrustsRevokedKey(t *testing.T) {
	dir, err := os.MkdirTemp("", "sdns-audit-c09-1-")
	if err != nil {
		t.Fatal(err)
	}
	t.Cleanup(func() { _ = os.RemoveAll(dir) })

	revokedKey := a1NewKSK(t) // K: revocation accepted in the past, still listed in config
	activeKey := a1NewKSK(t)  // A: the current, legitimate anchor

	// The durable record of K's accepted revocation, exactly as AutoTA writes it.
	tombPath := filepath.Join(dir, tombstoneFile)
	revokedForm := *revokedKey.key
	revokedForm.Flags |= DNSKEYFlagRevoke
	if err := writeTombstones(tombPath, Tombstones{
		dnskeyMaterialFP(&revokedForm): {DNSKey: &revokedForm, FirstSeen: time.Now().Add(-100 * 24 * time.Hour)},
	}); err != nil {
		t.Fatalf("seed tombstones: %v", err)
	}

	// Sanity: with the store readable, the property holds — K is dropped.
	root := a1StartRoot(t)
	root.publish(activeKey.key, activeKey.sign(t, []dns.RR{activeKey.key}))
	{
		r := a1Resolver(dir, root.addr, revokedKey.key, activeKey.key)
		r.AutoTA()
		if a1Trusts(r, revokedKey.key) {
			t.Fatalf("precondition: readable tombstone store did not suppress the revoked key")
		}
		if !a1Trusts(r, activeKey.key) {
			t.Fatalf("precondition: active anchor not trusted after a clean refresh")
		}
	}
	// Start the second "process" from a clean main state file so only the
	// tombstone store stands between config and the live trust set.
	_ = os.Remove(filepath.Join(dir, stateFile))

	// Now make the revocation store unreadable without removing it.
	if err := os.Chmod(tombPath, 0); err != nil {
		t.Fatal(err)
	}
	how := "chmod 000 (EACCES)"
	if f, err := os.Open(tombPath); err == nil {
		// Running as root: permissions do not bite. Use another open(2)
		// failure that is not ENOENT — a symlink loop (ELOOP).
		_ = f.Close()
		if err := os.Remove(tombPath); err != nil {
			t.Fatal(err)
		}
		if err := os.Symlink(tombstoneFile, tombPath); err != nil {
			t.Fatal(err)
		}
		how = "self-referential symlink (ELOOP)"
	}
	if _, err := readTombstones(tombPath); err == nil {
		t.Fatalf("setup: tombstone store still readable after %s", how)
	} else {
		t.Logf("tombstone store made unreadable via %s: %v", how, err)
	}

	r := a1Resolver(dir, root.addr, revokedKey.key, activeKey.key)
	r.AutoTA()

	if a1Trusts(r, revokedKey.key) {
		t.Errorf("revocation store unreadable (%s): AutoTA did not fail closed — the revoked key (tag %d) "+
			"that config still lists is published in the live trust set", how, revokedKey.key.KeyTag())
	}
	if r.hasTrustAnchors() {
		t.Errorf("revocation store unreadable (%s): validation did not fail closed, %d anchors live", how, len(r.rootKeys))
	}
	// And the damage is permanent: the store was overwritten without K.
	if after, err := readTombstones(tombPath); err == nil {
		if _, ok := after[dnskeyMaterialFP(revokedKey.key)]; !ok {
			t.Errorf("the unreadable revocation store was replaced by one that no longer records the revoked key (%d entries)", len(after))
		}
	}
}
