package dnssec

import (
	"testing"

	"github.com/miekg/dns"
)

// C02 audit 3: an NSEC whose next name lies BELOW the name being tested is
// read as proof that the name does not exist.
//
// Canonical order puts a name directly before its descendants, so
// owner < N < next holds for an empty non-terminal N whenever next is a
// descendant of N. Such an NSEC says N EXISTS (RFC 4592 section 2.2.2,
// RFC 8198 section 5.2). VerifyNameErrorNSEC knows this for the query name
// itself (it checks nsecProperAncestor(qname, covering.NextDomain)), and the
// RFC 8198 evaluator knows it everywhere (aggressiveNameENT), but two other
// uses of the bare nsecCovers() interval test do not:
//
//  1. wildcard.go nextCloserDeniedWithWork: the "no closer match" proof for a
//     wildcard-expanded answer.
//  2. nsec.go VerifyNameErrorNSEC: the "no wildcard at the closest encloser"
//     leg of an NXDOMAIN proof.

func auditC02NSEC(owner, next string, bitmap ...uint16) *dns.NSEC {
	return &dns.NSEC{
		Hdr:        dns.RR_Header{Name: owner, Rrtype: dns.TypeNSEC, Class: dns.ClassINET, Ttl: 300},
		NextDomain: next,
		TypeBitMap: bitmap,
	}
}

// Zone example.:   *.example. A ,  b.a.example. A   (so a.example. is an
// empty non-terminal). Chain: example. -> *.example. -> b.a.example. -> example.
//
// x.a.example. does not exist and no wildcard applies to it: its closest
// encloser is the ENT a.example. and there is no *.a.example. - the true
// answer is NXDOMAIN. A forger takes the zone's genuine *.example. A RRset
// with its RRSIG (Labels=1), prints x.a.example. on it, and adds the genuine
// NSEC  *.example. NSEC b.a.example.  That NSEC "covers" the next closer name
// a.example. only in the sense that a.example. sorts inside it; its next name
// is below a.example., i.e. it proves a.example. exists.
func TestAuditC02WildcardAnswerDeniesEmptyNonTerminal(t *testing.T) {
	answer := func(owner string) []dns.RR {
		return []dns.RR{
			&dns.A{Hdr: dns.RR_Header{Name: owner, Rrtype: dns.TypeA, Class: dns.ClassINET, Ttl: 300}, A: []byte{192, 0, 2, 1}},
			&dns.RRSIG{
				Hdr:         dns.RR_Header{Name: owner, Rrtype: dns.TypeRRSIG, Class: dns.ClassINET, Ttl: 300},
				TypeCovered: dns.TypeA, Labels: 1, SignerName: "example.",
			},
		}
	}
	wild := auditC02NSEC("*.example.", "b.a.example.", dns.TypeA, dns.TypeRRSIG, dns.TypeNSEC)

	// control: the same NSEC is a sound proof for a name whose next closer
	// name really is absent (0.example. sorts inside the interval and nothing lies below it)
	ctl := new(dns.Msg)
	ctl.SetQuestion("y.0.example.", dns.TypeA)
	ctl.Answer = answer("y.0.example.")
	ctl.Ns = []dns.RR{wild}
	if _, err := VerifyWildcardAnswerForZoneWithWork(ctl, "example.", nil); err != nil {
		t.Fatalf("setup: a genuine wildcard expansion must validate: %v", err)
	}

	resp := new(dns.Msg)
	resp.SetQuestion("x.a.example.", dns.TypeA)
	resp.Answer = answer("x.a.example.")
	resp.Ns = []dns.RR{wild}
	secure, err := VerifyWildcardAnswerForZoneWithWork(resp, "example.", nil)
	if err == nil {
		t.Errorf("wildcard answer for x.a.example. validated (secure=%v): the next closer name a.example. "+
			"was taken as denied by  *.example. NSEC b.a.example. , an NSEC that shows a.example. is an "+
			"existing empty non-terminal", secure)
	}
}

// Zone example.:   sub.*.example. TXT , a.example. A , z.example. A   (so
// *.example. is an empty non-terminal: it exists, owns nothing, and is the
// source of synthesis for every otherwise unmatched name under example.).
// Chain: example. -> sub.*.example. -> a.example. -> z.example. -> example.
//
// m.example. matches *.example., so the answer is NOERROR/NODATA (RFC 4592
// section 2.2.2/3.3.1; EvaluateAggressiveNSEC returns exactly that). The
// "wildcard does not exist" leg is satisfied by  example. NSEC sub.*.example.
// whose next name is below *.example.
func TestAuditC02NameErrorDeniesEmptyNonTerminalWildcard(t *testing.T) {
	set := []dns.RR{
		auditC02NSEC("example.", "sub.*.example.", dns.TypeSOA, dns.TypeNS, dns.TypeRRSIG, dns.TypeNSEC),
		auditC02NSEC("a.example.", "z.example.", dns.TypeA, dns.TypeRRSIG, dns.TypeNSEC),
	}
	msg := new(dns.Msg)
	msg.SetQuestion("m.example.", dns.TypeA)
	msg.Rcode = dns.RcodeNameError

	// control: the evaluator meant to behave alike sees the wildcard
	res, err := EvaluateAggressiveNSEC(msg.Question[0], "example.", set)
	if err != nil || res.Rcode != dns.RcodeSuccess {
		t.Fatalf("setup: EvaluateAggressiveNSEC should classify m.example. as wildcard-ENT NODATA, got rcode=%d err=%v", res.Rcode, err)
	}
	// control: without the ENT wildcard the same shape is a fine NXDOMAIN proof
	plain := []dns.RR{
		auditC02NSEC("example.", "a.example.", dns.TypeSOA, dns.TypeNS, dns.TypeRRSIG, dns.TypeNSEC),
		set[1],
	}
	if err := VerifyNameErrorNSEC(msg, plain); err != nil {
		t.Fatalf("setup: plain NXDOMAIN proof must verify: %v", err)
	}

	if err := VerifyNameErrorNSEC(msg, set); err == nil {
		t.Errorf("NXDOMAIN for m.example. validated although  example. NSEC sub.*.example.  shows that " +
			"*.example. exists (as an empty non-terminal) and therefore matches m.example.")
	}
}
