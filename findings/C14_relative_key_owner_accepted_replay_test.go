package dnssec

import (
	"bytes"
	"crypto/ed25519"
	"encoding/base64"
	"testing"
	"time"

	"github.com/miekg/dns"
)

// The library binds an RRSIG to a DNSKEY by comparing the canonical (fully
// qualified) signer name with the key's owner name, so a DNSKEY whose owner
// is spelled without the trailing dot is never the key of any signature
// (ErrKey). sdns compares the two spellings as given, so the same key and
// signature are accepted: more permissive than the reference.
func TestAuditRelativeKeyOwnerAcceptedWhereLibraryRefuses(t *testing.T) {
	seed := bytes.Repeat([]byte{0x17}, ed25519.SeedSize)
	priv := ed25519.NewKeyFromSeed(seed)
	pub := priv.Public().(ed25519.PublicKey)

	key := &dns.DNSKEY{
		Hdr:       dns.RR_Header{Name: "example", Rrtype: dns.TypeDNSKEY, Class: dns.ClassINET, Ttl: 3600},
		Flags:     256,
		Protocol:  3,
		Algorithm: dns.ED25519,
		PublicKey: base64.StdEncoding.EncodeToString(pub),
	}

	now := uint32(time.Now().Unix())
	rrset := []dns.RR{&dns.A{
		Hdr: dns.RR_Header{Name: "www.example.", Rrtype: dns.TypeA, Class: dns.ClassINET, Ttl: 300},
		A:   []byte{192, 0, 2, 1},
	}}
	sig := &dns.RRSIG{
		Algorithm:  dns.ED25519,
		Inception:  now - 3600,
		Expiration: now + 3600,
		KeyTag:     key.KeyTag(),
		SignerName: "example",
	}
	if err := sig.Sign(priv, rrset); err != nil {
		t.Fatalf("signing: %v", err)
	}

	// Reference verdict: the library refuses this key for this signature.
	libErr := sig.Verify(key, rrset)
	if libErr == nil {
		t.Fatal("test premise broken: the library accepts")
	}

	if err := verifySignature(key, sig, rrset); err == nil {
		t.Errorf("verifySignature accepted key owner %q for signer %q; the library says %v",
			key.Hdr.Name, sig.SignerName, libErr)
	}

	msg := new(dns.Msg)
	msg.Answer = append(append([]dns.RR{}, rrset...), sig)
	keys := map[uint16][]*dns.DNSKEY{KeyTag(key): {key}}
	if ok, err := VerifyRRSIG("example", keys, msg); ok && err == nil {
		t.Errorf("VerifyRRSIG accepted the RRset under key owner %q; the library says %v", key.Hdr.Name, libErr)
	}
}
