package server

import (
	"context"
	"encoding/binary"
	"io"
	"net"
	"sync/atomic"
	"testing"
	"time"

	"github.com/miekg/dns"
	"github.com/semihalev/sdns/config"
	"github.com/semihalev/sdns/middleware"
	"github.com/semihalev/sdns/middleware/accesslist"
)

// auditC17WireAnswerer stands in for everything behind the access list
// (cache, resolver): it counts the queries that got past the list and
// answers them.
type auditC17WireAnswerer struct{ hits *atomic.Int64 }

func (auditC17WireAnswerer) Name() string { return "audit-c17-wire-answerer" }

func (a auditC17WireAnswerer) ServeDNS(ctx context.Context, ch *middleware.Chain) {
	a.hits.Add(1)
	_, req := ch.Materialize(ctx)
	if req == nil {
		return
	}
	resp := new(dns.Msg)
	resp.SetReply(req)
	_ = ch.Writer.WriteMsg(resp)
	ch.Cancel()
}

// newAuditC17WireServer builds a server whose pipeline is the real access
// list (only 10.0.0.0/8 admitted) in front of a counting answerer.
func newAuditC17WireServer(t *testing.T) (*Server, *atomic.Int64) {
	t.Helper()
	hits := new(atomic.Int64)
	middleware.Reset()
	t.Cleanup(middleware.Reset)
	middleware.Register("accesslist", func(cfg *config.Config) middleware.Handler { return accesslist.New(cfg) })
	middleware.Register("audit-c17-wire-answerer", func(*config.Config) middleware.Handler { return auditC17WireAnswerer{hits: hits} })
	cfg := &config.Config{Bind: "127.0.0.1:0", AccessList: []string{"10.0.0.0/8"}}
	middleware.Setup(cfg)
	return New(cfg), hits
}

// C17: "A query whose source address is outside the configured access list
// gets no reply ... on every transport and on both the wire and decoded
// paths."
//
// The owned UDP and TCP engines run a header-level accept on the raw bytes
// and build NOTIMP / FORMERR replies in place (udpJob.rejectInPlace,
// tcpJob.rejectInPlace) before the packet is ever handed to the pipeline,
// and they do the same when ServeRaw reports an undecodable body. The
// access list lives in the pipeline, so none of those replies is subject to
// it: a source the list excludes is answered.
func TestAuditC17WirePathRepliesToDeniedSource(t *testing.T) {
	s, hits := newAuditC17WireServer(t) // admits 10.0.0.0/8 only; the client below is 127.0.0.1

	wellFormed := new(dns.Msg)
	wellFormed.SetQuestion("example.com.", dns.TypeA)
	wellFormedRaw, err := wellFormed.Pack()
	if err != nil {
		t.Fatal(err)
	}

	status := append([]byte(nil), wellFormedRaw...)
	status[2] = (status[2] &^ 0x78) | byte(dns.OpcodeStatus<<3) // opcode STATUS

	twoQuestions := append([]byte(nil), wellFormedRaw...)
	binary.BigEndian.PutUint16(twoQuestions[4:6], 2) // QDCOUNT=2

	// Header passes the accept (QDCOUNT=1, QUERY) but the question is cut
	// short, so ServeRaw's Unpack fails and the engine FORMERRs.
	truncatedBody := append([]byte(nil), wellFormedRaw[:len(wellFormedRaw)-3]...)

	cases := []struct {
		name string
		raw  []byte
	}{
		{"opcode STATUS", status},
		{"QDCOUNT=2", twoQuestions},
		{"undecodable body", truncatedBody},
	}

	t.Run("udp", func(t *testing.T) {
		addr, stop := startEngine(t, s, 2, 16)
		defer stop()

		exchange := func(raw []byte) *dns.Msg {
			conn, err := net.Dial("udp", addr)
			if err != nil {
				t.Fatal(err)
			}
			defer conn.Close()
			if _, err := conn.Write(raw); err != nil {
				t.Fatal(err)
			}
			_ = conn.SetReadDeadline(time.Now().Add(400 * time.Millisecond))
			buf := make([]byte, 4096)
			n, err := conn.Read(buf)
			if err != nil {
				return nil // silence
			}
			m := new(dns.Msg)
			_ = m.Unpack(buf[:n])
			return m
		}

		// Control: the list is live on this transport — an ordinary query
		// from 127.0.0.1 is dropped without reaching anything behind it.
		if m := exchange(wellFormedRaw); m != nil || hits.Load() != 0 {
			t.Fatalf("control: denied source was served an ordinary query (reply=%v hits=%d)", m, hits.Load())
		}

		for _, tc := range cases {
			t.Run(tc.name, func(t *testing.T) {
				if m := exchange(tc.raw); m != nil {
					t.Errorf("UDP source 127.0.0.1 is outside the access list %v but received a reply (rcode %s)",
						s.cfg.AccessList, dns.RcodeToString[m.Rcode])
				}
			})
		}
	})

	t.Run("tcp", func(t *testing.T) {
		addr, _, stop := startTCPEngine(t, s, 8)
		defer stop()

		exchange := func(raw []byte) *dns.Msg {
			conn, err := net.Dial("tcp", addr)
			if err != nil {
				t.Fatal(err)
			}
			defer conn.Close()
			writeFrame(t, conn, raw)
			_ = conn.SetReadDeadline(time.Now().Add(400 * time.Millisecond))
			var prefix [2]byte
			if _, err := io.ReadFull(conn, prefix[:]); err != nil {
				return nil // silence (timeout or close without a reply)
			}
			body := make([]byte, binary.BigEndian.Uint16(prefix[:]))
			if _, err := io.ReadFull(conn, body); err != nil {
				return nil
			}
			m := new(dns.Msg)
			_ = m.Unpack(body)
			return m
		}

		before := hits.Load()
		if m := exchange(wellFormedRaw); m != nil || hits.Load() != before {
			t.Fatalf("control: denied TCP source was served an ordinary query (reply=%v)", m)
		}

		for _, tc := range cases {
			t.Run(tc.name, func(t *testing.T) {
				if m := exchange(tc.raw); m != nil {
					t.Errorf("TCP source 127.0.0.1 is outside the access list %v but received a reply (rcode %s)",
						s.cfg.AccessList, dns.RcodeToString[m.Rcode])
				}
			})
		}
	})
}
