package resolver

import (
	"context"
	"testing"
	"time"

	"github.com/miekg/dns"
	"github.com/semihalev/sdns/internal/authority"
	"github.com/semihalev/sdns/internal/cache"
	"github.com/semihalev/sdns/internal/dnsutil"
)

// C07: "No record owned outside the zone whose servers sent it is ... relayed
// to the client inside the answer."
//
// Route: resolve() -> a reply with an error rcode and empty answer and
// authority sections. NXDOMAIN goes on to authority(), which cuts the
// additional section down to the zone; every other rcode is returned as it
// came off the wire ("return resp, nil"), additional section included, and the
// handler passes SERVFAIL / FORMERR / NOTIMP / YXDOMAIN ... straight on to the
// client (the cache middleware writes a failure reply through verbatim).
func TestAuditC07ErrorRcodeRelaysForeignAdditional(t *testing.T) {
	cfg := makeTestConfig()
	if cfg.QueryTimeout.Duration == 0 {
		cfg.QueryTimeout.Duration = 5 * time.Second
	}

	const zone = "zaudit3.test."

	var hits int64
	addr, stop := startMockAuth(t, &hits, func(q dns.Question) *dns.Msg {
		m := &dns.Msg{}
		m.Rcode = dns.RcodeServerFailure
		// Not the sender's to give.
		m.Extra = []dns.RR{
			mustRR(t, "victim-audit3.example. 3600 IN A 6.6.6.6"),
			mustRR(t, "ns.victim-audit3.example. 3600 IN AAAA 2001:db8::666"),
		}
		return m
	})
	defer stop()

	r := newWiredTestResolver(cfg)
	servers := &authority.Servers{
		Zone:            zone,
		List:            []*authority.Server{authority.NewServer(addr, authority.IPv4)},
		CheckingDisable: true,
	}
	r.delegations.Set(cache.Key(dns.Question{Name: zone, Qtype: dns.TypeNS, Qclass: dns.ClassINET}, true), nil, servers, time.Hour)

	h := &DNSHandler{resolver: r, cfg: cfg}

	req := new(dns.Msg)
	req.SetQuestion("www.zaudit3.test.", dns.TypeA)
	req.CheckingDisabled = true

	ctx := context.WithValue(context.Background(), contextKeyRequestID, req.Id)
	resp := h.handle(ctx, req)
	if resp == nil {
		t.Fatal("no response")
	}
	if resp.Rcode != dns.RcodeServerFailure {
		t.Fatalf("fixture did not take the error-rcode route: rcode=%s\n%v", dns.RcodeToString[resp.Rcode], resp)
	}

	for section, rrs := range map[string][]dns.RR{"answer": resp.Answer, "authority": resp.Ns, "additional": resp.Extra} {
		for _, rr := range rrs {
			if rr.Header().Rrtype == dns.TypeOPT {
				continue
			}
			if !dnsutil.NameInZone(dns.CanonicalName(rr.Header().Name), zone) {
				t.Errorf("%s section relays a record owned outside %s, the zone whose servers sent it: %s", section, zone, rr)
			}
		}
	}
	if t.Failed() {
		t.Logf("reply handed to the client:\n%v", resp)
	}
}
