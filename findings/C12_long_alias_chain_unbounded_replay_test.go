package cache

import (
	"context"
	"fmt"
	"strings"
	"sync/atomic"
	"testing"
	"time"

	"github.com/miekg/dns"
	"github.com/semihalev/sdns/config"
	"github.com/semihalev/sdns/internal/mock"
	"github.com/semihalev/sdns/middleware"
)

// auditAliasAuthority stands where the resolver stands in the pipeline: it is
// the terminal handler below the cache and answers every question the way an
// authority holding one long alias chain would,
//
//	c0.chain.test. CNAME c1.chain.test. CNAME c2.chain.test. ... CNAME c<N>.chain.test. A
//
// one alias per response. Every call is one full upstream resolution.
type auditAliasAuthority struct {
	length      int
	resolutions atomic.Int64
}

func (a *auditAliasAuthority) Name() string { return "audit-alias-authority" }

func (a *auditAliasAuthority) ServeDNS(ctx context.Context, ch *middleware.Chain) {
	_, req := ch.Materialize(ctx)
	if req == nil || len(req.Question) != 1 {
		ch.Cancel()
		return
	}
	a.resolutions.Add(1)

	q := req.Question[0]
	name := strings.ToLower(q.Name)
	var i int
	_, _ = fmt.Sscanf(name, "c%d.chain.test.", &i)

	resp := new(dns.Msg)
	resp.SetReply(req)
	resp.RecursionAvailable = true
	hdr := dns.RR_Header{Name: q.Name, Class: dns.ClassINET, Ttl: 300}
	if i < a.length {
		hdr.Rrtype = dns.TypeCNAME
		resp.Answer = []dns.RR{&dns.CNAME{Hdr: hdr, Target: fmt.Sprintf("c%d.chain.test.", i+1)}}
	} else {
		hdr.Rrtype = dns.TypeA
		resp.Answer = []dns.RR{&dns.A{Hdr: hdr, A: []byte{192, 0, 2, 1}}}
	}
	_ = ch.Writer.WriteMsg(resp)
	ch.Cancel()
}

// TestAuditAliasChainWorkIsBounded drives one client query for the head of a
// long CNAME chain through the real cache middleware, wired to the real
// pipeline Queryer exactly as middleware.Setup wires it, with the recursion
// firewall in its default (shadow) mode.
//
// The chase has two caps: additionalAnswer follows at most 10 aliases per
// invocation, and at most maxCnameChaseDepth invocations may nest. Resolving
// one client query must therefore cost a bounded number of upstream
// resolutions whatever the chain looks like, and must end in an answer -
// one that fits in a DNS message - or in SERVFAIL.
func TestAuditAliasChainWorkIsBounded(t *testing.T) {
	const chainLength = 4000

	cfg := &config.Config{Expire: 300, CacheSize: 65536, Prefetch: 0, RateLimit: 0, Maxdepth: 30}
	// cfg.RecursionFirewall is left zero: Normalize turns that into the
	// default, mode "shadow" with the default budgets.

	c := New(cfg)
	defer c.Stop()
	authority := &auditAliasAuthority{length: chainLength}

	reg := middleware.NewRegistry()
	reg.Register("cache", func(*config.Config) middleware.Handler { return c })
	reg.Register(authority.Name(), func(*config.Config) middleware.Handler { return authority })
	pipeline := reg.Build(cfg)
	queryer := middleware.NewPipelineQueryer(pipeline.SubPipeline())
	c.SetQueryer(queryer)
	c.SetPrefetchQueryer(queryer)

	req := new(dns.Msg)
	req.SetQuestion("c0.chain.test.", dns.TypeA)
	req.SetEdns0(1232, false)

	ctx, cancel := context.WithTimeout(context.Background(), 20*time.Second)
	defer cancel()

	w := mock.NewWriter("tcp", "192.0.2.53:53000")
	ch := pipeline.NewChain()
	ch.Reset(w, req)
	ch.Next(ctx)
	pipeline.PutChain(ch)

	if !w.Written() {
		t.Fatal("the client query produced no reply at all")
	}
	resp := w.Msg()

	// Ten aliases per invocation, maxCnameChaseDepth nested invocations, plus
	// the client's own question and the terminal address lookup.
	const structuralBound = 10*maxCnameChaseDepth + 10
	if got := authority.resolutions.Load(); got > structuralBound {
		t.Errorf("one client query caused %d upstream resolutions (chain of %d aliases followed to its end); "+
			"the chase caps allow at most %d, so the work is bounded only by the length of the chain the zone chose",
			got, chainLength, structuralBound)
	}

	if resp.Rcode != dns.RcodeServerFailure {
		packed, err := resp.Pack()
		if err != nil {
			t.Errorf("the reply is not SERVFAIL and cannot be packed: %v", err)
		} else if len(packed) > dns.MaxMsgSize {
			t.Errorf("the reply is %s with %d answer records and packs to %d bytes: over the %d-byte limit of a DNS "+
				"message, so it cannot be delivered (over UDP it is cut down to an empty TC=1 reply, and the TCP/DoT "+
				"writer refuses the frame with ErrFrameTooLarge and sends nothing): the query ends in neither an answer nor SERVFAIL",
				dns.RcodeToString[resp.Rcode], len(resp.Answer), len(packed), dns.MaxMsgSize)
		}
	}
}
