package resolver

import (
	"testing"

	"github.com/miekg/dns"
	"github.com/semihalev/sdns/internal/cache"
)

// C01: "A zone is treated as unsigned only on a validated proof that its
// parent holds no usable DS for it" and "if any response on the path is
// unsigned ... the client gets SERVFAIL ... never altered data", including
// "replies later served from caches filled during the same history".
//
// One ordinary client query of type RRSIG (CD=0) for a name under a signed,
// DS-delegated zone makes the resolver cache that zone's delegation with an
// EMPTY DS set in the CD=0 bucket: verifyDNSSEC answers (false, nil) for every
// question whose qtype is RRSIG ("we don't need to verify rrsig questions"),
// validateDelegation reads that (false, nil) as "every DS unsupported, treat
// the child as insecure", and processDelegation stores the empty DS set.
// From then on the signed zone is treated as unsigned: an answer stripped of
// its signatures (or plainly forged) is relayed as NOERROR instead of SERVFAIL.
func TestAuditC01RRSIGQueryDowngradesSignedZone(t *testing.T) {
	n := newHermeticNet(t)
	z := n.Delegate("secure.test.") // signed child, DS published and signed by the root
	z.Serve(mustRR(t, "www.secure.test. 300 IN A 192.0.2.10"))
	// What an attacker on the path produces: data under the signed zone with
	// no signature at all.
	z.ServeUnsigned(mustRR(t, "evil.secure.test. 300 IN A 6.6.6.6"))

	// Control: a resolver with no history refuses the unsigned data.
	control := hermeticAsk(t, n.Handler(), "evil.secure.test.", dns.TypeA)
	if control.Rcode != dns.RcodeServerFailure {
		t.Fatalf("control: rcode = %s, want SERVFAIL for unsigned data under a signed zone",
			dns.RcodeToString[control.Rcode])
	}

	// Same namespace, fresh resolver; the first thing a client asks is an
	// RRSIG-type question below the signed zone.
	h := n.Handler()
	_ = hermeticAsk(t, h, "www.secure.test.", dns.TypeRRSIG)

	// The parent published a DS for secure.test. and never denied it, so
	// nothing may have recorded the zone as having no DS.
	nsq := dns.Question{Name: "secure.test.", Qtype: dns.TypeNS, Qclass: dns.ClassINET}
	if d, err := h.resolver.delegations.Get(cache.Key(nsq, false)); err == nil && len(d.DSSet) == 0 {
		t.Errorf("after an RRSIG-type query the CD=0 delegation for secure.test. is cached with an empty DS set " +
			"although the root's referral carried a signed DS: the zone is now treated as unsigned without any proof")
	}

	resp := hermeticAsk(t, h, "evil.secure.test.", dns.TypeA)
	if resp.Rcode != dns.RcodeServerFailure {
		t.Fatalf("after an RRSIG-type query: rcode = %s with %d answer record(s) %v, want SERVFAIL: "+
			"unsigned data under a signed zone was relayed to a CD=0 client",
			dns.RcodeToString[resp.Rcode], len(resp.Answer), resp.Answer)
	}
}
