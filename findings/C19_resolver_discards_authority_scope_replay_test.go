package resolver

import (
	"context"
	"net"
	"sync"
	"testing"
	"time"

	"github.com/miekg/dns"
	"github.com/semihalev/sdns/internal/mock"
	"github.com/semihalev/sdns/middleware"
	cachemw "github.com/semihalev/sdns/middleware/cache"
	"github.com/semihalev/sdns/middleware/edns"
)

// TestAuditC19ResolverKeepsAuthorityScope drives the production handler order
// edns -> cache -> resolver against a loopback authority that tailors its
// answer to the forwarded client subnet and declares SCOPE /24 (RFC 7871).
//
// Property C19: "An answer for which the authority declared a non-zero scope
// is served only to clients inside that scope".
//
// Two clients in different /24s ask the same name. The second one must not be
// handed the first one's subnet-specific answer out of the cache.
func TestAuditC19ResolverKeepsAuthorityScope(t *testing.T) {
	pc, err := net.ListenPacket("udp", "127.0.0.1:0")
	if err != nil {
		t.Fatalf("listen udp: %v", err)
	}

	var (
		mu      sync.Mutex
		subnets []string // ECS source the authority saw, per geo.test. A query
	)
	mux := dns.NewServeMux()
	mux.HandleFunc(".", func(w dns.ResponseWriter, r *dns.Msg) {
		reply := new(dns.Msg)
		reply.SetReply(r)
		reply.Authoritative = true
		q := r.Question[0]
		if dns.CanonicalName(q.Name) != "geo.test." || q.Qtype != dns.TypeA {
			reply.Ns = []dns.RR{mustRR(t, ". 30 IN SOA a.root. hostmaster.root. 1 30 30 30 30")}
			_ = w.WriteMsg(reply)
			return
		}

		// Tailor the answer to the subnet and say so: SCOPE = 24.
		answer := "geo.test. 300 IN A 192.0.2.99" // what a client without ECS gets
		seen := "none"
		if opt := r.IsEdns0(); opt != nil {
			for _, o := range opt.Option {
				sub, ok := o.(*dns.EDNS0_SUBNET)
				if !ok {
					continue
				}
				seen = sub.Address.String()
				switch seen {
				case "198.51.100.0":
					answer = "geo.test. 300 IN A 192.0.2.1"
				case "203.0.113.0":
					answer = "geo.test. 300 IN A 192.0.2.2"
				}
				ropt := new(dns.OPT)
				ropt.Hdr.Name = "."
				ropt.Hdr.Rrtype = dns.TypeOPT
				ropt.SetUDPSize(1232)
				ropt.Option = append(ropt.Option, &dns.EDNS0_SUBNET{
					Code:          dns.EDNS0SUBNET,
					Family:        sub.Family,
					SourceNetmask: sub.SourceNetmask,
					SourceScope:   24,
					Address:       sub.Address,
				})
				reply.Extra = append(reply.Extra, ropt)
			}
		}
		mu.Lock()
		subnets = append(subnets, seen)
		mu.Unlock()
		reply.Answer = []dns.RR{mustRR(t, answer)}
		_ = w.WriteMsg(reply)
	})
	server := &dns.Server{Net: "udp", PacketConn: pc, Handler: mux}
	go func() { _ = server.ActivateAndServe() }()
	time.Sleep(10 * time.Millisecond)
	defer func() { _ = server.Shutdown() }()

	base := makeTestConfig()
	cfg := *base
	cfg.RootServers = []string{pc.LocalAddr().String()}
	cfg.Root6Servers = nil
	cfg.IPv6Access = false
	cfg.DNSSEC = "off"
	cfg.CacheSize = 1024
	cfg.Prefetch = 0
	cfg.RateLimit = 0
	cfg.ECS.Enabled = true // forward_v4 defaults to /24, every client eligible

	h := New(&cfg)
	e := edns.New(&cfg)
	cm := cachemw.New(&cfg)
	defer cm.Stop()
	sub := &chainQueryer{handlers: []middleware.Handler{h}}
	cm.SetQueryer(sub)
	cm.SetPrefetchQueryer(sub)

	ask := func(client, subnet string) string {
		t.Helper()
		req := new(dns.Msg)
		req.SetQuestion("geo.test.", dns.TypeA)
		req.SetEdns0(1232, false)
		req.IsEdns0().Option = append(req.IsEdns0().Option, &dns.EDNS0_SUBNET{
			Code:          dns.EDNS0SUBNET,
			Family:        1,
			SourceNetmask: 24,
			Address:       net.ParseIP(subnet).To4(),
		})
		w := mock.NewWriter("udp", client+":5353")
		ch := middleware.NewChain([]middleware.Handler{e, cm, h})
		ch.Reset(w, req)
		ch.Next(context.Background())
		if !w.Written() {
			t.Fatalf("client %s: no response written", client)
		}
		resp := w.Msg()
		if resp.Rcode != dns.RcodeSuccess || len(resp.Answer) != 1 {
			t.Fatalf("client %s: rcode=%s answers=%d", client, dns.RcodeToString[resp.Rcode], len(resp.Answer))
		}
		return resp.Answer[0].(*dns.A).A.String()
	}

	if got := ask("198.51.100.7", "198.51.100.0"); got != "192.0.2.1" {
		t.Fatalf("first client (198.51.100.0/24): got %s, want its own tailored answer 192.0.2.1", got)
	}
	got := ask("203.0.113.9", "203.0.113.0")

	mu.Lock()
	seen := append([]string(nil), subnets...)
	mu.Unlock()
	t.Logf("authority saw ECS sources %v", seen)

	if got == "192.0.2.1" {
		t.Fatalf("client in 203.0.113.0/24 was served %s, the answer the authority scoped to 198.51.100.0/24 "+
			"(SCOPE=24): the scope the authority declared was discarded and the answer cached for everyone "+
			"(authority saw %v)", got, seen)
	}
	if got != "192.0.2.2" {
		t.Fatalf("client in 203.0.113.0/24: got %s, want 192.0.2.2", got)
	}
}
