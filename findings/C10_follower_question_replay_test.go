package resolver

import (
	"context"
	"sync"
	"sync/atomic"
	"testing"
	"time"

	"github.com/miekg/dns"
	"github.com/semihalev/sdns/internal/dnsutil"
)

// TestAuditSharedLookupFollowerKeepsOwnQuestion drives two concurrent client
// queries for the same name, spelled differently (0x20-style case mixing),
// through the resolver handler. The second one joins the first one's
// in-flight upstream lookup (singleflight key folds case). Property C10 says
// every reply "carries that query's ID and question" even under "shared
// upstream lookups": the follower's reply must echo the follower's own
// question spelling, not the leader's.
func TestAuditSharedLookupFollowerKeepsOwnQuestion(t *testing.T) {
	hnet := newHermeticNet(t)
	zone := hnet.Delegate("shop.test.")
	zone.Serve(mustRR(t, "www.shop.test. 300 IN A 192.0.2.10"))

	handler := hnet.Handler()

	newReq := func(name string) *dns.Msg {
		req := new(dns.Msg)
		req.SetQuestion(name, dns.TypeA)
		req.RecursionDesired = true
		req.SetEdns0(dnsutil.DefaultMsgSize, true)
		return req
	}

	// Warm the delegation/DNSKEY state so both queries below go straight to
	// the shop.test. authority with the same server set.
	warm := handler.handle(context.Background(), newReq("www.shop.test."))
	if warm == nil || warm.Rcode != dns.RcodeSuccess || len(warm.Answer) == 0 {
		t.Fatalf("warm-up resolution failed: %v", warm)
	}
	before := zone.asked("www.shop.test.", dns.TypeA)

	// Hold the authority's answer to the leader until the follower has had
	// time to join the leader's in-flight lookup.
	var followerStarted atomic.Int64
	zone.HoldUntil(func() bool {
		s := followerStarted.Load()
		return s != 0 && time.Since(time.Unix(0, s)) > 300*time.Millisecond
	}, 5*time.Second)

	const leaderName = "www.shop.test."
	const followerName = "WwW.sHoP.TeSt."

	var (
		wg           sync.WaitGroup
		leaderResp   *dns.Msg
		followerResp *dns.Msg
	)
	leaderReq := newReq(leaderName)
	followerReq := newReq(followerName)

	wg.Add(1)
	go func() {
		defer wg.Done()
		leaderResp = handler.handle(context.Background(), leaderReq)
	}()

	// Wait until the leader's query is parked at the authority.
	deadline := time.Now().Add(5 * time.Second)
	for zone.asked(leaderName, dns.TypeA) == before && time.Now().Before(deadline) {
		time.Sleep(time.Millisecond)
	}
	if zone.asked(leaderName, dns.TypeA) == before {
		t.Fatal("leader query never reached the authority")
	}

	wg.Add(1)
	go func() {
		defer wg.Done()
		followerStarted.Store(time.Now().UnixNano())
		followerResp = handler.handle(context.Background(), followerReq)
	}()
	wg.Wait()

	if leaderResp == nil || followerResp == nil {
		t.Fatalf("missing response: leader=%v follower=%v", leaderResp, followerResp)
	}
	if followerResp.Rcode != dns.RcodeSuccess || len(followerResp.Answer) == 0 {
		t.Fatalf("follower did not get the shared answer (rcode=%s); the scenario did not run as intended",
			dns.RcodeToString[followerResp.Rcode])
	}
	// The follower really shared the leader's lookup: its own spelling never
	// reached the authority.
	if n := zone.asked(followerName, dns.TypeA); n != 0 {
		t.Fatalf("follower was not collapsed onto the leader's lookup (authority saw %d own queries)", n)
	}

	if followerResp.Id != followerReq.Id {
		t.Errorf("follower reply ID = %d, want its own query ID %d", followerResp.Id, followerReq.Id)
	}
	if len(followerResp.Question) != 1 {
		t.Fatalf("follower reply carries %d questions", len(followerResp.Question))
	}
	if got := followerResp.Question[0].Name; got != followerName {
		t.Errorf("C10 violated: follower asked %q but its reply carries the other client's question %q",
			followerName, got)
	}
	if got := leaderResp.Question[0].Name; got != leaderName {
		t.Errorf("leader asked %q but its reply carries %q", leaderName, got)
	}
}
