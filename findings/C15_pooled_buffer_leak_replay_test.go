package wire

import (
	"bytes"
	"net"
	"strings"
	"testing"

	"github.com/miekg/dns"
)

// C15: "it emits exactly the bytes the DNS library's own Pack would emit for
// it ... and hands out a buffer that exposes nothing of previously packed
// messages".
//
// The library's packDataA (used by A, L32 and the IPv4 gateway of IPSECKEY /
// AMTRELAY) accepts a 16-byte address, but when that address is not
// IPv4-mapped a.To4() is nil: it copies nothing and still advances the offset
// by four. dns.Msg.Pack runs on a freshly zeroed buffer, so the library's wire
// form carries 0.0.0.0 there. TryPack runs the same code over its pooled,
// never-cleared buffer, so the four rdata octets are whatever the previous
// message packed through that pooled state left at that offset. TryPack still
// reports handled=true.
//
// Such a record is what e.g. the blocklist middleware builds for an A query
// when `nullroute` is configured with an IPv6 literal
// (dns.A{A: net.ParseIP(cfg.Nullroute)}).

// auditSecretMsg is "somebody else's" reply: its TXT payload lands on the
// offsets where the victim's A rdata will sit.
func auditSecretMsg() *dns.Msg {
	m := new(dns.Msg)
	m.SetQuestion("s.", dns.TypeTXT)
	m.Response = true
	m.Answer = []dns.RR{&dns.TXT{
		Hdr: dns.RR_Header{Name: "s.", Rrtype: dns.TypeTXT, Class: dns.ClassINET, Ttl: 60},
		Txt: []string{strings.Repeat("S3CR3T", 20)},
	}}
	return m
}

func auditVictimMsg() *dns.Msg {
	m := new(dns.Msg)
	m.SetQuestion("a.example.", dns.TypeA)
	m.Response = true
	m.Answer = []dns.RR{&dns.A{
		Hdr: dns.RR_Header{Name: "a.example.", Rrtype: dns.TypeA, Class: dns.ClassINET, Ttl: 60},
		A:   net.ParseIP("::"), // 16 bytes, not IPv4-mapped
	}}
	return m
}

func TestAuditPooledBufferLeaksIntoARdata(t *testing.T) {
	victim := auditVictimMsg()
	want, err := victim.Pack()
	if err != nil {
		t.Fatalf("the library packs this message, so must the reference: %v", err)
	}

	// The pool may hand out a fresh (zeroed) state now and then (GC, -race);
	// a handful of rounds is plenty for the reused one to show up.
	for round := 0; round < 32; round++ {
		var secretWire []byte
		handled, err := TryPack(auditSecretMsg(), func(b []byte) error {
			secretWire = append([]byte(nil), b...)
			return nil
		})
		if err != nil || !handled {
			t.Fatalf("secret message: handled=%v err=%v", handled, err)
		}

		var got []byte
		handled, err = TryPack(victim, func(b []byte) error {
			got = append([]byte(nil), b...)
			return nil
		})
		if err != nil {
			t.Fatal(err)
		}
		if !handled {
			// Declining would be fine: the library then encodes the message.
			return
		}
		if !bytes.Equal(got, want) {
			rd := got[len(got)-4:]
			t.Fatalf("round %d: TryPack reported handled=true but its bytes differ from dns.Msg.Pack:\n"+
				" got: %x\nwant: %x\n"+
				"A rdata on the wire is %q - bytes of the previously packed message (%q at the same offsets), library emits %x",
				round, got, want, rd, secretWire[len(got)-4:len(got)], want[len(want)-4:])
		}
	}
}

// The same through PackClone, i.e. the bytes a cache entry stores
// (middleware/cache NewCacheEntryWithKey -> wire.PackClone).
func TestAuditPackCloneStoresForeignBytes(t *testing.T) {
	victim := auditVictimMsg()
	victim.Compress = true
	want, err := victim.Pack()
	if err != nil {
		t.Fatal(err)
	}
	for round := 0; round < 32; round++ {
		if _, err := PackClone(auditSecretMsg()); err != nil {
			t.Fatal(err)
		}
		got, err := PackClone(victim)
		if err != nil {
			t.Fatal(err)
		}
		if !bytes.Equal(got, want) {
			t.Fatalf("round %d: PackClone bytes differ from the library's Pack:\n got: %x\nwant: %x",
				round, got, want)
		}
	}
}
