package resolver

import (
	"context"
	"net"
	"os"
	"strings"
	"testing"

	"github.com/miekg/dns"
	"github.com/semihalev/sdns/internal/mock"
	"github.com/semihalev/sdns/middleware"
	"github.com/semihalev/sdns/middleware/edns"
)

// startAuditLowercasingAuthority is an authoritative server (it stands in
// for the root, and answers everything itself) that normalises the question
// it echoes to lower case, as a number of deployed authorities do. The
// answer is otherwise correct and carries the query's ID.
func startAuditLowercasingAuthority(t *testing.T) string {
	t.Helper()

	mux := dns.NewServeMux()
	mux.HandleFunc(".", func(w dns.ResponseWriter, r *dns.Msg) {
		m := new(dns.Msg)
		m.SetReply(r)
		m.Authoritative = true
		m.Question[0].Name = strings.ToLower(m.Question[0].Name)
		q := m.Question[0]
		switch {
		case q.Name == "." && q.Qtype == dns.TypeNS:
			// Priming: a root NS set without addresses keeps the configured
			// root server.
			if rr, err := dns.NewRR(". 3600 IN NS ns.root."); err == nil {
				m.Answer = []dns.RR{rr}
			}
		case q.Name == "www.audit.test." && q.Qtype == dns.TypeA:
			if rr, err := dns.NewRR("www.audit.test. 300 IN A 192.0.2.80"); err == nil {
				m.Answer = []dns.RR{rr}
			}
		default:
			if rr, err := dns.NewRR(". 300 IN SOA ns.root. hostmaster.root. 1 7200 3600 1209600 300"); err == nil {
				m.Ns = []dns.RR{rr}
			}
		}
		_ = w.WriteMsg(m)
	})

	pc, err := net.ListenPacket("udp", "127.0.0.1:0")
	if err != nil {
		t.Fatalf("listen udp: %v", err)
	}
	s := &dns.Server{Net: "udp", Handler: mux, PacketConn: pc}
	go func() { _ = s.ActivateAndServe() }()
	t.Cleanup(func() { _ = s.Shutdown() })
	return pc.LocalAddr().String()
}

// C06: "every reply other than a bare-header FORMERR/NOTIMP rejection echoes
// the question". The recursive resolver accepts an upstream answer whose
// question matches the one asked up to letter case, and hands that message -
// the upstream's question section included - to the client. A client that
// randomises the case of its query name (0x20) gets a different spelling
// back and discards the reply.
func TestAuditResolverEchoesUpstreamQuestionSpelling(t *testing.T) {
	addr := startAuditLowercasingAuthority(t)

	cfg := makeTestConfig()
	dir, err := os.MkdirTemp("", "sdns-audit-")
	if err != nil {
		t.Fatalf("temp dir: %v", err)
	}
	t.Cleanup(func() { _ = os.RemoveAll(dir) })
	cfg.Directory = dir
	cfg.RootServers = []string{addr}
	cfg.Root6Servers = nil
	cfg.IPv6Access = false
	cfg.DNSSEC = "off"
	cfg.QnameMinLevel = 0

	handler := New(cfg)

	const asked = "wWw.AuDiT.tEsT."
	req := new(dns.Msg)
	req.SetQuestion(asked, dns.TypeA)
	req.SetEdns0(1232, false)

	ch := middleware.NewChain([]middleware.Handler{edns.New(cfg), handler})
	mw := mock.NewWriter("udp", "127.0.0.1:4242")
	ch.Reset(mw, req)
	ch.Next(context.Background())

	if !mw.Written() || mw.Msg() == nil {
		t.Fatal("no reply was written")
	}
	packed, err := mw.Msg().Pack()
	if err != nil {
		t.Fatalf("reply does not pack: %v", err)
	}
	reply := new(dns.Msg)
	if err := reply.Unpack(packed); err != nil {
		t.Fatalf("reply does not unpack: %v", err)
	}

	if reply.Rcode != dns.RcodeSuccess || len(reply.Answer) != 1 {
		t.Fatalf("fixture: expected the resolved answer, got\n%v", reply)
	}
	if len(reply.Question) != 1 {
		t.Fatalf("reply has %d questions", len(reply.Question))
	}
	if got := reply.Question[0].Name; got != asked {
		t.Errorf("reply question = %q, want the query's own question %q (the upstream's spelling was handed to the client)", got, asked)
	}
}
