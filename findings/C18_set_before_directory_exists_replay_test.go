package blocklist

import (
	"os"
	"path/filepath"
	"testing"

	"github.com/semihalev/sdns/config"
)

// C18: "After any interleaving of API additions, removals and batch updates
// has completed, the persisted local list reloads to exactly the in-memory
// list."
//
// On a fresh install the blocklist directory does not exist yet. New() only
// creates it from the background refreshRemote goroutine, one second after it
// returns; neither loadInitial nor persist creates it. Any API mutation that
// completes before that (Set returns true, the entry is live in memory) fails
// in persist at os.CreateTemp, which is only logged: nothing reaches disk, and
// nothing retries, so a restart loses the entry.
func TestAuditSetBeforeDirectoryExistsIsNotPersisted(t *testing.T) {
	cfg := new(config.Config)
	cfg.Nullroute = "0.0.0.0"
	cfg.Nullroutev6 = "::0"
	cfg.Directory = t.TempDir()
	cfg.BlockListDir = "" // default: <Directory>/blacklists, not yet created

	b1 := New(cfg)
	if !b1.Set("ads.example.") {
		t.Fatal("Set(ads.example.) reported failure")
	}
	if !b1.Exists("ads.example.") {
		t.Fatal("entry not in memory")
	}

	if _, err := os.Stat(filepath.Join(cfg.BlockListDir, "local")); err != nil {
		t.Errorf("Set returned true but the local list was not persisted: %v", err)
	}

	b2 := New(cfg) // reload
	if !b2.Exists("ads.example.") {
		t.Errorf("in-memory list contains ads.example. after a completed Set, the reloaded list does not (in memory %d entries, reloaded %d)", b1.Length(), b2.Length())
	}
}
