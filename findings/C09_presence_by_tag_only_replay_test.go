package resolver

import (
	"crypto"
	"net"
	"os"
	"path/filepath"
	"sync"
	"testing"
	"time"

	"github.com/miekg/dns"
	"github.com/semihalev/sdns/config"
	"github.com/semihalev/sdns/internal/authority"
)

// ---- helpers (audit 3) ------------------------------------------------

type a3Key struct {
	key  *dns.DNSKEY
	priv crypto.Signer
}

func a3NewKSK(t *testing.T) a3Key {
	t.Helper()
	k := &dns.DNSKEY{
		Hdr:       dns.RR_Header{Name: ".", Rrtype: dns.TypeDNSKEY, Class: dns.ClassINET, Ttl: 3600},
		Flags:     257,
		Protocol:  3,
		Algorithm: dns.ED25519,
	}
	priv, err := k.Generate(256)
	if err != nil {
		t.Fatalf("generate DNSKEY: %v", err)
	}
	return a3Key{key: k, priv: priv.(crypto.Signer)}
}

func (k a3Key) sign(t *testing.T, rrset []dns.RR) *dns.RRSIG {
	t.Helper()
	now := time.Now()
	sig := &dns.RRSIG{
		Hdr:         dns.RR_Header{Name: ".", Rrtype: dns.TypeRRSIG, Class: dns.ClassINET, Ttl: 3600},
		TypeCovered: dns.TypeDNSKEY,
		Algorithm:   k.key.Algorithm,
		OrigTtl:     3600,
		Expiration:  uint32(now.Add(6 * time.Hour).Unix()),  //nolint:gosec // test
		Inception:   uint32(now.Add(-6 * time.Hour).Unix()), //nolint:gosec // test
		KeyTag:      k.key.KeyTag(),
		SignerName:  ".",
	}
	if err := sig.Sign(k.priv, rrset); err != nil {
		t.Fatalf("sign DNSKEY RRset: %v", err)
	}
	return sig
}

type a3Root struct {
	mu     sync.Mutex
	answer []dns.RR
	addr   string
}

func a3StartRoot(t *testing.T) *a3Root {
	t.Helper()
	pc, err := net.ListenPacket("udp", "127.0.0.1:0")
	if err != nil {
		t.Fatalf("listen: %v", err)
	}
	s := &a3Root{addr: pc.LocalAddr().String()}
	mux := dns.NewServeMux()
	mux.HandleFunc(".", func(w dns.ResponseWriter, r *dns.Msg) {
		reply := new(dns.Msg)
		reply.SetReply(r)
		reply.Authoritative = true
		if len(r.Question) == 1 && r.Question[0].Name == "." && r.Question[0].Qtype == dns.TypeDNSKEY {
			s.mu.Lock()
			reply.Answer = append(reply.Answer, s.answer...)
			s.mu.Unlock()
		}
		_ = w.WriteMsg(reply)
	})
	srv := &dns.Server{Net: "udp", PacketConn: pc, Handler: mux}
	go func() { _ = srv.ActivateAndServe() }()
	time.Sleep(20 * time.Millisecond)
	t.Cleanup(func() { _ = srv.Shutdown() })
	return s
}

func (s *a3Root) publish(rrs ...dns.RR) {
	s.mu.Lock()
	s.answer = rrs
	s.mu.Unlock()
}

// a3Resolver: the fields AutoTA needs, without the background run() goroutine.
func a3Resolver(dir, rootAddr string, configured ...*dns.DNSKEY) *Resolver {
	cfg := &config.Config{
		DNSSEC:               "on",
		Maxdepth:             30,
		MaxConcurrentQueries: 16,
		Directory:            dir,
		Timeout:              config.Duration{Duration: 2 * time.Second},
	}
	servers := &authority.Servers{Zone: "."}
	servers.List = append(servers.List, authority.NewServer(rootAddr, authority.IPv4))
	r := &Resolver{
		cfg:             cfg,
		delegations:     authority.NewCache(),
		rootServers:     servers,
		dnssec:          true,
		netTimeout:      2 * time.Second,
		sfGroup:         NewSingleflightWrapper(),
		circuitBreaker:  newCircuitBreaker(),
		maxConcurrent:   make(chan struct{}, cfg.MaxConcurrentQueries),
		resolutionSlots: make(chan struct{}, cfg.MaxConcurrentQueries),
		qnameMinLevel:   10,
	}
	for _, k := range configured {
		r.rootKeys = append(r.rootKeys, k)
		r.configuredRootKeys = append(r.configuredRootKeys, k)
	}
	return r
}

func a3Trusts(r *Resolver, k *dns.DNSKEY) bool {
	r.RLock()
	defer r.RUnlock()
	for _, rr := range r.rootKeys {
		if have, ok := rr.(*dns.DNSKEY); ok && have.Algorithm == k.Algorithm && have.PublicKey == k.PublicKey {
			return true
		}
	}
	return false
}

// a3StateOf returns the persisted RFC 5011 state entry holding exactly key k.
func a3StateOf(t *testing.T, dir string, k *dns.DNSKEY) *TrustAnchor {
	t.Helper()
	st, err := readFromTAFile(filepath.Join(dir, stateFile))
	if err != nil {
		t.Fatalf("read state: %v", err)
	}
	for _, ta := range st {
		if ta.DNSKey != nil && ta.DNSKey.PublicKey == k.PublicKey && ta.DNSKey.Algorithm == k.Algorithm {
			return ta
		}
	}
	return nil
}

// TestAuditC09TagCollisionKeepsVanishedPendingKeyOnHoldDown:
//
// "a new key becomes trusted only after it has been present, for at least 30
// days and in every accepted refresh, in DNSKEY sets validly signed by an
// already-trusted non-revoked anchor".
//
// AutoTA decides "is this tracked key present in the refresh?" with
// kskFetched[tag] != nil — by 16-bit key tag only, never by key material. A
// pending key P that has been withdrawn from the root DNSKEY RRset is therefore
// still counted as present whenever ANY other SEP key in the validated RRset
// happens to share its tag: the add hold-down is not aborted, and once 30 days
// have elapsed since P was first (and only once) seen, P is promoted to Valid
// and published as a trust anchor — in a refresh that does not contain P.
func TestAuditC09TagCollisionKeepsVanishedPendingKeyOnHoldDown(t *testing.T) {
	dir, err := os.MkdirTemp("", "sdns-audit-c09-3-")
	if err != nil {
		t.Fatal(err)
	}
	t.Cleanup(func() { _ = os.RemoveAll(dir) })

	anchor := a3NewKSK(t) // A: configured, trusted, signs every refresh

	// Two distinct KSKs with the same key tag (birthday search, ~300 keys).
	var pending, other a3Key
	seen := map[uint16]a3Key{}
	for i := 0; ; i++ {
		if i > 200000 {
			t.Fatal("no key-tag collision found")
		}
		k := a3NewKSK(t)
		tag := k.key.KeyTag()
		if tag == anchor.key.KeyTag() || tag == anchor.key.KeyTag()+DNSKEYFlagRevoke {
			continue
		}
		if prev, ok := seen[tag]; ok && prev.key.PublicKey != k.key.PublicKey {
			pending, other = prev, k
			break
		}
		seen[tag] = k
	}
	t.Logf("anchor tag %d; pending key P and unrelated key X share tag %d", anchor.key.KeyTag(), pending.key.KeyTag())

	root := a3StartRoot(t)
	r := a3Resolver(dir, root.addr, anchor.key)

	// Refresh 1: {A, P} signed by A. P is new -> add hold-down starts.
	set1 := []dns.RR{anchor.key, pending.key}
	root.publish(append(set1, anchor.sign(t, set1))...)
	r.AutoTA()
	if ta := a3StateOf(t, dir, pending.key); ta == nil || ta.State != StateAddPend {
		t.Fatalf("precondition: P not pending after first sighting: %+v", ta)
	}
	if a3Trusts(r, pending.key) {
		t.Fatalf("precondition: P trusted immediately")
	}

	// Refresh 2: {A, X} signed by A. P has been withdrawn; X merely shares its tag.
	set2 := []dns.RR{anchor.key, other.key}
	root.publish(append(set2, anchor.sign(t, set2))...)
	r.AutoTA()
	if ta := a3StateOf(t, dir, pending.key); ta != nil {
		t.Errorf("P was absent from a fully validated refresh, but its add hold-down was not aborted: still tracked as %s", ta.State)
	}

	// 31 days pass (age the persisted FirstSeen; AutoTA has no clock seam).
	statePath := filepath.Join(dir, stateFile)
	st, err := readFromTAFile(statePath)
	if err != nil {
		t.Fatal(err)
	}
	for _, ta := range st {
		if ta.State == StateAddPend {
			ta.FirstSeen = ta.FirstSeen.Add(-31 * 24 * time.Hour)
		}
	}
	if err := writeToTAFile(statePath, st); err != nil {
		t.Fatal(err)
	}

	// Refresh 3: still {A, X}. P has been seen exactly once, 31 days ago.
	root.publish(append(set2, anchor.sign(t, set2))...)
	r.AutoTA()
	if a3Trusts(r, pending.key) {
		t.Errorf("P (tag %d) is now a live trust anchor although it appeared in only one of three accepted refreshes "+
			"and is absent from the refresh that promoted it", pending.key.KeyTag())
	}
}
