package forwarder

import (
	"context"
	"net"
	"sync"
	"testing"
	"time"

	"github.com/miekg/dns"
	"github.com/semihalev/sdns/config"
	"github.com/semihalev/sdns/internal/mock"
	"github.com/semihalev/sdns/middleware"
	"github.com/semihalev/sdns/middleware/edns"
)

// TestAuditC19SecondOPTRecordReachesUpstream sends a query whose additional
// section holds two OPT records, the first of which carries the client's
// subnet (a full /32) and a cookie. ECS forwarding is disabled (the default),
// so per property C19 "every client-supplied EDNS option is removed before any
// upstream query". The query is run through the production order
// edns -> forwarder against a loopback upstream that records what it was sent.
func TestAuditC19SecondOPTRecordReachesUpstream(t *testing.T) {
	pc, err := net.ListenPacket("udp", "127.0.0.1:0")
	if err != nil {
		t.Fatalf("listen udp: %v", err)
	}
	var (
		mu       sync.Mutex
		received []*dns.Msg
	)
	upstream := &dns.Server{Net: "udp", PacketConn: pc, Handler: dns.HandlerFunc(func(w dns.ResponseWriter, r *dns.Msg) {
		mu.Lock()
		received = append(received, r.Copy())
		mu.Unlock()
		resp := new(dns.Msg)
		resp.SetReply(r)
		resp.Answer = []dns.RR{&dns.A{
			Hdr: dns.RR_Header{Name: r.Question[0].Name, Rrtype: dns.TypeA, Class: dns.ClassINET, Ttl: 60},
			A:   net.IPv4(192, 0, 2, 42),
		}}
		_ = w.WriteMsg(resp)
	})}
	go func() { _ = upstream.ActivateAndServe() }()
	time.Sleep(10 * time.Millisecond)
	defer func() { _ = upstream.Shutdown() }()

	cfg := new(config.Config)
	cfg.ForwarderServers = []string{pc.LocalAddr().String()}
	cfg.Timeout.Duration = 2 * time.Second
	cfg.QueryTimeout.Duration = 5 * time.Second
	// cfg.ECS is the zero value: forwarding disabled, strip everything.

	e := edns.New(cfg)
	f := New(cfg)

	// The client's packet: one question, two OPT records.
	newOPT := func(options ...dns.EDNS0) *dns.OPT {
		o := new(dns.OPT)
		o.Hdr.Name = "."
		o.Hdr.Rrtype = dns.TypeOPT
		o.SetUDPSize(1232)
		o.Option = options
		return o
	}
	client := new(dns.Msg)
	client.SetQuestion("example.com.", dns.TypeA)
	client.Extra = []dns.RR{
		newOPT(
			&dns.EDNS0_SUBNET{Code: dns.EDNS0SUBNET, Family: 1, SourceNetmask: 32, Address: net.IPv4(198, 51, 100, 77).To4()},
			&dns.EDNS0_COOKIE{Code: dns.EDNS0COOKIE, Cookie: "0123456789abcdef"},
		),
		newOPT(),
	}
	raw, err := client.Pack()
	if err != nil {
		t.Fatalf("pack client query: %v", err)
	}
	// The server's decoded entry (server.ServeRaw: ARCOUNT>1 is not strict-path
	// eligible, so the packet is unpacked and served as a message).
	req := new(dns.Msg)
	if err := req.Unpack(raw); err != nil {
		t.Fatalf("the two-OPT packet must decode (it does at the server's ingress): %v", err)
	}
	if len(req.Extra) != 2 {
		t.Fatalf("decoded query has %d additional records, want 2", len(req.Extra))
	}

	w := mock.NewWriter("udp", "198.51.100.77:5353")
	ch := middleware.NewChain([]middleware.Handler{e, f})
	ch.Reset(w, req)
	ch.Next(context.Background())
	if !w.Written() {
		t.Fatal("no response written")
	}

	mu.Lock()
	defer mu.Unlock()
	if len(received) == 0 {
		t.Fatal("upstream saw no query")
	}
	for _, q := range received {
		for _, rr := range q.Extra {
			opt, ok := rr.(*dns.OPT)
			if !ok {
				continue
			}
			for _, o := range opt.Option {
				if sub, ok := o.(*dns.EDNS0_SUBNET); ok {
					t.Errorf("ECS forwarding is disabled, yet the upstream query carried the client's subnet %s/%d",
						sub.Address, sub.SourceNetmask)
					continue
				}
				t.Errorf("client-supplied EDNS option code %d reached the upstream", o.Option())
			}
		}
	}

}
