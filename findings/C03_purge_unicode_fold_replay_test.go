package cache

// Replay for the C03 finding on the purge route: the scoped sweep of Store.Purge compared names with strings.EqualFold,
// which is Unicode SIMPLE FOLDING - broader than the ASCII-only case rule of DNS (RFC 4343): a purge of the name spelled
// with U+212A KELVIN SIGN removed the cached scoped entry of the ASCII name "k.example.".
// Run: go test -overlay <overlay mapping middleware/cache/zz_c03_replay_test.go to this file> -vet=off -run TestC03 ./middleware/cache/

import (
	"net/netip"
	"testing"
	"time"

	"github.com/miekg/dns"
	"github.com/semihalev/sdns/config"
)

func TestC03PurgeMatchesASCIICaseOnly(t *testing.T) {
	c := New(&config.Config{CacheSize: 1024, Expire: 300})
	defer c.Stop()

	req := new(dns.Msg)
	req.SetQuestion("k.example.", dns.TypeA)
	scope := netip.MustParsePrefix("203.0.113.0/24")
	key := CacheKey{Question: req.Question[0], CD: false, Scope: scope}.Hash()
	c.store.SetFromResponseScoped(key, reply(req, "10.0.0.1", 24), scope, time.Time{}, 0)
	if _, ok := c.store.LookupByKey(key); !ok {
		t.Fatal("seed did not land in cache")
	}

	// a DIFFERENT name: first label is the single code point U+212A (KELVIN SIGN), not the ASCII letter k
	c.store.Purge(dns.Question{Name: "K.example.", Qtype: dns.TypeA, Qclass: dns.ClassINET})

	if _, ok := c.store.LookupByKey(key); !ok {
		t.Errorf("purging the name spelled with U+212A removed the cached entry of the ASCII name k.example.: the purge route folds more than ASCII case")
	}
}
