package forwarder

import (
	"context"
	"net"
	"testing"

	"github.com/miekg/dns"
	"github.com/semihalev/sdns/config"
	"github.com/semihalev/sdns/internal/mock"
	"github.com/semihalev/sdns/middleware"
	"github.com/semihalev/sdns/middleware/edns"
)

// startAuditHeaderUpstream is an upstream that answers the right question
// under the right ID, but with header bits of its own choosing: mutate is
// applied to the otherwise ordinary reply just before it is sent.
func startAuditHeaderUpstream(t *testing.T, mutate func(*dns.Msg)) string {
	t.Helper()

	mux := dns.NewServeMux()
	mux.HandleFunc(".", func(w dns.ResponseWriter, r *dns.Msg) {
		m := new(dns.Msg)
		m.SetReply(r)
		m.RecursionAvailable = true
		if rr, err := dns.NewRR(r.Question[0].Name + " 60 IN A 192.0.2.1"); err == nil {
			m.Answer = []dns.RR{rr}
		}
		mutate(m)
		_ = w.WriteMsg(m)
	})

	pc, err := net.ListenPacket("udp", "127.0.0.1:0")
	if err != nil {
		t.Fatalf("listen udp: %v", err)
	}
	s := &dns.Server{Net: "udp", Handler: mux, PacketConn: pc}
	go func() { _ = s.ActivateAndServe() }()
	t.Cleanup(func() { _ = s.Shutdown() })
	return pc.LocalAddr().String()
}

// auditServe runs one client query through the edns layer and the forwarder
// (the two handlers that shape a forwarded reply) and returns the reply as
// the client decodes it from the wire.
func auditServe(t *testing.T, upstream string, req *dns.Msg) *dns.Msg {
	t.Helper()

	f := &Forwarder{servers: []*server{{Addr: upstream, Proto: "udp"}}}
	ch := middleware.NewChain([]middleware.Handler{edns.New(new(config.Config)), f})
	mw := mock.NewWriter("udp", "127.0.0.1:4242")

	ch.Reset(mw, req)
	ch.Next(context.Background())

	if !mw.Written() || mw.Msg() == nil {
		t.Fatal("no reply was written")
	}
	packed, err := mw.Msg().Pack()
	if err != nil {
		t.Fatalf("reply does not pack: %v", err)
	}
	out := new(dns.Msg)
	if err := out.Unpack(packed); err != nil {
		t.Fatalf("reply does not unpack: %v", err)
	}
	return out
}

// C06: "Every reply has QR set and echoes the query's ID ... and opcode".
// The forwarder copies the client's ID, question spelling and CD onto the
// upstream's message and relays the rest of the upstream's header as it is,
// the QR bit and the opcode included.
func TestAuditForwarderRelaysUpstreamQRAndOpcode(t *testing.T) {
	t.Run("QR", func(t *testing.T) {
		upstream := startAuditHeaderUpstream(t, func(m *dns.Msg) { m.Response = false })

		req := new(dns.Msg)
		req.SetQuestion("example.com.", dns.TypeA)

		reply := auditServe(t, upstream, req)
		if reply.Rcode != dns.RcodeSuccess || len(reply.Answer) != 1 {
			t.Fatalf("fixture: expected the forwarded answer, got\n%v", reply)
		}
		if !reply.Response {
			t.Errorf("the reply sent to the client has QR clear (the upstream's header bit was relayed):\n%v", reply)
		}
	})

	t.Run("opcode", func(t *testing.T) {
		upstream := startAuditHeaderUpstream(t, func(m *dns.Msg) { m.Opcode = dns.OpcodeStatus })

		req := new(dns.Msg)
		req.SetQuestion("example.com.", dns.TypeA)

		reply := auditServe(t, upstream, req)
		if reply.Id != req.Id {
			t.Fatalf("fixture: reply ID %d, query ID %d", reply.Id, req.Id)
		}
		if reply.Opcode != req.Opcode {
			t.Errorf("reply opcode = %s, want the query's opcode %s (the upstream's opcode was relayed)",
				dns.OpcodeToString[reply.Opcode], dns.OpcodeToString[req.Opcode])
		}
	})
}
