package dnssec

import (
	"crypto"
	"testing"
	"time"

	"github.com/miekg/dns"
)

// TestAuditC14SignerBindingUnicodeFold checks the clause "Where they
// deliberately differ they are stricter, never more permissive" for the
// RRSIG-to-DNSKEY binding (RFC 4034 s3.1: the Signer's Name must be the owner
// name of the DNSKEY).
//
// The library compares the two names octet for octet after ASCII case
// folding. This package uses strings.EqualFold, which applies Unicode simple
// case folding, so a DNSKEY owned by U+212A-KELVIN-SIGN ".example." (wire
// label e2 84 aa) is treated as the key of zone "k.example." (wire label 6b):
// a different owner name, a signature the reference refuses, accepted here.
func TestAuditC14SignerBindingUnicodeFold(t *testing.T) {
	const zone = "k.example."

	key := &dns.DNSKEY{
		Hdr: dns.RR_Header{
			Name: zone, Rrtype: dns.TypeDNSKEY,
			Class: dns.ClassINET, Ttl: 3600,
		},
		Flags: 257, Protocol: 3, Algorithm: dns.ED25519,
	}
	private, err := key.Generate(256)
	if err != nil {
		t.Fatalf("generate: %v", err)
	}

	rr, err := dns.NewRR("www.k.example. 300 IN A 192.0.2.10")
	if err != nil {
		t.Fatalf("NewRR: %v", err)
	}
	rrset := []dns.RR{rr}

	sig := &dns.RRSIG{
		Hdr: dns.RR_Header{
			Name: "www.k.example.", Rrtype: dns.TypeRRSIG,
			Class: dns.ClassINET, Ttl: 300,
		},
		TypeCovered: dns.TypeA, Algorithm: dns.ED25519, Labels: 3, OrigTtl: 300,
		Expiration: uint32(time.Now().Add(6 * time.Hour).Unix()),  //nolint:gosec // test epoch fits
		Inception:  uint32(time.Now().Add(-6 * time.Hour).Unix()), //nolint:gosec // test epoch fits
		KeyTag:     key.KeyTag(), SignerName: zone,
	}
	if err := sig.Sign(private.(crypto.Signer), rrset); err != nil {
		t.Fatalf("sign: %v", err)
	}

	// Sanity: the genuine key verifies on both sides.
	if err := sig.Verify(key, rrset); err != nil {
		t.Fatalf("fixture: library rejects the genuine key: %v", err)
	}
	if err := verifySignature(key, sig, rrset); err != nil {
		t.Fatalf("fixture: verifySignature rejects the genuine key: %v", err)
	}

	// The same key material published under a *different* owner name: the
	// first label is the three octets of U+212A KELVIN SIGN, not 'k'.
	foreign := *key
	foreign.Hdr.Name = "K.example."
	if dns.CanonicalName(foreign.Hdr.Name) == zone {
		t.Fatal("fixture: the two owner names are the same DNS name")
	}

	libraryErr := sig.Verify(&foreign, rrset)
	if libraryErr == nil {
		t.Skip("the library binds this signature to the foreign key as well; nothing to compare")
	}

	if err := signatureBinding(&foreign, sig, rrset); err == nil {
		t.Errorf("signatureBinding bound an RRSIG whose signer is %q to a DNSKEY owned by %q; "+
			"the library refuses it (%v)", sig.SignerName, foreign.Hdr.Name, libraryErr)
	}
	if err := verifySignature(&foreign, sig, rrset); err == nil {
		t.Errorf("verifySignature accepted an RRSIG (signer %q) under a DNSKEY owned by %q; "+
			"the library refuses it (%v): more permissive than the reference",
			sig.SignerName, foreign.Hdr.Name, libraryErr)
	}

	// And through the exported route the resolver uses.
	msg := new(dns.Msg)
	msg.SetQuestion("www.k.example.", dns.TypeA)
	msg.Answer = []dns.RR{rr, sig}
	keys := map[uint16][]*dns.DNSKEY{KeyTag(&foreign): {&foreign}}
	if ok, err := VerifyRRSIG(zone, keys, msg); ok && err == nil {
		t.Errorf("VerifyRRSIG authenticated %s data with only a DNSKEY owned by %q available",
			zone, foreign.Hdr.Name)
	}
}
