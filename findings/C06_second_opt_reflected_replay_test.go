package cache

import (
	"context"
	"net"
	"testing"

	"github.com/miekg/dns"
	"github.com/semihalev/sdns/internal/mock"
	"github.com/semihalev/sdns/middleware"
	"github.com/semihalev/sdns/middleware/edns"
)

// A query with two additional records passes the listeners' header check
// (ARCOUNT <= 2) and takes the decoded entry. Here both are OPT records. The
// edns layer normalizes and, on the way out, sanitizes only the OPT that
// IsEdns0 finds (the last one); every rcode reply built from the request
// (CancelWithRcode / dnsutil.SetRcode copy req.Extra whole) carries the other
// OPT back untouched - client-subnet option, unknown option and all.
func TestAuditSecondOPTReflectedInRcodeReply(t *testing.T) {
	cfg := makeTestConfig()
	cfg.CookieSecret = "secret"

	q := new(dns.Msg)
	q.SetQuestion("example.com.", dns.TypeA)
	// RD=0 for a non-root name: the cache answers SERVFAIL itself through
	// Chain.CancelWithRcode, no upstream involved.
	q.RecursionDesired = false

	first := &dns.OPT{Hdr: dns.RR_Header{Name: ".", Rrtype: dns.TypeOPT}}
	first.SetUDPSize(1232)
	first.Option = []dns.EDNS0{
		&dns.EDNS0_SUBNET{
			Code:          dns.EDNS0SUBNET,
			Family:        1,
			SourceNetmask: 24,
			Address:       net.ParseIP("198.51.100.0").To4(),
		},
		&dns.EDNS0_LOCAL{Code: 65001, Data: []byte("not-yours")},
	}
	second := &dns.OPT{Hdr: dns.RR_Header{Name: ".", Rrtype: dns.TypeOPT}}
	second.SetUDPSize(1232)
	q.Extra = []dns.RR{first, second}

	// Through the wire and back, as the decoded ingress would see it.
	raw, err := q.Pack()
	if err != nil {
		t.Fatalf("pack: %v", err)
	}
	req := new(dns.Msg)
	if err := req.Unpack(raw); err != nil {
		t.Fatalf("unpack: %v", err)
	}
	if len(req.Extra) != 2 {
		t.Fatalf("decoded query has %d additional records, want 2", len(req.Extra))
	}

	handlers := []middleware.Handler{edns.New(cfg), New(cfg)}
	w := mock.NewWriter("udp", "10.9.0.7:0")
	ch := middleware.NewChain(handlers)
	ch.Reset(w, req)
	ch.Next(context.Background())

	if !w.Written() {
		t.Fatal("RD=0 query should have been answered")
	}
	resp := w.Msg()
	if resp.Rcode != dns.RcodeServerFailure {
		t.Fatalf("rcode = %s, want SERVFAIL", dns.RcodeToString[resp.Rcode])
	}

	// Re-read the reply as the client would.
	out, err := resp.Pack()
	if err != nil {
		t.Fatalf("pack reply: %v", err)
	}
	got := new(dns.Msg)
	if err := got.Unpack(out); err != nil {
		t.Fatalf("unpack reply: %v", err)
	}

	opts := 0
	for _, rr := range got.Extra {
		opt, ok := rr.(*dns.OPT)
		if !ok {
			continue
		}
		opts++
		for _, o := range opt.Option {
			switch v := o.(type) {
			case *dns.EDNS0_SUBNET:
				t.Errorf("C06: reply reflects the client-subnet option %s", v.String())
			case *dns.EDNS0_LOCAL:
				t.Errorf("C06: reply reflects foreign option code %d (%q)", v.Code, v.Data)
			}
		}
	}
	if opts > 1 {
		t.Errorf("reply carries %d OPT records", opts)
	}
}
