package dns64

// Replay of the failed obligation
//   (*middleware/dns64.responseWriter).WriteMsg#assert:call (middleware.ResponseWriter).WriteMsg — "an AAAA-filtered
//   reply never carries AD" (property C20)
// against the real code. Run from /repo with:
//   go test -overlay <overlay.json mapping middleware/dns64/zz_c20_replay_test.go to this file> -vet=off \
//       -run TestC20FilteredFallbackKeepsAD ./middleware/dns64/
// Input: the upstream answer consists only of an excluded (IPv4-mapped) AAAA and carries AD=1; the secondary A
// lookup fails, so synthesis yields nothing and the writer falls back to the filtered upstream message.

import (
	"context"
	"errors"
	"net"
	"testing"

	"github.com/miekg/dns"
)

func TestC20FilteredFallbackKeepsAD(t *testing.T) {
	d := New(baseConfig())
	d.queryer = &stubQueryer{err: errors.New("upstream unreachable")}

	upstream := new(dns.Msg)
	upstream.SetQuestion("foo.example.org.", dns.TypeAAAA)
	upstream.Response = true
	upstream.AuthenticatedData = true
	upstream.SetEdns0(4096, true)
	upstream.Answer = []dns.RR{&dns.AAAA{
		Hdr:  dns.RR_Header{Name: "foo.example.org.", Rrtype: dns.TypeAAAA, Class: dns.ClassINET, Ttl: 60},
		AAAA: net.ParseIP("::ffff:c000:221"),
	}}
	ch, mw := makeChain(t, d, &stubAnswerer{msg: upstream}, "203.0.113.5:53", "foo.example.org.", dns.TypeAAAA)
	d.ServeDNS(context.Background(), ch)

	resp := mw.Msg()
	if resp == nil {
		t.Fatal("no reply")
	}
	if len(resp.Answer) != 0 {
		t.Fatalf("expected the excluded AAAA to be stripped, got %v", resp.Answer)
	}
	if resp.AuthenticatedData {
		t.Errorf("AAAA-filtered reply (its only AAAA was removed) still carries AD=1")
	}
}
