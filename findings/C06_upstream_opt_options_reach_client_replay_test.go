package forwarder

import (
	"context"
	"net"
	"strings"
	"testing"

	"github.com/miekg/dns"
	"github.com/semihalev/sdns/config"
	"github.com/semihalev/sdns/internal/mock"
	"github.com/semihalev/sdns/middleware"
	"github.com/semihalev/sdns/middleware/edns"
)

const (
	auditUpstreamCookie = "0123456789abcdef" + "00112233445566778899aabbccddeeff"
	auditUpstreamNSID   = "757073747265616d" // "upstream"
	auditLocalCode      = 65001
)

// startAuditOptionUpstream is an upstream whose reply carries an OPT with
// options of its own: a COOKIE, an NSID, padding and a private-use option.
func startAuditOptionUpstream(t *testing.T) string {
	t.Helper()

	mux := dns.NewServeMux()
	mux.HandleFunc(".", func(w dns.ResponseWriter, r *dns.Msg) {
		m := new(dns.Msg)
		m.SetReply(r)
		m.RecursionAvailable = true
		if rr, err := dns.NewRR(r.Question[0].Name + " 60 IN A 192.0.2.1"); err == nil {
			m.Answer = []dns.RR{rr}
		}
		opt := &dns.OPT{Hdr: dns.RR_Header{Name: ".", Rrtype: dns.TypeOPT}}
		opt.SetUDPSize(1232)
		opt.Option = []dns.EDNS0{
			&dns.EDNS0_COOKIE{Code: dns.EDNS0COOKIE, Cookie: auditUpstreamCookie},
			&dns.EDNS0_NSID{Code: dns.EDNS0NSID, Nsid: auditUpstreamNSID},
			&dns.EDNS0_PADDING{Padding: make([]byte, 16)},
			&dns.EDNS0_LOCAL{Code: auditLocalCode, Data: []byte("upstream-private")},
		}
		m.Extra = append(m.Extra, opt)
		_ = w.WriteMsg(m)
	})

	pc, err := net.ListenPacket("udp", "127.0.0.1:0")
	if err != nil {
		t.Fatalf("listen udp: %v", err)
	}
	s := &dns.Server{Net: "udp", Handler: mux, PacketConn: pc}
	go func() { _ = s.ActivateAndServe() }()
	t.Cleanup(func() { _ = s.Shutdown() })
	return pc.LocalAddr().String()
}

// auditServeOPT runs one client query through the edns layer and the
// forwarder and returns the reply as the client decodes it from the wire.
func auditServeOPT(t *testing.T, upstream string, req *dns.Msg) *dns.Msg {
	t.Helper()

	f := &Forwarder{servers: []*server{{Addr: upstream, Proto: "udp"}}}
	// No NSID and no cookie secret configured: the defaults.
	ch := middleware.NewChain([]middleware.Handler{edns.New(new(config.Config)), f})
	mw := mock.NewWriter("udp", "127.0.0.1:4242")

	ch.Reset(mw, req)
	ch.Next(context.Background())

	if !mw.Written() || mw.Msg() == nil {
		t.Fatal("no reply was written")
	}
	packed, err := mw.Msg().Pack()
	if err != nil {
		t.Fatalf("reply does not pack: %v", err)
	}
	out := new(dns.Msg)
	if err := out.Unpack(packed); err != nil {
		t.Fatalf("reply does not unpack: %v", err)
	}
	return out
}

// C06: "client subnet, upstream keepalive and foreign options never
// reflected, the server cookie returned only against the client cookie
// sent". The forwarder relays the upstream's additional section, its OPT
// included, and the edns layer shapes that OPT (size, DO, its own options,
// minus client-subnet and keepalive) but leaves every other option the
// upstream put there.
func TestAuditUpstreamOPTOptionsReachClient(t *testing.T) {
	upstream := startAuditOptionUpstream(t)

	t.Run("client sent a bare OPT", func(t *testing.T) {
		req := new(dns.Msg)
		req.SetQuestion("example.com.", dns.TypeA)
		req.SetEdns0(1232, false) // no cookie, no NSID request, no options at all

		reply := auditServeOPT(t, upstream, req)
		if reply.Rcode != dns.RcodeSuccess || len(reply.Answer) != 1 {
			t.Fatalf("fixture: expected the forwarded answer, got\n%v", reply)
		}
		opt := reply.IsEdns0()
		if opt == nil {
			t.Fatalf("fixture: the client sent an OPT and got none back:\n%v", reply)
		}
		for _, o := range opt.Option {
			switch v := o.(type) {
			case *dns.EDNS0_COOKIE:
				t.Errorf("the client sent no COOKIE and the reply carries one (the upstream's): %s", v.Cookie)
			case *dns.EDNS0_NSID:
				t.Errorf("the client did not ask for NSID (and none is configured) and the reply carries the upstream's: %s", v.Nsid)
			case *dns.EDNS0_PADDING:
				t.Errorf("the reply carries the upstream's padding option (%d bytes)", len(v.Padding))
			case *dns.EDNS0_LOCAL:
				t.Errorf("the reply carries the upstream's private option %d: %q", v.Code, v.Data)
			}
		}
	})

	t.Run("client sent a cookie", func(t *testing.T) {
		const clientCookie = "fedcba9876543210"

		req := new(dns.Msg)
		req.SetQuestion("example.com.", dns.TypeA)
		req.SetEdns0(1232, false)
		o := req.IsEdns0()
		o.Option = append(o.Option, &dns.EDNS0_COOKIE{Code: dns.EDNS0COOKIE, Cookie: clientCookie})

		reply := auditServeOPT(t, upstream, req)
		opt := reply.IsEdns0()
		if opt == nil {
			t.Fatalf("fixture: the client sent an OPT and got none back:\n%v", reply)
		}
		cookies := 0
		for _, o := range opt.Option {
			if c, ok := o.(*dns.EDNS0_COOKIE); ok {
				cookies++
				if !strings.HasPrefix(c.Cookie, clientCookie) {
					t.Errorf("a COOKIE in the reply does not answer the client cookie sent (%s): %s", clientCookie, c.Cookie)
				}
			}
		}
		if cookies != 1 {
			t.Errorf("the reply carries %d COOKIE options, want exactly the one answering the client's", cookies)
		}
	})
}
