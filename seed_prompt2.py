import json,sys
pid,n,hint=sys.argv[1],sys.argv[2],sys.argv[3]
props={json.loads(l)['id']:json.loads(l) for l in open('/verif/properties.jsonl')}
p=props[pid]
files=", ".join(p['anchors']['files'])
print(f"""You are helping test a verification effort for the Go project semihalev/sdns (a recursive DNS resolver). You have your own scratch git worktree of the repository at /tmp/seed2_{pid} — work ONLY there (never touch /repo or /verif, and do not read anything under /verif).

Environment: every shell command must start with
  export PATH=/opt/veriftools/go1.26.8/bin:$PATH GOFLAGS=-mod=mod GOPROXY=off GOSUMDB=off GOTOOLCHAIN=local
(the default go is too old; there is no network). Run tests with e.g. `cd /tmp/seed2_{pid} && go test -vet=off -count=1 ./path/to/pkg/` (some suites take a minute or two; run only the packages you touch plus obviously dependent ones).

The property under study ({pid}): "{p['statement']}"
Relevant code (starting points): {files}.

Task: produce {n} different, independent, realistic changes (bugs a developer could plausibly introduce in a refactor or optimisation) to the non-test source that each BREAK this property while the code still compiles and the EXISTING test suites of the touched packages still pass. Prefer subtle changes that need something specific to manifest — an unusual input, a boundary value, a particular flag combination, a multi-step sequence of operations, a hash collision (demonstrable by constructing entries directly where the code allows), or two cooperating sites that each look fine alone — NOT changes that ordinary use would expose at once. The changes must differ in kind and location. {hint}

For each change i in 1..{n} create a directory /tmp/seed2_{pid}/out/<i>/ containing:
  - patch.diff : `git diff` of ONLY that change against the pristine worktree (apply-able with `git apply` at the repo root),
  - demo_test.go : a demonstration — a Go test (function name starting with TestDemo) in the package of the change that FAILS with the change applied and PASSES without it,
  - meta.json : {{"property":"{pid}","title":..., "what_breaks":..., "needs_to_manifest":..., "files":[...], "demo_location": "<repo-relative path where demo_test.go must be copied, e.g. internal/cache/zz_demo_test.go — the path only, nothing else>", "commands_run":[...], "existing_tests_pass": true}}.
Verify yourself for each change: (a) with the patch applied `go build ./...` works and the existing tests of the touched packages pass, (b) the demo fails with the patch and passes without. After producing each patch, restore the worktree to pristine (`git checkout -- . && git clean -fd -e out`) before the next one, so the patches are independent. Do not commit anything. At the end reply with a short summary listing the changes (one line each: file/function and what breaks) and confirming the verification you ran.""")
