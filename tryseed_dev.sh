#!/bin/bash
# usage: tryseed_dev.sh <seed> <pkgs> <funcs> [tail]   — like tryseed.sh but against the dev worktree /tmp/wt_dev
cd /verif
files=$(grep '^+++ b/' seeded/$1/patch.diff | sed 's|^+++ b/||')
git -C /tmp/wt_dev apply /verif/seeded/$1/patch.diff || exit 2
(cd engine && ${GOVC:-/tmp/govc_tmp2} fn -repo /tmp/wt_dev -pkg "$2" -func "$3" 2>&1 | tail -${4:-8})
for f in $files; do git -C /tmp/wt_dev checkout -- $f 2>/dev/null || rm -f /tmp/wt_dev/$f; done
