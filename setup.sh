#!/bin/sh
# Builds govc from /verif/engine with the vendored golang.org/x/tools (offline).
cd "$(dirname "$0")/engine" || exit 2
export PATH=/opt/veriftools/go1.26.8/bin:$PATH GOFLAGS=-mod=vendor GOPROXY=off GOSUMDB=off GOTOOLCHAIN=local
go build -o govc ./cmd/govc
