#!/usr/bin/env python3
"""Regenerates the numbers of DESIGN.md §8.6 (from evidence/*.json) and the seed table of §8.7 (from seeded/*/meta.json
and the last full seed run .work/seedrun_full.txt). Prints markdown; paste/replace is done by the caller."""
import json, glob, os, re, sys
which = sys.argv[1] if len(sys.argv) > 1 else 'both'
if which in ('86','both'):
    print("| id | functions under contract | obligations (all discharged) | vacuity covers | replayable functions | wall time of the last run (tier) |")
    print("|---|---|---|---|---|---|")
    for f in sorted(glob.glob('evidence/C*.json')):
        e=json.load(open(f)); c=e['coverage']
        rp=c.get('counterexample_replay',{}).get('replayable_of_under_contract','-')
        print(f"| {e['property_id']} | {len(c['functions_under_contract'])} | {c['obligations']} | {c['covers']} | {rp} | {e['wall_s']} s ({e['tier']}) |")
if which in ('87','both'):
    res={}
    for ln in open('.work/seedrun_full.txt'):
        m=re.match(r'(C\d\d-\d+): prop=(C\d\d) exit=(\d) violations=(\d+)\s*(\S*)',ln)
        if m: res[m.group(1)]=(m.group(3),m.group(5))
    print("| seed | change (passes the repository test suite) | result | first failing obligation (file name under `replays/Cxx/`) |")
    print("|---|---|---|---|")
    def key(n): p,i=n.split('-'); return (p,int(i))
    nret=0
    for d in sorted(os.listdir('seeded'),key=key):
        meta=json.load(open(f'seeded/{d}/meta.json'))
        t=(meta.get('title') or meta.get('what_breaks',''))[:140].replace('|','or').replace('\n',' ')
        r=res.get(d)
        ret=' (retired: a later repair neutralised it, see above)' if meta.get('retired') else ''
        if ret: nret+=1
        if r is None: st,ob='not run',''
        elif r[0]=='1': st,ob='caught'+ret,'`'+r[1].replace('.json','')+'`'
        else: st,ob='**missed**',''
        print(f"| {d} | {t} | {st} | {ob} |")
    retired={d for d in os.listdir('seeded') if json.load(open(f'seeded/{d}/meta.json')).get('retired')}
    act={k:v for k,v in res.items() if k not in retired}
    c=sum(1 for v in act.values() if v[0]=='1')
    print(f"\n{c} caught of {len(act)} active seeds run ({len(retired)} more retired)", file=sys.stderr)
