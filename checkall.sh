#!/bin/bash
# runs every claimed property's quick check on the current tree
cd /verif; rc=0
for f in props/C*.json; do p=$(basename $f .json); ./check $p | grep -E "VIOLATION|KNOWN|quick:" ; [ ${PIPESTATUS[0]} -ne 0 ] && rc=1; done
exit $rc
