#!/bin/bash
# usage: run_seeds_list.sh name...   — like run_seeds.sh for an explicit list; evidence is regenerated once at the end
cd /verif
if [ -n "$(git -C /repo status --porcelain)" ]; then echo "refusing: /repo has uncommitted changes (commit contract edits first)"; exit 2; fi
touched=""
for n in "$@"; do
  d=seeded/$n; prop=$(jq -r .property $d/meta.json)
  [ -f props/$prop.json ] || { echo "$n: property $prop not claimed yet"; continue; }
  git -C /repo apply $PWD/$d/patch.diff || { echo "$n: patch does not apply"; continue; }
  out=$(GOVC_NOREPLAY=${GOVC_NOREPLAY-1} ./check $prop 2>&1); rc=$?
  case " $touched " in *" $prop "*) ;; *) touched="$touched $prop";; esac
  git -C /repo checkout -- . ; git -C /repo clean -qfd
  v=$(echo "$out" | grep -c '^VIOLATION')
  echo "$n: prop=$prop exit=$rc violations=$v  $(echo "$out" | grep '^VIOLATION' | head -3 | sed 's/.*replays\/[^/]*\///' | tr '\n' ' ')"
done
for p in $touched; do rm -rf replays/$p; ./check $p >/dev/null 2>&1 || echo "WARNING: $p does not pass on the unchanged tree"; done
