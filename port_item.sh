#!/bin/bash
# usage: port_item.sh <dev commit(s) range a..b> <prop> "<verif commit msg>" "<fix commit msg file>"
# Ports one audited item from /tmp/wt_dev to /repo: contracts first (check must report a violation), then the source fix.
set -u
range=$1; prop=$2; vmsg=$3; fmsgfile=$(readlink -f $4)
cd /repo
[ -z "$(git status --porcelain)" ] || { echo "repo dirty"; exit 2; }
git -C /tmp/wt_dev diff $range -- '*zz_verif_contracts.go' > /tmp/port_contract.diff
git -C /tmp/wt_dev diff $range -- ':!*zz_verif_contracts.go' > /tmp/port_fix.diff
git apply /tmp/port_contract.diff || { echo "contract diff does not apply"; exit 2; }
git add -A; git commit -qm "verif: $vmsg"
echo "--- on the UNFIXED tree:"
(cd /verif && GOVC_NOREPLAY=1 ./check $prop 2>&1 | grep -E "^VIOLATION|quick:" | sed 's/.*replays\/[^/]*\///' | cut -c1-160)
git apply /tmp/port_fix.diff || { echo "fix diff does not apply"; exit 2; }
export PATH=/opt/veriftools/go1.26.8/bin:$PATH GOFLAGS=-mod=mod GOPROXY=off GOSUMDB=off GOTOOLCHAIN=local
go build ./... || { echo BUILD FAILS; exit 2; }
git add -A; git commit -q -F $fmsgfile
echo "--- fixed: $(git log --oneline | head -1)"
(cd /verif && ./check $prop 2>&1 | tail -1)
