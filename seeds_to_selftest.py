#!/usr/bin/env python3
"""Turns confirmed seeded changes (seeded/<name>/patch.diff) that the checks detect into must-fail
mutations for the thorough tier (selftest/<prop>/<name>.json): one textual edit per hunk.
usage: seeds_to_selftest.py <name> [<name>...]"""
import json, os, re, sys
def hunks(diff):
    cur=None; out=[]
    for ln in diff.splitlines():
        if ln.startswith('+++ b/'):
            cur=ln[6:].strip()
        elif ln.startswith('--- ') or ln.startswith('diff ') or ln.startswith('index '):
            continue
        elif ln.startswith('@@'):
            out.append([cur,[],[]])
        elif out and cur:
            if ln.startswith('+'): out[-1][2].append(ln[1:])
            elif ln.startswith('-'): out[-1][1].append(ln[1:])
            elif ln.startswith('\\'): pass
            else:
                t=ln[1:] if ln.startswith(' ') else ln
                out[-1][1].append(t); out[-1][2].append(t)
    return out
for name in sys.argv[1:]:
    d='seeded/'+name
    meta=json.load(open(d+'/meta.json'))
    prop=meta['property']
    edits=[{'file':f,'find':'\n'.join(a)+'\n','replace':'\n'.join(b)+'\n'} for f,a,b in hunks(open(d+'/patch.diff').read())]
    os.makedirs('selftest/'+prop,exist_ok=True)
    m={'name':name,'why':meta.get('title') or meta.get('what_breaks','')[:200],'edits':edits,'expect':[]}
    json.dump(m,open('selftest/%s/%s.json'%(prop,name),'w'),indent=1)
    print('wrote selftest/%s/%s.json (%d edits)'%(prop,name,len(edits)))
