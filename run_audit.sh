#!/bin/bash
# usage: run_audit.sh <audit name> [repo dir]   — runs an auditor's failing test against the tree through go test -overlay
n=$1; R=${2:-/tmp/wt_dev}
export PATH=/opt/veriftools/go1.26.8/bin:$PATH GOFLAGS=-mod=mod GOPROXY=off GOSUMDB=off GOTOOLCHAIN=local
loc=$(jq -r .test_location /verif/audits/$n/meta.json | awk '{print $1}')
mkdir -p /tmp/auditov; echo "{\"Replace\": {\"$R/$loc\": \"/verif/audits/$n/audit_test.go\"}}" > /tmp/auditov/$n.json
cd $R && go test -overlay /tmp/auditov/$n.json -vet=off -count=1 -timeout 300s -run 'TestAudit' ./$(dirname $loc)/ 2>&1 | grep -E "^(--- |ok|FAIL|panic)" | head -8
